"""C12 - iterator bases and adaptors obey the bidirectional / random-access iterator laws.

 1. TLC: IterLaws.tla (L1) - the law set of the property as invariants / action properties of the
    spec (exhaustive in bounds: sizes, strides, all position pairs, all offsets, all capability classes).
 2. S->C: TLC enumerates every (capabilities, n, step, p, q, operation, argument) transition of L1;
    each is replayed on EVERY real iterator kind of that capability class (bitset iterators for uint8 /
    uint64 blocks and views, xoptional_vector/array and xcomplex_vector/array iterators incl. const and
    reverse, xstepping_iterator over vector / const vector / pointer with stride 1..3, xkey_iterator /
    xvalue_iterator over std::map, toy iterators on every flavour of the bases and of the size_t
    extension).
 3. C->S: seeded random walks (longer histories, larger containers and offsets) per kind.
 Every recorded event (result + container storage + both iterators seen through three observers)
 is validated by TLC against IterLawsTrace.tla (L1 is the oracle).
"""
import json, os, random, subprocess
from concurrent.futures import ThreadPoolExecutor
from vlib import core
from vlib.core import MachineryError

SRC = os.path.join(core.HARNESS, "iter", "driver.cpp")
PROBE = os.path.join(core.HARNESS, "iter", "probe.cpp")

# operator-> of xstepping_iterator over a class-type iterator does not compile on trees without
# proposed fix C12-02.  The spec's Arrow action is enabled for every kind (DESIGN.md section 6, C12),
# so this is reported as a violation; set to False to downgrade it to an advisory note.
STEP_ARROW_IS_VERDICT = True


def K(group, ra, ext, mut, std, shape, steps=(1,), maxn=None, arrow=True):
    return {"group": group, "ra": ra, "ext": ext, "mut": mut, "std": std, "shape": shape,
            "steps": steps, "maxn": maxn, "arrow": arrow}


# kind -> driver group, capability class (what the spec enables), element shape
KINDS = {
    "bit8_it":    K(0, True, False, True, True, "bit"),
    "bit8_cit":   K(0, True, False, False, True, "bit"),
    "bit8_rit":   K(0, True, False, True, True, "bit"),
    "bit8_crit":  K(0, True, False, False, True, "bit"),
    "bit64_it":   K(0, True, False, True, True, "bit"),
    "bit64_cit":  K(0, True, False, False, True, "bit"),
    "bitv8_it":   K(0, True, False, True, True, "bit"),
    "bitv8_cit":  K(0, True, False, False, True, "bit"),
    "optvec_it":   K(1, True, False, True, True, "opt"),
    "optvec_cit":  K(1, True, False, False, True, "opt"),
    "optvec_rit":  K(1, True, False, True, True, "opt"),
    "optvec_crit": K(1, True, False, False, True, "opt"),
    "cplxvec_it":   K(2, True, False, True, True, "cplx"),
    "cplxvec_cit":  K(2, True, False, False, True, "cplx"),
    "cplxvec_rit":  K(2, True, False, True, True, "cplx"),
    "cplxvec_crit": K(2, True, False, False, True, "cplx"),
    "step_vec":  K(3, True, False, True, True, "int", steps=(1, 2, 3)),
    "step_cvec": K(3, True, False, False, True, "int", steps=(1, 2, 3)),
    "step_ptr":  K(3, True, False, True, True, "int", steps=(1, 2, 3)),
    "key_map":    K(3, False, False, False, True, "key"),
    "value_map":  K(3, False, False, True, False, "int"),     # std: see probe PROBE_VALUE_TRAITS
    "cvalue_map": K(3, False, False, False, False, "int"),
    "toy_bi1": K(4, False, False, True, True, "int"),
    "toy_bi2": K(4, False, False, True, True, "int"),
    "toy_bi3": K(4, False, False, True, True, "int"),
    "toy_ra1": K(4, True, False, True, True, "int"),
    "toy_ra2": K(4, True, False, True, True, "int"),
    "toy_ra3": K(4, True, False, True, True, "int"),
    "toy_ext_int":  K(4, True, True, True, True, "int"),
    "toy_ext_long": K(4, True, True, True, True, "int"),
    "optarr_it":   K(5, True, False, True, True, "opt", maxn=6),
    "optarr_cit":  K(6, True, False, False, True, "opt", maxn=6),
    "optarr_rit":  K(7, True, False, True, True, "opt", maxn=6),
    "cplxarr_it":  K(8, True, False, True, True, "cplx", maxn=6),
    "cplxarr_cit": K(9, True, False, False, True, "cplx", maxn=6),
    "cplxarr_rit": K(10, True, False, True, True, "cplx", maxn=6),
}
ARRAY_GROUPS = (5, 6, 7, 8, 9, 10)
# quick tier: const / reverse / view twins of an iterator template already replayed in full get the
# TLC transitions for n <= 3 only (thorough: everything, n <= 6)
SECONDARY = {"bit8_cit", "bit8_crit", "bit64_it", "bitv8_it", "bitv8_cit", "optvec_cit", "optvec_rit",
             "cplxvec_cit", "cplxvec_rit", "step_cvec", "cvalue_map", "optarr_cit", "optarr_rit", "cplxarr_it", "cplxarr_rit"}
GROUPS = sorted(set(k["group"] for k in KINDS.values()))

BITPAT = 0xB38F0F5C3A6D91E7C5A3F00FF0E1D2B4   # fixed pseudo-random bit pattern


def pat(j, salt=0):
    return (BITPAT >> ((j * 7 + salt * 13) % 120)) & 1


def elem(shape, j):
    """Element stored at storage index j: reveals j (bit containers: a fixed pattern)."""
    if shape == "bit":
        return [pat(j)]
    if shape == "opt":
        return [10 + j, pat(j, 1)]
    if shape == "cplx":
        return [10 + j, 500 + 3 * j]
    if shape == "key":
        return [10 + 2 * j]            # keys of the map: must be increasing
    return [10 + j]


def wval(shape, cur, ctr):
    """A value to write that differs from what is stored."""
    if shape == "bit":
        return [1 - cur[0]]
    if shape == "opt":
        return [1000 + ctr, 1 - cur[1]]
    if shape == "cplx":
        return [1000 + ctr, 2000 + ctr]
    return [1000 + ctr]


def cls(k):
    return (k["ra"], k["ext"], k["mut"], k["std"])


def reset_event(kind, n, step):
    k = KINDS[kind]
    return {"op": "Reset", "k": 1, "a": {"kind": kind, "n": n, "step": step,
                                          "under": [elem(k["shape"], j) for j in range(n * step)],
                                          "ra": k["ra"], "ext": k["ext"], "mut": k["mut"], "std": k["std"]}}


def ev(op, w, **a):
    return {"op": op, "k": w, "a": a or {"z": 0}}


MOVERS = {"PreInc", "PostInc", "PreDec", "PostDec", "AddAssign", "SubAssign", "Assign", "StdAdvance"}
WRITERS = {"Write", "IndexWrite"}


# ------------------------------------------------------------- TLC -> scripts
def emitted(out):
    res = []
    for line in out.splitlines():
        if line.startswith('"@E@'):
            res.append(json.loads(json.loads(line)[3:]))
    return res


def s2c_scripts(edges, rnd, skip, quick=False):
    """For every kind: every TLC transition of the kind's capability class (and strides), grouped
    by pre-state.  One execution per (kind, n, step); iterators are (re)seated by the harness's own
    Seat step, rotating through the ways of getting there."""
    by_class = {}
    for e in edges:
        c = e["c"]
        by_class.setdefault((c["ra"], c["ext"], c["mut"], c["std"]), []).append(e)
    scripts, taken = {}, 0
    for kind in sorted(KINDS):
        k = KINDS[kind]
        if (kind, "*") in skip:
            continue
        vias = ["inc", "dec"] + (["add", "sub"] if k["ra"] else [])
        lines = []
        groups = {}
        for e in by_class.get(cls(k), []):
            p = e["p"]
            if p["step"] not in k["steps"] or (k["maxn"] is not None and p["n"] > k["maxn"]):
                continue
            if (kind, e["l"]["op"]) in skip or (quick and kind in SECONDARY and p["n"] > 3):
                continue
            groups.setdefault((p["n"], p["step"]), {}).setdefault((p["p"], p["q"]), []).append(e["l"])
        vi = rnd.randrange(len(vias))
        for (n, step) in sorted(groups):
            lines.append(reset_event(kind, n, step))
            under = list(lines[-1]["a"]["under"])
            ctr = 0
            for (p, q) in sorted(groups[(n, step)]):
                calls = groups[(n, step)][(p, q)]
                calls.sort(key=lambda c: (c["op"] in MOVERS, c["op"]))     # observers and writers first
                seat = True
                for c in calls:
                    if seat:
                        lines.append(ev("Seat", 1, p=p, q=q, via=vias[vi % len(vias)]))
                        vi += 1
                    c = {"op": c["op"], "k": c["k"], "a": dict(c["a"])}
                    if c["op"] in WRITERS:
                        pos = (p if c["k"] == 1 else q) + (c["a"]["k"] if c["op"] == "IndexWrite" else 0)
                        ctr += 1
                        c["a"]["v"] = wval(k["shape"], under[pos * step], ctr)
                        under[pos * step] = c["a"]["v"]
                    lines.append(c)
                    taken += 1
                    seat = c["op"] in MOVERS
        scripts[kind] = lines
    return scripts, taken


# ------------------------------------------------------------- random walks (C->S)
class Walk:
    """Seeded random call sequence for one kind.  Tracks only what it needs to stay inside the
    C++ preconditions (positions, and stored values to choose visible writes); predicts nothing."""

    def __init__(self, rnd, kind, n, step, skip):
        self.r, self.kind, self.k, self.n, self.step = rnd, kind, KINDS[kind], n, step
        self.pos = [0, 0]
        self.skip = skip
        self.ctr = 0
        self.lines = [reset_event(kind, n, step)]
        self.under = list(self.lines[0]["a"]["under"])

    def off(self, lo, hi):
        """an offset in [lo, hi], biased to the ends and small magnitudes"""
        c = [lo, hi, 0, 1, -1, lo + 1, hi - 1]
        c = [x for x in c if lo <= x <= hi]
        return self.r.choice(c) if self.r.random() < 0.6 else self.r.randint(lo, hi)

    def step_once(self):
        r, k, n = self.r, self.k, self.n
        for _ in range(100):
            w = r.randrange(2)
            p, o = self.pos[w], self.pos[1 - w]
            ops = ["PreInc", "PostInc", "PreDec", "PostDec", "Deref", "Arrow", "Eq", "Ne", "Assign", "Trav", "Seat"]
            if k["ra"]:
                ops += ["AddAssign", "SubAssign", "Plus", "PlusLeft", "Minus", "Index", "Diff", "Lt", "Le", "Gt", "Ge"] * 2
            if k["ext"]:
                ops += ["PlusU", "PlusLeftU", "MinusU", "IndexU"] * 2
            if k["std"]:
                ops += ["StdAdvance", "StdDistance", "StdNext", "StdPrev"]
            if k["mut"]:
                ops += ["Write"] + (["IndexWrite"] if k["ra"] else [])
            op = r.choice(ops)
            if (self.kind, op) in self.skip:
                continue
            if op in ("PreInc", "PostInc"):
                if p >= n: continue
                self.pos[w] += 1
                return ev(op, w + 1)
            if op in ("PreDec", "PostDec"):
                if p <= 0: continue
                self.pos[w] -= 1
                return ev(op, w + 1)
            if op in ("Deref", "Arrow"):
                if p >= n: continue
                return ev(op, w + 1)
            if op in ("Eq", "Ne", "Diff", "Lt", "Le", "Gt", "Ge"):
                return ev(op, w + 1)
            if op == "Assign":
                self.pos[w] = o
                return ev(op, w + 1)
            if op == "Trav":
                if r.random() < 0.5:
                    return ev("TraverseForward", 1, how=r.choice(["pre", "post"] + (["lt", "index", "plus"] if k["ra"] else [])))
                return ev("TraverseReverse", 1, how=r.choice(["pre", "post"] + (["gt", "minus"] if k["ra"] else [])))
            if op == "Seat":
                if r.random() < 0.7: continue
                a, b = r.randint(0, n), r.choice([0, n, r.randint(0, n)])
                self.pos = [a, b]
                return ev("Seat", 1, p=a, q=b, via=r.choice(["inc", "dec"] + (["add", "sub"] if k["ra"] else [])))
            if op in ("AddAssign", "Plus", "PlusLeft", "StdAdvance", "StdNext"):
                d = self.off(-p, n - p)
                if op in ("AddAssign", "StdAdvance"): self.pos[w] = p + d
                return ev(op, w + 1, k=d)
            if op in ("SubAssign", "Minus", "StdPrev"):
                d = self.off(p - n, p)
                if op == "SubAssign": self.pos[w] = p - d
                return ev(op, w + 1, k=d)
            if op in ("PlusU", "PlusLeftU"):
                return ev(op, w + 1, k=self.off(0, n - p))
            if op == "MinusU":
                return ev(op, w + 1, k=self.off(0, p))
            if op in ("Index", "IndexU", "IndexWrite"):
                lo = 0 if op == "IndexU" else -p
                if n - 1 - p < lo: continue
                d = self.off(lo, n - 1 - p)
                if op == "IndexWrite":
                    self.ctr += 1
                    v = wval(k["shape"], self.under[(p + d) * self.step], self.ctr)
                    self.under[(p + d) * self.step] = v
                    return ev(op, w + 1, k=d, v=v)
                return ev(op, w + 1, k=d)
            if op == "StdDistance":
                if not k["ra"] and p > o: continue
                return ev(op, w + 1)
            if op == "Write":
                if p >= n: continue
                self.ctr += 1
                v = wval(k["shape"], self.under[p * self.step], self.ctr)
                self.under[p * self.step] = v
                return ev(op, w + 1, v=v)
        return ev("Eq", 1)

    def run(self, nops):
        for _ in range(nops):
            self.lines.append(self.step_once())
        return self.lines


def walk_sizes(kind, quick):
    k = KINDS[kind]
    if k["maxn"] is not None:
        return [0, 1, 2, 3, 5, 6]
    if k["shape"] == "bit":
        return [0, 1, 7, 8, 9, 16, 17, 63, 64, 65, 70]
    return [0, 1, 2, 3, 5, 8, 13, 20]


def random_scripts(seed, quick, skip):
    scripts = {}
    for kind in sorted(KINDS):
        k = KINDS[kind]
        if (kind, "*") in skip:
            continue
        rnd = random.Random("%d/%s" % (seed, kind))
        nexec, nops = (10, 60) if quick else (60, 120)
        lines = []
        sizes = walk_sizes(kind, quick)
        for i in range(nexec):
            n = sizes[i % len(sizes)] if i < len(sizes) else rnd.choice(sizes)
            step = rnd.choice(k["steps"]) if len(k["steps"]) == 1 else rnd.choice(list(k["steps"]) + [4, 5])
            lines.extend(Walk(rnd, kind, n, step, skip).run(nops))
        scripts[kind] = lines
    return scripts


# ------------------------------------------------------------- builds
def probe(ctx, macro):
    out = os.path.join(ctx.work, "probe_" + macro.lower())
    rc, o = core.try_build(ctx, PROBE, out, flags=["-D" + macro])
    if rc != 0 and "error" not in o:
        raise MachineryError("compile probe %s failed without a compiler diagnostic:\n%s" % (macro, o[-2000:]))
    return rc == 0, o


def build_drivers(ctx, groups):
    """Probes first (in parallel), then one driver per group (in parallel)."""
    with ThreadPoolExecutor(max_workers=3) as ex:
        pr = list(ex.map(lambda m: probe(ctx, m), ["PROBE_ARRAY_ITERATORS", "PROBE_STEP_ARROW", "PROBE_VALUE_TRAITS"]))
    caps = {"arrays": pr[0][0], "step_arrow": pr[1][0], "value_traits": pr[2][0]}
    diag = {"arrays": pr[0][1], "step_arrow": pr[1][1], "value_traits": pr[2][1]}
    jobs = []
    for g in groups:
        # -O0 -g0: the driver is ~40 generic lambdas x one session per kind; unoptimised and without
        # debug info it compiles three times faster (ASan stays on), its run time does not matter
        flags = ["-O0", "-g0", "-DC12_GROUP=%d" % g]
        if g == 3 and not caps["step_arrow"]:
            flags.append("-DC12_NO_STEP_ARROW")
        if g in ARRAY_GROUPS and not caps["arrays"]:
            flags.append("-DC12_NO_ARRAY_ITERATORS")
        jobs.append({"src": SRC, "out": os.path.join(ctx.work, "iter_driver_%d" % g), "flags": flags})
    core.build_many(ctx, jobs, max_workers=min(len(jobs), max(4, core.NCPU - 2)))
    return caps, diag, {g: j["out"] for g, j in zip(groups, jobs)}


def apply_caps(caps):
    """The kind table follows what the tree offers where the property does not demand it."""
    if caps["value_traits"]:
        for kind in ("value_map", "cvalue_map"):
            KINDS[kind]["std"] = True


def write_script(path, lines):
    with open(path, "w") as f:
        for l in lines:
            f.write(json.dumps(l, separators=(",", ":")) + "\n")


def run_script(drv, script_path, trace_path):
    """Run the driver over the script.  A crash (sanitizer report, signal) ends the driver with a final
    Crash event: the call that crashed is attached to that event (so the replay re-executes it) and the
    driver is restarted at the next Reset, so one crash does not hide the rest of the script."""
    env = dict(os.environ); env.update(core.ASAN_ENV)
    with open(script_path) as f:
        script = [l for l in f.read().splitlines() if l.strip()]
    start = 0
    with open(trace_path, "w") as fout:
        for _ in range(200):
            p = subprocess.run([drv], input=("\n".join(script[start:]) + "\n").encode(), stdout=subprocess.PIPE,
                               stderr=subprocess.PIPE, env=env, timeout=1800)
            if p.returncode == 3:
                raise MachineryError("harness rejected script %s: %s" % (script_path, p.stderr.decode(errors="replace")[-500:]))
            out = [l for l in p.stdout.decode(errors="replace").splitlines() if l.strip()]
            crashed = bool(out) and out[-1].startswith('{"op":"Crash"')
            done = len(out) - (1 if crashed else 0)        # events completed in this round
            if not crashed:
                if done != len(script) - start:
                    raise MachineryError("harness stopped after %d of %d events without a Crash event (rc=%s): %s"
                                         % (done, len(script) - start, p.returncode, p.stderr.decode(errors="replace")[-500:]))
                fout.write("".join(l + "\n" for l in out))
                return
            # a partially written line of the crashing call may precede the Crash event: keep complete events only
            good = [l for l in out[:-1] if l.endswith("}}") or l.endswith("}")]
            done = len(good)
            crash = json.loads(out[-1])
            if start + done < len(script):
                crash["call"] = json.loads(script[start + done])
            fout.write("".join(l + "\n" for l in good) + json.dumps(crash, separators=(",", ":")) + "\n")
            nxt = start + done + 1
            while nxt < len(script) and not script[nxt].startswith('{"op":"Reset"'):
                nxt += 1
            if nxt >= len(script):
                return
            start = nxt
    raise MachineryError("harness crashed more than 200 times on %s" % script_path)


def chunk_by_reset(lines, max_events):
    """Split a script at Reset boundaries into pieces of at most about max_events events."""
    out, cur = [], []
    for l in lines:
        if l["op"] == "Reset" and len(cur) >= max_events:
            out.append(cur); cur = []
        cur.append(l)
    if cur:
        out.append(cur)
    return out


def classify(findings):
    def f(evj, execution):
        kind = None
        try:
            kind = json.loads(execution[0])["a"]["kind"]
        except Exception:
            pass
        for k in findings:
            m = k.get("match", {})
            if all((x == "kind" and kind == y) or evj.get(x) == y or evj.get("a", {}).get(x) == y for x, y in m.items()):
                return "%s (%s)" % (k["key"], k["what"])
        return None
    return f


def replay(ctx, path):
    """./verif replay C12 <file>: re-run the recorded calls on the current tree and validate."""
    lines = [l for l in core.read_ndjson(path) if "_meta" not in l]
    lines = [l.get("call") if l.get("op") == "Crash" else l for l in lines]     # re-execute the call that crashed
    lines = [l for l in lines if l]
    kind = next((l["a"]["kind"] for l in lines if l["op"] == "Reset"), None)
    if kind not in KINDS:
        raise MachineryError("replay file names no known iterator kind")
    g = KINDS[kind]["group"]
    caps, diag, drv = build_drivers(ctx, [g])
    sp, tp = os.path.join(ctx.work, "replay.script"), os.path.join(ctx.work, "replay.ndjson")
    write_script(sp, lines)
    run_script(drv[g], sp, tp)
    r = core.validate_trace(ctx, "IterLawsTrace", "IterLawsTrace.cfg", tp)
    if r["accepted"]:
        print("replay accepted: the recorded calls now conform to IterLaws.tla")
        return 0
    print("VIOLATION property=C12 replay=%s" % path)
    print("  rejected at event %d; spec expected: %s" % (r["fail_line"] + 1, r.get("expected")))
    return 1


def run(ctx):
    q = ctx.quick
    findings = core.load_findings("C12")
    rnd = random.Random(ctx.seed)

    # ---- build (background) while TLC works
    pool = ThreadPoolExecutor(max_workers=1)
    fut = pool.submit(build_drivers, ctx, GROUPS)

    # ---- 1. L1 model checking: the law set as theorems of the spec
    r = core.tlc_model_check(ctx, "IterLawsMC", "IterLaws_mc.cfg" if q else "IterLaws_mc_thorough.cfg",
                             "L1 laws (all positions/offsets), postfix-returns-old, observer purity, size_t overloads agree",
                             coverage=not q, workers=4 if q else None)
    if r["violated"]:
        raise MachineryError("L1 spec IterLaws.tla violates its own theorem %s (oracle bug), see %s" % (r["violated"], r["outfile"]))
    if not q:
        cov = {k: v for k, v in r.get("coverage", {}).items() if k[0].isupper()}
        ctx.notes["l1_action_coverage"] = cov
        spec_actions = ["PreInc", "PostInc", "PreDec", "PostDec", "Deref", "Arrow", "Eq", "Ne", "Assign", "AddAssign", "SubAssign",
                        "Plus", "PlusLeft", "Minus", "Index", "Diff", "Lt", "Le", "Gt", "Ge", "PlusU", "PlusLeftU", "MinusU", "IndexU",
                        "StdAdvance", "StdDistance", "StdNext", "StdPrev", "Write", "IndexWrite", "TraverseForward", "TraverseReverse", "Seat"]
        ctx.notes["vacuous_actions"] = sorted(a for a in spec_actions if cov.get(a, [0, 0])[1] == 0)

    # ---- 2. S->C enumeration
    r3 = core.tlc(ctx, "IterLawsMC", "IterLaws_s2c.cfg" if q else "IterLaws_s2c_thorough.cfg", name="s2c-enumerate",
                  heap="6g", timeout=1200, workers=4 if q else None)
    if r3["violated"]:
        raise MachineryError("s2c enumeration failed: %s" % r3["outfile"])
    edges = emitted(r3["out"])
    r3["out"] = ""
    if not edges:
        raise MachineryError("s2c enumeration emitted no transitions: %s" % r3["outfile"])

    caps, diag, drivers = fut.result()
    pool.shutdown()
    apply_caps(caps)
    ctx.notes["tree_capabilities"] = caps
    # Operators / kinds that do not even compile on this tree (body errors, invisible to SFINAE) would be
    # hit by every script: the generators avoid them and ONE directed script per defect keeps each
    # visible (the driver logs `unsupported`, which the spec rejects).
    skip = set()
    directed = []
    if not caps["step_arrow"]:
        skip |= {("step_vec", "Arrow"), ("step_cvec", "Arrow")}
        what = "xstepping_iterator<class-type iterator>::operator-> does not compile (proposed_fixes/C12-02)"
        if STEP_ARROW_IS_VERDICT:
            directed.append(("step_vec", [reset_event("step_vec", 2, 2), ev("Arrow", 1)]))
        else:
            ctx.notes["advisory"] = [what + "; Arrow not exercised for step_vec/step_cvec"]
        ctx.log("tree: " + what)
    if not caps["arrays"]:
        for kind in KINDS:
            if KINDS[kind]["group"] in ARRAY_GROUPS:
                skip.add((kind, "*"))
        directed.append(("optarr_it", [reset_event("optarr_it", 2, 1)]))
        directed.append(("cplxarr_it", [reset_event("cplxarr_it", 2, 1)]))
        ctx.log("tree: begin()/end() of xoptional_array / xcomplex_array do not compile (proposed_fixes/C12-01)")
    for fnd in findings:
        for s in fnd.get("avoid", []):
            skip.add((s["kind"], s["op"]))

    # scripts are merged per driver group (a Reset names its kind) and cut into pieces: few, large
    # trace files keep the number of TLC start-ups small
    per_group = {g: [] for g in GROUPS}
    s2c, taken = s2c_scripts(edges, rnd, skip, quick=q)
    ctx.log("S->C: %d L1 transitions enumerated by TLC; %d (kind, transition) replays on %d iterator kinds" % (len(edges), taken, len(s2c)))
    ctx.notes["s2c_transitions_enumerated"] = len(edges)
    ctx.notes["s2c_transitions_replayed"] = taken
    ctx.notes["iterator_kinds"] = sorted(k for k in KINDS if (k, "*") not in skip)
    for kind in sorted(s2c):
        per_group[KINDS[kind]["group"]].extend(s2c[kind])

    # ---- 3. C->S random walks
    nwalk = 0
    rs = random_scripts(ctx.seed, q, skip)
    for kind in sorted(rs):
        nwalk += sum(1 for l in rs[kind] if l["op"] == "Reset")
        per_group[KINDS[kind]["group"]].extend(rs[kind])
    ctx.notes["c2s_random_walks"] = nwalk

    scripts = []      # (name, group, lines)
    total = sum(len(v) for v in per_group.values())
    piece = max(6000, total // core.NCPU)
    for g in GROUPS:
        for i, ch in enumerate(chunk_by_reset(per_group[g], piece)):
            scripts.append(("g%02d-%02d" % (g, i), g, ch))

    for kind, lines in directed:
        scripts.append(("directed-" + kind, KINDS[kind]["group"], lines))
    # ---- probes for open known findings
    for fnd in findings:
        if "probe" in fnd:
            scripts.append(("probe-" + fnd["id"], KINDS[fnd["probe"]["kind"]]["group"], fnd["probe"]["script"]))

    # ---- run the harness
    tdir = ctx.sub("traces")

    def one(item):
        name, g, lines = item
        sp, tp = os.path.join(tdir, name + ".script"), os.path.join(tdir, name + ".ndjson")
        write_script(sp, lines)
        run_script(drivers[g], sp, tp)
        return tp
    with ThreadPoolExecutor(max_workers=max(2, core.NCPU // 2)) as ex:
        traces = list(ex.map(one, scripts))
    for name, g, lines in scripts:
        ctx.cov["traces_validated_against_impl"] += sum(1 for l in lines if l["op"] == "Reset")
    ctx.sample({"script": [json.dumps(x) for x in scripts[0][2][:10]]})
    ctx.sample({"script": [json.dumps(x) for x in scripts[-1][2][:10]]})

    # ---- validate every trace against L1
    core.validate_traces(ctx, "IterLawsTrace", "IterLawsTrace.cfg", traces, classify=classify(findings),
                         parallel=core.NCPU, max_restarts=2)
    ctx.cov["evaluations"] = ctx.cov["events_validated"]
    # A call the spec does not ENABLE (as opposed to one whose result it rejects) means the script left the
    # C++ preconditions: that is a bug of the generators in this file, never a finding about xtl.
    for path, text in ctx.violations:
        if "(no successor:" in text and '{"op":"Crash"' not in text:
            raise MachineryError("a generated script contains a call outside the spec's preconditions: %s" % text[:600])
    ctx.log("validated %d events in %d traces (%d executions)" % (ctx.cov["events_validated"], len(traces), ctx.cov["traces_validated_against_impl"]))

    return core.finish(
        ctx, "model_checking",
        rule="TLC: IterLaws.tla laws exhaustive for n<=%d, strides %s, all position pairs/offsets, 12 capability classes; every L1 "
             "transition for n<=%d (strides 1..3 for xstepping_iterator) replayed on each real iterator kind of its class (%d kinds%s); "
             "seeded random walks per kind (sizes to 70 for bitset iterators, strides to 5). A case is one iterator expression with its "
             "result and the projection (storage + both iterators via ==/++ count, it-begin(), end()-it, *it) compared by TLC."
             % (3 if q else 5, "{1,2}" if q else "{1,2,3}", 4 if q else 6, len(s2c),
                "; const/reverse/view twins only n<=3 in this tier" if q else ""),
        assumptions=["the harness projection reads the storage through the containers' own accessors (not through xtl iterators)",
                     "toy iterators in the harness define only the primitive operations; everything else comes from the xtl bases",
                     "singular / default-constructed iterators and iterators of different containers are outside the property"],
        exhaustive=False)

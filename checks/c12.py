"""C12 - iterator bases and adaptors obey the bidirectional / random-access iterator laws.

 0. Type facts: TLC evaluates IterLawsTypes.tla (which expressions an iterator of each capability class
    must offer and what their types are, from the C++14 iterator requirement tables); harness/iter/facts.cpp
    observes them on the real iterator types with detection traits.  A missing `must` fact is a violation
    (replay: a CompileProbe line); `cap` facts (default-constructible, traits of xvalue_iterator) only decide
    which spec actions are exercised.  common_iterator_tag is checked the same way, advisory.
 1. TLC: IterLaws.tla (L1) - the law set of the property as invariants / action properties of the
    spec (exhaustive in bounds: sizes, strides, all position pairs, all offsets, all capability classes).
    IterLawsImpl.tla (L2, advisory) - the representations of the xtl iterators refine L1.
 2. S->C: TLC enumerates every (n, step, p, q, operation, argument) transition of L1 for the two maximal
    capability classes; each is replayed on EVERY real iterator kind that has the operation (bitset iterators
    for uint8 / uint64 blocks and views, xoptional_vector/array and xcomplex_vector/array iterators incl. const
    and reverse, from mutable and from const containers, xstepping_iterator over vector / const vector / pointer
    with stride 1..3, xkey_iterator / xvalue_iterator over std::map, std::reverse_iterator over the random-access
    ones, toy iterators on every flavour of the bases and of the size_t extension).
 3. C->S: seeded random walks (longer histories, larger containers and offsets) per kind; in the thorough tier
    also on a clang++ -O2 build.
 Every recorded event (result + container storage + both iterators seen through three observers)
 is validated by TLC against IterLawsTrace.tla (L1 is the oracle).

 A driver group that does not build against the tree, a crash, a call that does not return and a pervasive
 defect all end in exit 1 as long as there is a violation to report; exit 2 only when there is none.
"""
import json, os, random, re, subprocess, threading
from concurrent.futures import ThreadPoolExecutor
from vlib import core
from vlib.core import MachineryError
from vlib.iterlaws import (KINDS, GROUPS, ARRAY_GROUPS, VALUE_KINDS, FLAGS, CAP_BITS, CAP_ALL, ALL_ACTIONS, reset_event, ev,
                           s2c_scripts, random_scripts, needs, flags_of, mixed_scripts, negstride_scripts, MIXED_OPS)

FACT_KINDS = sorted(k for k in KINDS if KINDS[k]["idx"] is not None)      # the advisory negative-stride kind shares step_ptr's type

HDIR = os.path.join(core.HARNESS, "iter")
SRC = os.path.join(HDIR, "driver.cpp")
PROBE = os.path.join(HDIR, "probe.cpp")
FACTS = os.path.join(HDIR, "facts.cpp")
COMMON = os.path.join(core.HARNESS, "common")

MAX_RESTARTS = 5            # driver restarts per script after Crash events; then the rest of the script is dropped
MAX_FILE_REJECTIONS = 2     # a trace file is not re-validated after its second rejection
MAX_REPORT = 12             # violations reported (each re-executed and explained); more are only counted
MAX_TYPE_REPORT = 6

FLAVOURS = {"gcc": {"cxx": None, "flags": ["-O0", "-g0"], "asan": True},
            # -O0 -g0: the driver is ~60 generic lambdas x one session per kind; unoptimised and without
            # debug info it compiles three times faster (ASan stays on), its run time does not matter
            "clang": {"cxx": "clang++", "flags": ["-O2", "-g0"], "asan": False}}
TAG_TYPES = {"input": ["std::istream_iterator<int>", "std::istream_iterator<int>"],
             "forward": ["std::forward_list<int>::iterator", "std::forward_list<int>::const_iterator"],
             "bidirectional": ["std::list<int>::iterator", "xtl::xkey_iterator<imap>"],
             "random_access": ["std::vector<int>::iterator", "xtl::xstepping_iterator<int*>", "xtl::xdynamic_bitset<std::uint8_t>::iterator",
                               "xtl::xoptional_vector<int>::const_iterator"]}
TAG_CPP = {"input": "std::input_iterator_tag", "forward": "std::forward_iterator_tag",
           "bidirectional": "std::bidirectional_iterator_tag", "random_access": "std::random_access_iterator_tag"}


def ctype(kind):
    return "k_%s%s" % (kind, "<3>" if KINDS[kind]["array"] else "")


def compile_cmd(flavour, flags, src, out=None, syntax_only=False):
    f = FLAVOURS[flavour]
    cmd = [f["cxx"] or core.CXX] + core.BASE_FLAGS + (core.ASAN if f["asan"] else []) + ["-I", core.INCLUDE, "-I", COMMON, "-I", HDIR]
    cmd += f["flags"] + list(flags)
    if syntax_only:
        return cmd + ["-fsyntax-only", src]
    return cmd + [src, "-o", out]


def first_errors(out, n=6):
    e = [l for l in out.splitlines() if "error" in l]
    return "\n".join(e[:n]) if e else out[-1500:]


# ------------------------------------------------------------- stage 0: type facts
def emitted(out, tag="@E@"):
    res = []
    for line in out.splitlines():
        if line.startswith('"' + tag):
            res.append(json.loads(json.loads(line)[len(tag):]))
    return res


def class_key(c):
    return tuple(bool(c[f]) for f in FLAGS)


def types_tables(ctx):
    """TLC evaluates IterLawsTypes.tla: rows per capability class, common_iterator_tag rows."""
    r = core.tlc(ctx, "IterLawsTypes", "IterLawsTypes.cfg", name="types-table", workers=1, timeout=300, heap="1g")
    if r["rc"] != 0 or "Assumption" in r["out"] and "is false" in r["out"]:
        raise MachineryError("IterLawsTypes.tla: a theorem of the tables fails (oracle bug), see %s" % r["outfile"])
    rows = {class_key(x["c"]): {y["f"]: y["need"] for y in x["rows"]} for x in emitted(r["out"], "@T@")}
    tags = emitted(r["out"], "@G@")
    if len(rows) != 40 or len(tags) != 84:
        raise MachineryError("IterLawsTypes.tla printed %d classes / %d tag rows (expected 40 / 84), see %s" % (len(rows), len(tags), r["outfile"]))
    return rows, tags


def build_facts(ctx, only=None, tagfile=None, name="facts"):
    out = os.path.join(ctx.work, name)
    flags = ["-O0", "-g0"]
    if only is not None:
        flags.append("-DC12_ONLY=%d" % only)
    if tagfile:
        flags.append('-DC12_TAG_ROWS_FILE="%s"' % tagfile)
    cmd = [core.CXX] + core.BASE_FLAGS + ["-I", core.INCLUDE, "-I", COMMON, "-I", HDIR] + flags + [FACTS, "-o", out]
    rc, o = core.sh(cmd, timeout=600)
    if rc != 0:
        if "error" not in o:
            raise MachineryError("facts program failed to build without a compiler diagnostic:\n%s" % o[-2000:])
        return None, o
    rc, o2 = core.sh([out], timeout=60)
    if rc != 0:
        raise MachineryError("facts program failed (rc=%s): %s" % (rc, o2[-500:]))
    return [json.loads(l) for l in o2.splitlines() if l.strip()], ""


def observe_facts(ctx, tags):
    """Facts of every kind.  Returns (facts per kind, broken kinds {kind: compiler output}, tag results, conversions)."""
    tagfile = os.path.join(ctx.work, "tag_rows.inc")
    with open(tagfile, "w") as f:
        for i, t in enumerate(tags):
            its = [TAG_TYPES[x][(i + j) % len(TAG_TYPES[x])] for j, x in enumerate(t["tags"])]
            f.write("    tagrow<%s, %s>(%d);\n" % (TAG_CPP[t["common"]], ", ".join(its), i))
            t["types"] = its
    rows, out = build_facts(ctx, tagfile=tagfile)
    facts, broken = {}, {}
    if rows is None:
        # some iterator type no longer instantiates: isolate it kind by kind (the tag table is advisory: dropped)
        ctx.log("facts program does not compile against this tree; isolating the kinds")

        def one(kind):
            r, o = build_facts(ctx, only=KINDS[kind]["idx"], name="facts_" + kind)
            return kind, r, o
        with ThreadPoolExecutor(max_workers=core.NCPU) as ex:
            for kind, r, o in ex.map(one, FACT_KINDS):
                if r is None:
                    broken[kind] = o
                else:
                    facts[kind] = r[0]["facts"]
        if not broken:
            raise MachineryError("facts program does not compile although every kind does alone:\n%s" % out[-3000:])
        return facts, broken, None, None
    for r in rows:
        if "kind" in r:
            facts[r["kind"]] = r["facts"]
    if set(facts) != set(FACT_KINDS):
        raise MachineryError("facts.cpp and vlib/iterlaws.py disagree on the kinds: %s" % sorted(set(facts) ^ set(FACT_KINDS)))
    tagres = {r["tagrow"]: r["ok"] for r in rows if "tagrow" in r}
    conv = {r["conv"]: r["it_to_cit"] for r in rows if "conv" in r}
    return facts, broken, tagres, conv


def types_stage(ctx):
    rows, tags = types_tables(ctx)
    facts, broken, tagres, conv = observe_facts(ctx, tags)
    # capabilities of the tree first: they decide the class of a kind
    for kind, f in facts.items():
        KINDS[kind]["dc"] = bool(f["default_constructible"])
        if kind in VALUE_KINDS:
            KINDS[kind]["std"] = bool(f["traits_bi"])
    findings = []      # (kind, fact, text)
    for kind in FACT_KINDS:
        if kind in broken:
            findings.append((kind, "*", "iterator kind %s: the iterator type can no longer be instantiated / used in unevaluated "
                             "expressions: %s" % (kind, first_errors(broken[kind], 3))))
            continue
        need = rows[class_key(KINDS[kind])]
        for fact in sorted(need):
            if need[fact] == "must" and not facts[kind][fact]:
                findings.append((kind, fact, "iterator kind %s (%s) lacks the type-level fact `%s` that IterLawsTypes.tla requires of its "
                                 "capability class %s (the expression does not exist or has another type)"
                                 % (kind, ctype(kind), fact, {f: KINDS[kind][f] for f in FLAGS})))
    nrows = sum(len(rows[class_key(KINDS[k])]) for k in facts)
    adv = []
    if tagres is not None:
        for i, t in enumerate(tags):
            if not tagres.get(i, False):
                adv.append("common_iterator_tag<%s> is not %s" % (", ".join(t["types"]), TAG_CPP[t["common"]]))
    return {"findings": findings, "rows_checked": nrows, "tag_rows": len(tags) if tagres is not None else 0, "tag_advisories": adv,
            "conv": conv, "broken": sorted(broken)}


# ------------------------------------------------------------- builds
def probe(ctx, macro):
    out = os.path.join(ctx.work, "probe_" + macro.lower())
    rc, o = core.try_build(ctx, PROBE, out, flags=["-D" + macro])
    if rc != 0 and "error" not in o:
        raise MachineryError("compile probe %s failed without a compiler diagnostic:\n%s" % (macro, o[-2000:]))
    return rc == 0, o


def algo_probe(ctx, g):
    """Which bodies SFINAE cannot see compile for the kinds of group g: one explicit instantiation per line of a
    generated translation unit; the lines the compiler complains about are switched off and the rest is compiled
    again (an error inside a helper shared by two algorithms is reported for the first one only)."""
    kinds = sorted(k for k in KINDS if KINDS[k]["group"] == g)
    cand = []
    for kind in kinds:
        k, t = KINDS[kind], ctype(kind)
        it = "%s::iterator" % t
        cand.append((kind, "Arrow", "template std::string c12::arrow_of<%s, %s>(const %s&);" % (t, it, it)))
        if k["mut"] and (k["std"] or kind in VALUE_KINDS):
            cand.append((kind, "StdFill", "template void c12::algo_fill<%s, %s>(%s, %s, const elem_t&);" % (t, it, it, it)))
            cand.append((kind, "StdReverse", "template void c12::algo_reverse<%s, %s>(%s, %s);" % (t, it, it, it)))
            cand.append((kind, "StdCopyWithin", "template %s c12::algo_copy_within<%s, %s>(%s, %s, %s);" % (it, t, it, it, it, it)))
            cand.append((kind, "StdRotate", "template %s c12::algo_rotate<%s, %s>(%s, %s, %s);" % (it, t, it, it, it, it)))
            if k["ra"]:
                cand.append((kind, "StdSort", "template void c12::algo_sort<%s, %s>(%s, %s);" % (t, it, it, it)))
    caps = {kind: CAP_ALL for kind in kinds}
    off = []
    for rnd in range(6):
        path = os.path.join(ctx.work, "algo_probe_g%02d_%d.cpp" % (g, rnd))
        with open(path, "w") as f:
            f.write('#include "iter_algos.hpp"\n' + "\n".join(c[2] for c in cand) + "\n")
        rc, o = core.sh(compile_cmd("gcc", ["-DC12_GROUP=%d" % g], path, syntax_only=True), timeout=600)
        if rc == 0:
            break
        bad = set(int(m.group(1)) for m in re.finditer(r"%s:(\d+):\d+:" % re.escape(os.path.basename(path)), o))
        hit = [cand[l - 2] for l in sorted(bad) if 2 <= l < len(cand) + 2]
        if not hit:
            # the prelude itself does not compile: the driver will not either; let the driver build report it
            break
        for kind, op, _ in hit:
            caps[kind] &= ~CAP_BITS[op]
            off.append((kind, op))
        cand = [c for c in cand if c not in hit]
    return caps, off, ""


def build_group(ctx, g, flavour="gcc", arrays_ok=True, caps=None):
    """Probe + driver build of one group.  Never raises for a compiler error: returns ok=False and the output."""
    off = []
    if caps is None:
        caps, off, pre = algo_probe(ctx, g)
    flags = ["-DC12_GROUP=%d" % g] + ["-DCAPS_%s=%d" % (k, v) for k, v in sorted(caps.items())]
    if g in ARRAY_GROUPS and not arrays_ok:
        flags.append("-DC12_NO_ARRAY_ITERATORS")
    out = os.path.join(ctx.work, "iter_driver_%s_%d" % (flavour, g))
    rc, o = core.sh(compile_cmd(flavour, flags, SRC, out), timeout=900)
    if rc != 0 and "error" not in o:
        raise MachineryError("driver build (group %d, %s) failed without a compiler diagnostic:\n%s" % (g, flavour, o[-2000:]))
    return {"group": g, "flavour": flavour, "ok": rc == 0, "drv": out, "caps": caps, "off": off, "out": o}


def build_all(ctx, groups, clang_groups=()):
    arrays_ok, arrays_diag = probe(ctx, "PROBE_ARRAY_ITERATORS")
    with ThreadPoolExecutor(max_workers=max(2, core.NCPU)) as ex:
        res = list(ex.map(lambda g: build_group(ctx, g, "gcc", arrays_ok), groups))
        builds = {("gcc", r["group"]): r for r in res}
        res2 = list(ex.map(lambda g: build_group(ctx, g, "clang", arrays_ok, caps=builds[("gcc", g)]["caps"]), clang_groups))
        builds.update({("clang", r["group"]): r for r in res2})
    return arrays_ok, arrays_diag, builds


# ------------------------------------------------------------- running the harness
def write_script(path, lines):
    with open(path, "w") as f:
        for l in lines:
            f.write(json.dumps(l, separators=(",", ":")) + "\n")


def run_script(drv, script_path, trace_path, asan=True, max_restarts=MAX_RESTARTS):
    """Run the driver over the script.  A crash (sanitizer report, signal, per-call CPU limit) ends the driver with a
    final Crash event: the call that crashed is attached to that event (so the replay re-executes it) and the
    driver is restarted at the next Reset, so one crash does not hide the rest of the script.  After max_restarts
    restarts the rest of the script is dropped (TLC has plenty to reject by then).
    Returns dict(crashes, dropped_executions)."""
    env = dict(os.environ)
    if asan:
        env.update(core.ASAN_ENV)
    with open(script_path) as f:
        script = [l for l in f.read().splitlines() if l.strip()]
    start, crashes = 0, 0
    with open(trace_path, "w") as fout:
        while True:
            p = subprocess.run([drv], input=("\n".join(script[start:]) + "\n").encode(), stdout=subprocess.PIPE,
                               stderr=subprocess.PIPE, env=env, timeout=3600)
            if p.returncode == 3:
                raise MachineryError("harness rejected script %s: %s" % (script_path, p.stderr.decode(errors="replace")[-500:]))
            out = [l for l in p.stdout.decode(errors="replace").splitlines() if l.strip()]
            crashed = bool(out) and out[-1].startswith('{"op":"Crash"')
            done = len(out) - (1 if crashed else 0)        # events completed in this round
            if not crashed:
                if done != len(script) - start:
                    # died without a word (e.g. killed, stack overflow inside a signal handler): treat like a crash
                    out.append(json.dumps({"op": "Crash", "why": "driver ended with status %s without a Crash event" % p.returncode}))
                else:
                    fout.write("".join(l + "\n" for l in out))
                    return {"crashes": crashes, "dropped_executions": 0}
            # a partially written line of the crashing call may precede the Crash event: keep complete events only
            good = []
            for l in out[:-1]:
                if not (l.startswith("{") and l.endswith("}")):
                    break
                good.append(l)
            done = len(good)
            crash = json.loads(out[-1])
            if start + done < len(script):
                crash["call"] = json.loads(script[start + done])
            fout.write("".join(l + "\n" for l in good) + json.dumps(crash, separators=(",", ":")) + "\n")
            crashes += 1
            nxt = start + done + 1
            while nxt < len(script) and not script[nxt].startswith('{"op":"Reset"'):
                nxt += 1
            if nxt >= len(script):
                return {"crashes": crashes, "dropped_executions": 0}
            if crashes > max_restarts:
                dropped = sum(1 for l in script[nxt:] if l.startswith('{"op":"Reset"'))
                return {"crashes": crashes, "dropped_executions": dropped}
            start = nxt


def chunk_by_reset(lines, max_events):
    """Split a script at Reset boundaries into pieces of at most about max_events events."""
    out, cur = [], []
    for l in lines:
        if l["op"] == "Reset" and len(cur) >= max_events:
            out.append(cur); cur = []
        cur.append(l)
    if cur:
        out.append(cur)
    return out


def classify(findings):
    def f(evj, execution):
        kind = None
        try:
            kind = json.loads(execution[0])["a"]["kind"]
        except Exception:
            pass
        for k in findings:
            m = k.get("match", {})
            if all((x == "kind" and kind == y) or evj.get(x) == y or evj.get("a", {}).get(x) == y for x, y in m.items()):
                return "%s (%s)" % (k["key"], k["what"])
        return None
    return f


# ------------------------------------------------------------- validation
def read_lines(path):
    with open(path) as f:
        return [l.rstrip("\n") for l in f if l.strip()]


def next_reset(lines, idx):
    nxt = idx + 1
    while nxt < len(lines) and not lines[nxt].lstrip().startswith('{"op":"Reset"'):
        nxt += 1
    return nxt


def validate_file(ctx, item):
    """Validate one trace file against L1.  No explain runs here; at most MAX_FILE_REJECTIONS rejections are
    collected (validation restarts once after the first rejected execution)."""
    rejs, matched, cur = [], 0, item["trace"]
    unvalidated = 0
    for attempt in range(MAX_FILE_REJECTIONS):
        r = core.validate_trace(ctx, "IterLawsTrace", "IterLawsTrace.cfg", cur, explain=False, timeout=3600)
        matched += r["matched"]
        if r["accepted"]:
            break
        lines = read_lines(cur)
        idx = r["fail_line"]
        if idx >= len(lines):
            raise MachineryError("trace validation of %s ended beyond the trace (see %s)" % (cur, r["tlc"]["outfile"]))
        rejs.append({"item": item, "event": lines[idx], "execution": core.execution_of(lines, idx), "line": idx + 1, "file": os.path.basename(cur)})
        nxt = next_reset(lines, idx)
        if nxt >= len(lines):
            break
        if attempt + 1 >= MAX_FILE_REJECTIONS:
            unvalidated = sum(1 for l in lines[nxt:] if l.lstrip().startswith('{"op":"Reset"'))
            break
        cur = "%s.rest%d" % (item["trace"], attempt + 1)
        with open(cur, "w") as f:
            f.write("\n".join(lines[nxt:]) + "\n")
    return matched, rejs, unvalidated


def calls_of(execution):
    """The calls of a recorded execution (observations stripped; a Crash event stands for the call that crashed)."""
    out = []
    for l in execution:
        d = json.loads(l) if isinstance(l, str) else dict(l)
        if "_meta" in d:
            continue
        if d.get("op") == "Crash":
            d = d.get("call")
            if not d:
                continue
        d = {k: v for k, v in d.items() if k not in ("res", "st")}
        out.append(d)
    return out


def reexecute(ctx, calls, build, tag):
    """Single-execution re-run with the SAME driver build (group, compiler flavour, capability mask)."""
    sp, tp = os.path.join(ctx.work, "confirm-%s.script" % tag), os.path.join(ctx.work, "confirm-%s.ndjson" % tag)
    write_script(sp, calls)
    run_script(build["drv"], sp, tp, asan=FLAVOURS[build["flavour"]]["asan"], max_restarts=0)
    r = core.validate_trace(ctx, "IterLawsTrace", "IterLawsTrace.cfg", tp, name="confirm-" + tag, explain=False)
    if not r["accepted"]:
        lines = read_lines(tp)
        if r["fail_line"] < len(lines) and lines[r["fail_line"]].startswith('{"op":"Crash"'):
            r["expected"] = "(the call crashed, raised a sanitizer report or did not return within its CPU limit: there is no result to compare)"
        else:
            r["expected"] = core.explain_event(ctx, "IterLawsTrace", "IterLawsTrace.cfg", lines, r["fail_line"])
    return r, tp


def signature(rej):
    try:
        e = json.loads(rej["event"])
        kind = json.loads(rej["execution"][0])["a"]["kind"]
    except Exception:
        return ("?", "?", "?")
    if e.get("op") == "Crash":
        c = e.get("call") or {}
        return (kind, "Crash:" + str(c.get("op")), e.get("why"))
    a = e.get("a", {})
    return (kind, e.get("op"), a.get("how", a.get("o")))


def report_rejections(ctx, rejs, findings, builds):
    """Classify, confirm (re-execute + re-validate + explain) and report a bounded number of rejections."""
    cl = classify(findings)
    todo, seen = [], set()
    for r in rejs:
        try:
            evj = json.loads(r["event"])
        except Exception:
            evj = {"op": "?"}
        key = cl(evj, r["execution"])
        if key:
            if key not in ctx.known:
                ctx.known.append(key)
            continue
        r["sig"] = signature(r)
        todo.append(r)
    # one rejection per distinct (kind, operation) first, then the rest
    first, rest = [], []
    for r in todo:
        if r["sig"] in seen:
            rest.append(r)
        else:
            seen.add(r["sig"])
            first.append(r)
    order = first + rest
    reported = 0
    for n, r in enumerate(order):
        if reported >= MAX_REPORT:
            break
        item = r["item"]
        build = builds[(item["flavour"], item["group"])]
        calls = calls_of(r["execution"])
        v, tp = reexecute(ctx, calls, build, "%02d" % n)
        if v["accepted"]:
            raise MachineryError("non-reproducible rejection: %s event %d (%s) was accepted when its execution was re-run alone (%s)"
                                 % (r["file"], r["line"], r["event"][:300], tp))
        lines = read_lines(tp)
        evline = lines[v["fail_line"]] if v["fail_line"] < len(lines) else r["event"]
        exp = v.get("expected", "?")
        if "(no successor:" in exp and '{"op":"Crash"' not in evline:
            # A call the spec does not ENABLE (as opposed to one whose result it rejects) means the script left the
            # C++ preconditions: that is a bug of the generators, never a finding about xtl.
            raise MachineryError("a generated script contains a call outside the spec's preconditions: %s ; %s" % (evline[:600], tp))
        text = "trace rejected by IterLawsTrace at event %d of %s (kind %s, build %s): %s ; spec expected: %s" % (
            r["line"], r["file"], r["sig"][0], item["flavour"], evline[:700], exp[:1200])
        ctx.violation(text, replay_lines=[{"_meta": {"build": item["flavour"], "group": item["group"], "caps": build["caps"]}}] + calls)
        reported += 1
    if len(order) > reported:
        ctx.notes["rejections_not_reported"] = len(order) - reported
        ctx.log("%d further rejected executions are not reported individually (cap %d)" % (len(order) - reported, MAX_REPORT))
    return reported


# ------------------------------------------------------------- replay
def replay(ctx, path):
    """./verif replay C12 <file>: re-run the recorded calls (or the recorded compile probe) on the current tree."""
    raw = core.read_ndjson(path)
    meta = {}
    for l in raw:
        if "_meta" in l:
            meta.update(l["_meta"])
    lines = calls_of(raw)
    if lines and lines[0].get("op") == "CompileProbe":
        bad = 0
        for l in lines:
            kind, fact = l["kind"], l["fact"]
            if kind not in KINDS:
                raise MachineryError("replay file names no known iterator kind")
            rows, out = build_facts(ctx, only=KINDS[kind]["idx"], name="facts_replay")
            if rows is None:
                print("VIOLATION property=C12 replay=%s" % path)
                print("  iterator kind %s still cannot be instantiated: %s" % (kind, first_errors(out, 3)))
                bad += 1
            elif fact != "*" and not rows[0]["facts"].get(fact, False):
                print("VIOLATION property=C12 replay=%s" % path)
                print("  iterator kind %s still lacks the fact `%s` (harness/iter/facts.cpp)" % (kind, fact))
                bad += 1
        if not bad:
            print("replay accepted: the iterator type now has the recorded type-level fact(s)")
        return 1 if bad else 0
    kind = next((l["a"]["kind"] for l in lines if l["op"] == "Reset"), None)
    if kind not in KINDS:
        raise MachineryError("replay file names no known iterator kind")
    g = KINDS[kind]["group"]
    flavour = meta.get("build", "gcc")
    arrays_ok, _ = probe(ctx, "PROBE_ARRAY_ITERATORS")
    # the same build flavour; the capability mask is probed again on the CURRENT tree (a body that compiles now is used)
    b = build_group(ctx, g, "gcc", arrays_ok)
    if flavour != "gcc" and b["ok"]:
        b = build_group(ctx, g, flavour, arrays_ok, caps=b["caps"])
    if not b["ok"]:
        raise MachineryError("driver group %d (%s) does not build against this tree:\n%s" % (g, flavour, first_errors(b["out"])))
    r, tp = reexecute(ctx, lines, b, "replay")
    if r["accepted"]:
        print("replay accepted: the recorded calls now conform to IterLaws.tla")
        return 0
    print("VIOLATION property=C12 replay=%s" % path)
    print("  rejected at event %d; spec expected: %s" % (r["fail_line"] + 1, r.get("expected")))
    return 1


# ------------------------------------------------------------- L2 (advisory)
def l2_stage(ctx, q):
    for cfgname, what in (("IterLawsImpl_mc.cfg" if q else "IterLawsImpl_mc_thorough.cfg",
                           "L2 (pair / bitset / stepping / single representations) refines L1; representation invariants"),):
        if not os.path.exists(os.path.join(core.SPECS, cfgname)):
            continue
        r = core.tlc_model_check(ctx, "IterLawsImplMC", cfgname, what, coverage=not q, workers=min(4, core.NCPU) if q else None)
        if r["violated"]:
            ctx.drift.append("IterLawsImpl.tla no longer refines IterLaws.tla (%s), see %s" % (r["violated"], r["outfile"]))
            ctx.notes["l2_refinement"] = "failed"
        else:
            ctx.notes["l2_refinement"] = "holds"
        if not q:
            ctx.notes["l2_action_coverage"] = {k: v for k, v in r.get("coverage", {}).items() if k[0].isupper()}


# ------------------------------------------------------------- round 3: advisory stages
def advisory_stage(ctx, builds, failed, q):
    """Behaviour the statement of C12 does not cover, bound the same way (recorded executions validated by TLC against L1)
    but reported through ctx.drift (MODEL-DRIFT, exit status unchanged):
      * mixed iterator / const_iterator expressions of the containers: const_iterator c = it (ToConst), it OP c in both operand
        orders (MixedCmp); an expression that does not compile is reported once per kind;
      * xstepping_iterator with a NEGATIVE stride (walks without the order comparisons; one directed probe per order comparison)."""
    adir = ctx.sub("advisory")
    items, stats = [], {"mixed_caps": {}, "executions": 0, "events": 0, "rejections": 0}
    noconv = []
    for kind in sorted(k for k in KINDS if KINDS[k]["twin"]):
        g = KINDS[kind]["group"]
        if ("gcc", g) in failed:
            continue
        b = builds[("gcc", g)]
        sp, tp = os.path.join(adir, "caps-%s.script" % kind), os.path.join(adir, "caps-%s.ndjson" % kind)
        write_script(sp, [reset_event(kind, 2, 1), ev("MixedCaps", 1)])
        run_script(b["drv"], sp, tp, max_restarts=0)
        tl = read_lines(tp)
        caps = json.loads(tl[1]).get("res", {}) if len(tl) > 1 and tl[1].startswith('{"op":"MixedCaps"') else {}
        stats["mixed_caps"][kind] = caps
        if not caps.get("conv"):
            noconv.append(ctype(kind))
            continue
        missing = [o for o in MIXED_OPS if not caps.get(o) and (KINDS[kind]["ra"] or o in ("eq", "ne"))]
        if missing:
            ctx.drift.append("ADVISORY (outside the C12 statement; [container.requirements.general]: either operand may be a const_iterator) "
                             "%s: iterator OP const_iterator does not compile for %s" % (ctype(kind), missing))
        items.append({"name": "mixed-" + kind, "group": g, "flavour": "gcc", "lines": mixed_scripts(kind, caps, 2 if q else 3), "what": "mixed"})
    if noconv:
        ctx.drift.append("ADVISORY (outside the C12 statement; container requirements, C++14 Table 96: X::iterator converts to X::const_iterator) "
                         "the iterator does not convert to the container's const iterator type, so no mixed iterator/const_iterator "
                         "expression exists: %s" % ", ".join(noconv))
    g = KINDS["step_neg"]["group"]
    if ("gcc", g) not in failed:
        walks, probes = negstride_scripts(ctx.seed, q)
        items.append({"name": "negstride-walks", "group": g, "flavour": "gcc", "lines": walks, "what": "negstride"})
        for i, pr in enumerate(probes):
            items.append({"name": "negstride-probe%d" % i, "group": g, "flavour": "gcc", "lines": pr, "what": "negorder"})

    def one(item):
        sp, tp = os.path.join(adir, item["name"] + ".script"), os.path.join(adir, item["name"] + ".ndjson")
        write_script(sp, item["lines"])
        item["trace"] = tp
        item["run"] = run_script(builds[(item["flavour"], item["group"])]["drv"], sp, tp)
        return item, validate_file(ctx, item)
    with ThreadPoolExecutor(max_workers=core.NCPU) as ex:
        results = list(ex.map(one, items))
    order_dev, reported = [], 0
    for item, (matched, rejs, unval) in results:
        stats["executions"] += sum(1 for l in item["lines"] if l["op"] == "Reset")
        stats["events"] += matched
        stats["rejections"] += len(rejs)
        for r in rejs:
            evj = json.loads(r["event"])
            if item["what"] == "negorder":
                order_dev.append("%s%s" % (evj.get("op"), ":" + evj["a"]["how"] if "how" in evj.get("a", {}) else ""))
                continue
            if reported < 4:
                lines = read_lines(r["item"]["trace"] if r["file"] == os.path.basename(r["item"]["trace"]) else os.path.join(adir, r["file"]))
                exp = core.explain_event(ctx, "IterLawsTrace", "IterLawsTrace.cfg", lines, r["line"] - 1)
                kind = signature(r)[0]
                ctx.drift.append("ADVISORY (outside the C12 statement: %s) kind %s: %s ; spec expected: %s" % (
                    "mixed iterator/const_iterator expression" if item["what"] == "mixed" else "xstepping_iterator with a negative step",
                    kind, r["event"][:400], str(exp)[:400]))
                reported += 1
    if order_dev:
        ctx.drift.append("ADVISORY (outside the C12 statement, which asks for a positive step) xstepping_iterator with a negative step: "
                         "the order comparisons do not follow the traversal order (a < b is not b - a > 0): %s" % sorted(set(order_dev)))
    ctx.cov["events_validated"] += stats["events"]
    ctx.notes["advisory_stage"] = stats
    ctx.log("advisory: %d executions (mixed iterator/const_iterator expressions of %d kinds, negative stride), %d events accepted, %d rejected executions"
            % (stats["executions"], sum(1 for i in items if i["what"] == "mixed"), stats["events"], stats["rejections"]))


# ------------------------------------------------------------- self-test
def selftest(ctx):
    """./verif selftest C12: the machinery's own guarantees, on the clean tree.
    1. restart logic: a script whose 2nd execution crashes (dereference of end(): outside the contract, used only here)
       and whose 4th hangs (SelfTestSpin: the per-call CPU limit) loses no later execution; the Crash events carry
       the call; TLC rejects exactly the two broken executions and accepts the others.
    2. a corrupted field of a recorded trace is rejected at that line.
    3. model-level mutations of IterLawsImpl.tla are found as refinement failures."""
    bad = []
    b = build_group(ctx, 1)
    if not b["ok"]:
        raise MachineryError("driver group 1 does not build:\n%s" % first_errors(b["out"]))
    lines = []
    for i in range(5):
        lines.append(reset_event("optvec_it", 3, 1))
        lines += [ev("PreInc", 1), ev("Deref", 1), ev("AddAssign", 1, k=2)]          # now at end()
        if i == 1:
            lines.append(ev("Deref", 1))                                             # heap overflow -> ASan -> Crash
        if i == 3:
            lines.append(ev("SelfTestSpin", 1))                                      # never returns -> watchdog -> Crash
        lines += [ev("PreDec", 1), ev("Deref", 1)]
    sp, tp = os.path.join(ctx.work, "selftest.script"), os.path.join(ctx.work, "selftest.ndjson")
    write_script(sp, lines)
    st = run_script(b["drv"], sp, tp)
    tr = [json.loads(l) for l in read_lines(tp)]
    resets = sum(1 for l in tr if l["op"] == "Reset")
    crashes = [l for l in tr if l["op"] == "Crash"]
    ok = resets == 5 and len(crashes) == 2 and st["crashes"] == 2 and st["dropped_executions"] == 0 and \
        crashes[0].get("call", {}).get("op") == "Deref" and crashes[1].get("call", {}).get("op") == "SelfTestSpin" and \
        crashes[1].get("why") == "timeout"
    print("selftest C12: restart after crash/hang: %d executions in the trace, Crash events %s -> %s"
          % (resets, [(c.get("why"), c.get("call", {}).get("op")) for c in crashes], "ok" if ok else "FAILED"))
    if not ok:
        bad.append("restart")
    item = {"trace": tp, "group": 1, "flavour": "gcc"}
    global MAX_FILE_REJECTIONS
    keep, MAX_FILE_REJECTIONS = MAX_FILE_REJECTIONS, 5
    try:
        matched, rejs, unval = validate_file(ctx, item)
    finally:
        MAX_FILE_REJECTIONS = keep
    accepted_events = len(tr) - 2 - 2 * 0
    ok = len(rejs) == 2 and all(json.loads(r["event"])["op"] == "Crash" for r in rejs) and unval == 0 and matched == len(tr) - 2
    print("selftest C12: TLC rejects exactly the 2 Crash events, validates the %d other events (%d matched) -> %s" % (accepted_events, matched, "ok" if ok else "FAILED"))
    if not ok:
        bad.append("validation-after-crash")
    # capped restarts: every execution crashes
    lines = []
    for i in range(6):
        lines += [reset_event("optvec_it", 2, 1), ev("AddAssign", 1, k=2), ev("Deref", 1), ev("Eq", 1)]
    write_script(sp, lines)
    st = run_script(b["drv"], sp, tp, max_restarts=2)
    ok = st["crashes"] == 3 and st["dropped_executions"] == 3
    print("selftest C12: restart cap (2): %s -> %s" % (st, "ok" if ok else "FAILED"))
    if not ok:
        bad.append("restart-cap")
    # 2. corrupt one field
    lines = [reset_event("optvec_it", 4, 1), ev("PreInc", 1), ev("Plus", 1, k=2), ev("PostInc", 2), ev("Diff", 1), ev("TraverseReverse", 1, how="stdrev")]
    write_script(sp, lines)
    run_script(b["drv"], sp, tp)
    tl = read_lines(tp)
    r0 = core.validate_trace(ctx, "IterLawsTrace", "IterLawsTrace.cfg", tp, explain=False)
    d = json.loads(tl[4])
    d["res"]["val"] = d["res"]["val"] + 1
    tl[4] = json.dumps(d, separators=(",", ":"))
    with open(tp, "w") as f:
        f.write("\n".join(tl) + "\n")
    r1 = core.validate_trace(ctx, "IterLawsTrace", "IterLawsTrace.cfg", tp, explain=False)
    ok = r0["accepted"] and not r1["accepted"] and r1["fail_line"] == 4
    print("selftest C12: corrupted result of event 5 (Diff) rejected at event %s -> %s" % (r1.get("fail_line", -1) + 1, "ok" if ok else "FAILED"))
    if not ok:
        bad.append("corrupt")
    # 3. L2 mutants
    #    (IterLawsImpl_mut_*.cfg must fail; IterLawsImpl_eqv_*.cfg are mutants that are EQUIVALENT under the lockstep
    #    invariant - `<` of a pair iterator with || instead of && - and must keep passing)
    for cfgname in sorted(f for f in os.listdir(core.SPECS) if f.startswith(("IterLawsImpl_mut", "IterLawsImpl_eqv")) and f.endswith(".cfg")):
        r = core.tlc(ctx, "IterLawsImplMC", cfgname, workers=min(4, core.NCPU), timeout=600)
        want = cfgname.startswith("IterLawsImpl_mut")
        ok = bool(r["violated"]) == want
        print("selftest C12: %s: %s -> %s" % (cfgname, r["violated"] or "no error found",
                                              ("ok (failure found)" if want else "ok (equivalent mutant)") if ok else "UNEXPECTED"))
        if not ok:
            bad.append(cfgname)
    print("selftest C12: %s" % ("all ok" if not bad else "FAILED: " + ", ".join(bad)))
    return 1 if bad else 0


# ------------------------------------------------------------- the check
def run(ctx):
    q = ctx.quick
    findings = core.load_findings("C12")
    rnd = random.Random(ctx.seed)
    clang_groups = [] if q else [g for g in GROUPS if g not in ARRAY_GROUPS]

    # ---- builds and type facts (background) while TLC works
    pool = ThreadPoolExecutor(max_workers=2)
    fut_types = pool.submit(types_stage, ctx)
    fut_build = pool.submit(build_all, ctx, GROUPS, clang_groups)

    # ---- 1. L1 model checking: the law set as theorems of the spec
    r = core.tlc_model_check(ctx, "IterLawsMC", "IterLaws_mc.cfg" if q else "IterLaws_mc_thorough.cfg",
                             "L1 laws (all positions/offsets), postfix-returns-old, observer purity, size_t overloads agree, algorithms = laws composed",
                             workers=min(4, core.NCPU) if q else None, timeout=1800)
    if r["violated"]:
        raise MachineryError("L1 spec IterLaws.tla violates its own theorem %s (oracle bug), see %s" % (r["violated"], r["outfile"]))
    if not q:
        # all 40 capability classes with unconstrained write histories (the configuration above only expands states with
        # the pristine storage); per-action coverage is taken here (SpecP's next-state relation is one conjunction for TLC)
        r2 = core.tlc_model_check(ctx, "IterLawsMC", "IterLaws_mc_classes.cfg", "L1 laws, all 40 capability classes, unconstrained write histories (n<=3)",
                                  coverage=True, timeout=1800)
        if r2["violated"]:
            raise MachineryError("L1 spec IterLaws.tla violates its own theorem %s (oracle bug), see %s" % (r2["violated"], r2["outfile"]))
        cov = {k: v for k, v in r2.get("coverage", {}).items() if k[0].isupper()}
        ctx.notes["l1_action_coverage"] = cov
        alias = {"StdFind": "StdFindJ", "StdCount": "StdCountJ", "StdLowerBound": "StdLowerBoundJ"}      # model-checking wrappers in Next
        ctx.notes["vacuous_actions"] = sorted(a for a in ALL_ACTIONS if cov.get(alias.get(a, a), [0, 0])[1] == 0)
    l2_stage(ctx, q)

    # ---- 2. S->C enumeration (the two maximal capability classes)
    r3 = core.tlc(ctx, "IterLawsMC", "IterLaws_s2c.cfg" if q else "IterLaws_s2c_thorough.cfg", name="s2c-enumerate",
                  heap="6g", timeout=1800, workers=min(4, core.NCPU) if q else None)
    if r3["violated"]:
        raise MachineryError("s2c enumeration failed: %s" % r3["outfile"])
    edges = emitted(r3["out"])
    r3["out"] = ""
    if not edges:
        raise MachineryError("s2c enumeration emitted no transitions: %s" % r3["outfile"])
    enumerated_ops = set(e["l"]["op"] for e in edges)
    missing_ops = [a for a in ALL_ACTIONS if a != "Seat" and a not in enumerated_ops]
    if missing_ops:
        raise MachineryError("s2c enumeration never takes %s" % missing_ops)

    # ---- stage 0 results: type facts
    types = fut_types.result()
    ctx.cov["evaluations"] += types["rows_checked"] + types["tag_rows"]
    ctx.log("type facts: %d (kind, fact) rows of IterLawsTypes.tla observed on the real iterator types, %d missing; "
            "%d common_iterator_tag rows, %d advisory" % (types["rows_checked"], len(types["findings"]), types["tag_rows"], len(types["tag_advisories"])))
    for kind, fact, text in types["findings"][:MAX_TYPE_REPORT]:
        ctx.violation(text, replay_lines=[{"op": "CompileProbe", "kind": kind, "fact": fact}])
    if len(types["findings"]) > MAX_TYPE_REPORT:
        ctx.notes["type_findings_not_reported"] = ["%s:%s" % (k, f) for k, f, _ in types["findings"][MAX_TYPE_REPORT:]]
    for t in types["tag_advisories"][:5]:
        ctx.drift.append("(advisory, outside the C12 statement) " + t)
    if types["conv"] is not None:
        ctx.notes["iterator_to_const_iterator_convertible"] = types["conv"]

    arrays_ok, arrays_diag, builds = fut_build.result()
    pool.shutdown()
    caps = {"arrays": arrays_ok, "value_traits": KINDS["value_map"]["std"],
            "default_constructible": sorted(k for k in KINDS if KINDS[k]["dc"]),
            "bodies_not_compiling": sorted("%s:%s" % x for b in builds.values() if b["flavour"] == "gcc" for x in b["off"]
                                           if needs(x[1], {}) <= flags_of(KINDS[x[0]]))}
    ctx.notes["tree_capabilities"] = caps
    failed = {key: b for key, b in builds.items() if not b["ok"]}
    for (flavour, g), b in sorted(failed.items()):
        ctx.log("driver group %d (%s) does NOT build against this tree; its kinds are not exercised:\n%s" % (g, flavour, first_errors(b["out"], 4)))
    ctx.notes["driver_groups_not_built"] = sorted("%s:%d" % k for k in failed)

    # Operators / kinds that do not even compile on this tree (body errors, invisible to SFINAE) would be
    # hit by every script: the generators avoid them.  Where the property demands the operation ONE directed
    # script per defect keeps it visible (the driver logs `unsupported`, which the spec rejects); mutating std
    # algorithms over proxy references are not demanded and are only switched off.
    skip = set()
    directed = []
    for b in builds.values():
        if b["flavour"] != "gcc":
            continue
        for kind, op in b["off"]:
            skip.add((kind, op))
            if op == "Arrow":
                directed.append((kind, [reset_event(kind, 2, KINDS[kind]["steps"][-1]), ev("Arrow", 1)]))
                ctx.log("tree: operator-> of %s does not compile" % kind)
    if not arrays_ok:
        for kind in KINDS:
            if KINDS[kind]["group"] in ARRAY_GROUPS:
                skip.add((kind, "*"))
        directed.append(("optarr_it", [reset_event("optarr_it", 2, 1)]))
        directed.append(("cplxarr_it", [reset_event("cplxarr_it", 2, 1)]))
        ctx.log("tree: begin()/end() of xoptional_array / xcomplex_array do not compile (proposed_fixes/C12-01)")
    for kind in KINDS:
        if ("gcc", KINDS[kind]["group"]) in failed or kind in types["broken"]:
            skip.add((kind, "*"))
    for fnd in findings:
        for s in fnd.get("avoid", []):
            skip.add((s["kind"], s["op"]))

    # scripts are merged per driver group (a Reset names its kind) and cut into pieces: few, large
    # trace files keep the number of TLC start-ups small
    per_group = {g: [] for g in GROUPS}
    gen_stats = {}
    s2c, taken = s2c_scripts(edges, rnd, skip, quick=q, stats=gen_stats)
    ctx.log("S->C: %d L1 transitions enumerated by TLC; %d (kind, transition) replays on %d iterator kinds" % (len(edges), taken, len(s2c)))
    ctx.notes["s2c_transitions_enumerated"] = len(edges)
    ctx.notes["s2c_transitions_replayed"] = taken
    ctx.notes.update(gen_stats)
    ctx.notes["iterator_kinds"] = sorted(k for k in KINDS if (k, "*") not in skip and not KINDS[k]["adv"])
    for kind in sorted(s2c):
        per_group[KINDS[kind]["group"]].extend(s2c[kind])

    # ---- 3. C->S random walks
    nwalk = 0
    rs = random_scripts(ctx.seed, q, skip)
    for kind in sorted(rs):
        nwalk += sum(1 for l in rs[kind] if l["op"] == "Reset")
        per_group[KINDS[kind]["group"]].extend(rs[kind])

    scripts = []      # dict(name, group, flavour, lines)
    total = sum(len(v) for v in per_group.values())
    piece = max(6000, min(150000, total // core.NCPU))
    for g in GROUPS:
        if ("gcc", g) in failed:
            continue
        for i, ch in enumerate(chunk_by_reset(per_group[g], piece)):
            scripts.append({"name": "g%02d-%02d" % (g, i), "group": g, "flavour": "gcc", "lines": ch})
    # thorough: the random walks (other seeds) on the clang++ -O2 build as well
    if clang_groups:
        rs2 = random_scripts(ctx.seed, q, skip, kinds=[k for k in KINDS if KINDS[k]["group"] in clang_groups and not KINDS[k]["adv"]], salt="/clang", nexec=30)
        for g in clang_groups:
            if ("clang", g) in failed or ("gcc", g) in failed:
                continue
            lines = [l for kind in sorted(rs2) if KINDS[kind]["group"] == g for l in rs2[kind]]
            nwalk += sum(1 for l in lines if l["op"] == "Reset")
            for i, ch in enumerate(chunk_by_reset(lines, piece)):
                scripts.append({"name": "cl%02d-%02d" % (g, i), "group": g, "flavour": "clang", "lines": ch})
    ctx.notes["c2s_random_walks"] = nwalk
    for kind, lines in directed:
        if ("gcc", KINDS[kind]["group"]) not in failed:
            scripts.append({"name": "directed-" + kind, "group": KINDS[kind]["group"], "flavour": "gcc", "lines": lines})
    # ---- probes for open known findings
    for fnd in findings:
        if "probe" in fnd:
            scripts.append({"name": "probe-" + fnd["id"], "group": KINDS[fnd["probe"]["kind"]]["group"], "flavour": "gcc", "lines": fnd["probe"]["script"]})

    # configurations actually exercised (measured from the scripts)
    empty, consts, ops_per = {}, {}, {}
    for s in scripts:
        kind = None
        for l in s["lines"]:
            if l["op"] == "Reset":
                kind = l["a"]["kind"]
                if l["a"]["n"] == 0:
                    empty[kind] = empty.get(kind, 0) + 1
                if l["a"].get("src"):
                    consts[kind] = consts.get(kind, 0) + 1
            else:
                ops_per[l["op"]] = ops_per.get(l["op"], 0) + 1
    ctx.notes["executions_on_empty_container"] = empty
    ctx.notes["executions_from_const_container"] = consts
    ctx.notes["calls_per_operation"] = ops_per
    ctx.notes["operations_never_executed_on_the_code"] = sorted(a for a in ALL_ACTIONS if not ops_per.get(a))
    noempty = [k for k in ctx.notes["iterator_kinds"] if not empty.get(k)]
    noconst = [k for k in ctx.notes["iterator_kinds"] if len(KINDS[k]["srcs"]) > 1 and not consts.get(k)]
    if noempty or noconst:
        raise MachineryError("generator defect: no execution on an empty container for %s / from a const container for %s" % (noempty, noconst))

    # ---- run the harness
    tdir = ctx.sub("traces")

    def one(item):
        sp, tp = os.path.join(tdir, item["name"] + ".script"), os.path.join(tdir, item["name"] + ".ndjson")
        write_script(sp, item["lines"])
        b = builds[(item["flavour"], item["group"])]
        item["trace"] = tp
        item["run"] = run_script(b["drv"], sp, tp, asan=FLAVOURS[item["flavour"]]["asan"])
        return item
    with ThreadPoolExecutor(max_workers=max(2, core.NCPU // 2)) as ex:
        scripts = list(ex.map(one, scripts))
    crashes = sum(s["run"]["crashes"] for s in scripts)
    dropped = sum(s["run"]["dropped_executions"] for s in scripts)
    if crashes:
        ctx.notes["driver_crashes"] = crashes
        ctx.notes["executions_dropped_after_repeated_crashes"] = dropped
        ctx.log("the driver crashed / hit the per-call CPU limit %d times; %d executions dropped after %d restarts of a script" % (crashes, dropped, MAX_RESTARTS))
    for s in scripts:
        ctx.cov["traces_validated_against_impl"] += sum(1 for l in s["lines"] if l["op"] == "Reset")
    for s in scripts[:1] + scripts[-1:]:
        ctx.sample({"script": [json.dumps(x) for x in s["lines"][:10]]})

    # ---- validate every trace against L1 (own loop: bounded work however many rejections there are)
    with ThreadPoolExecutor(max_workers=core.NCPU) as ex:
        results = list(ex.map(lambda s: validate_file(ctx, s), scripts))
    rejs, unval = [], 0
    for matched, rj, uv in results:
        ctx.cov["events_validated"] += matched
        rejs += rj
        unval += uv
    if unval:
        ctx.notes["executions_not_validated_after_second_rejection"] = unval
    ctx.cov["evaluations"] += ctx.cov["events_validated"]
    if rejs:
        ctx.log("%d rejected executions in %d trace files; confirming and explaining up to %d" % (len(rejs), len(set(r["item"]["name"] for r in rejs)), MAX_REPORT))
        report_rejections(ctx, rejs, findings, builds)
    ctx.log("validated %d events in %d traces (%d executions)" % (ctx.cov["events_validated"], len(scripts), ctx.cov["traces_validated_against_impl"]))

    try:
        advisory_stage(ctx, builds, failed, q)
    except MachineryError as e:
        # the advisory stages never decide the exit status: the verdicts found above must still be reported
        ctx.drift.append("ADVISORY stage could not be completed on this tree (machinery): %s" % str(e)[:300])
        ctx.notes["advisory_stage"] = {"failed": str(e)[:500]}

    if failed and not ctx.violations:
        (flavour, g), b = sorted(failed.items())[0]
        raise MachineryError("driver group %d (%s) does not build against this tree and nothing else was rejected:\n%s"
                             % (g, flavour, b["out"][-6000:]))

    return core.finish(
        ctx, "model_checking",
        rule="TLC: IterLaws.tla laws exhaustive for n<=%d, strides %s, all position pairs/offsets, %d capability classes; every L1 "
             "transition for n<=%d (strides 1..3 for xstepping_iterator) replayed on each real iterator kind that has the operation (%d kinds%s); "
             "seeded random walks per kind (sizes to 70 for bitset iterators, strides to 5). A case is one iterator expression (or std algorithm "
             "over [a,b)) with its result and the projection (storage + both iterators via ==/++ count, it-begin(), end()-it, *it) compared by TLC; "
             "plus %d type-level facts (IterLawsTypes.tla) observed on the iterator types."
             % (3 if q else 6, "{1,2}" if q else "{1,2,3}", 6 if q else 40, 4 if q else 6, len(s2c),
                "; const/reverse/view twins only n<=3 in this tier" if q else "", types["rows_checked"]),
        assumptions=["the harness projection reads the storage through the containers' own accessors (not through xtl iterators)",
                     "toy iterators in the harness define only the primitive operations; everything else comes from the xtl bases",
                     "iterators of different containers are outside the property; value-initialised iterators only compared with each other",
                     "axes of the quantifier: iterator kinds (40, both tiers); container sizes incl. EMPTY (S->C n<=4 quick / n<=6 thorough, walks to 20 / 70 "
                     "elements; executions_on_empty_container > 0 for every kind in both tiers); all positions a,b in [begin,end] (S->C, exhaustive); all "
                     "offsets keeping the result in range (S->C, exhaustive, both signs); strides 1..3 exhaustively, 4 and 5 in the walks (both tiers); "
                     "iterators obtained from mutable AND from const containers (both tiers); compilers/optimisation: g++ -O0 with ASan (both tiers), "
                     "clang++ -O2 without ASan for the walks of the non-array kinds (thorough only)",
                     "xstepping_iterator with a stride that does not divide the distance to the end, and comparisons of stepping iterators with "
                     "different strides, are outside the property ('positive step' over a range of whole strides)",
                     "std::fill / std::reverse / std::sort are exercised only for the kinds whose proxy references let the algorithm's body compile "
                     "(tree_capabilities.bodies_not_compiling lists the others)"],
        exhaustive=False)

"""C08 - half conversions, arithmetic and comparisons are exactly IEEE 754 binary16.

 1. TLC checks the oracle itself: specs/HalfLaws.tla (INVARIANT Laws08) over all 65 536 halves.
 2. A table of static_asserts (vlib/halfgrid.py, probe_signatures) states the signatures of the operations the check calls;
    a row that fails is a violation of its own, before the driver is built.
 3. harness/half/driver.cpp is built from the current xtl headers in several configurations (g++ -mno-f16c, g++ -mf16c,
    clang++ -O2 -DNDEBUG -march=native; thorough: also g++ -O0 and g++ -O2 -std=c++17) and evaluates the real operators on the
    operand grids; the recordings are compared byte for byte.
 4. TLC enumerates, from the case analysis of Half.tla itself (specs/HalfCases.tla, VIEW = case key), one witness operand pair
    per case of + * / and the comparisons; the witnesses are executed too.
 5. TLC (specs/HalfCheck.tla) visits every recorded evaluation as a state and checks it against specs/Half.tla (NaN results
    compared as "is a NaN").  The counterexample is the failing operand tuple; it is re-executed alone - same build, same
    rounding direction - and re-validated before it is reported.
"""
import os, threading
from vlib import core, halfgrid as hg
from vlib.core import MachineryError

UN08 = ["neg", "pos", "fabs", "abs", "sqrt", "isnan", "isinf", "isfinite", "isnormal", "signbit", "fpclassify",
        "h2i", "hash", "roundtrip", "incdec", "stream"]
# widening a signalling NaN keeps the signalling bit in the software path and quiets it in the F16C path (NaN payloads are not
# specified): these tables differ between the builds at NaN operands and are validated once per differing build - kept apart
UN08_WIDEN = ["h2f", "h2d", "h2ld"]
# what is evaluated once more under a directed rounding direction of the calling thread (everything that is specified
# independently of it; "stream" goes through printf/strtod, which follow the direction by design, and is left out)
UN08_RM = ["sqrt", "h2i", "roundtrip", "incdec", "hash", "fpclassify"]
VARIANTS = ["add_eq", "sub_eq", "mul_eq", "div_eq", "add_f", "sub_f", "mul_f", "div_f"]
ARITH = ("add", "sub", "mul", "div")
N_LIMITS, N_LITERALS = 40, 47


def make_jobs(ctx, counts):
    q = ctx.quick
    S = hg.grid(ctx.seed, 544 if q else 2048)
    jobs = []
    # operand pairs chosen by the oracle's case analysis (TLC enumerates them when the job starts)
    counts["cases"] = {}
    for op in ("add", "mul", "div", "cmp"):
        jobs.append(hg.case_job(ctx, op, counts["cases"], "C08"))
    # unary operations and conversions from half: all 2^16 inputs
    half = len(UN08) // 2
    jobs.append(hg.Job("un-a", [hg.hdr(S=[0])] + hg.unary_rows(UN08[:half])))
    jobs.append(hg.Job("un-b", [hg.hdr(S=[0])] + hg.unary_rows(UN08[half:])))
    jobs.append(hg.Job("un-widen", [hg.hdr(S=[0])] + hg.unary_rows(UN08_WIDEN)))
    # numeric_limits<half>, HUGE_VALH, HLF_ROUNDS, nanh, the _h literals
    jobs.append(hg.Job("consts", [hg.hdr(S=[0]), {"k": "lim", "f": "limits", "t": list(range(N_LIMITS))},
                                  {"k": "lit", "f": "lit", "t": list(range(N_LITERALS))}]))
    # the special operands among themselves, every binary operation, a table of its own
    jobs.append(hg.specials_job("specials", list(ARITH) + ["cmp"] + VARIANTS))
    # + - * / on S x S
    rows_per_job = len(S) if q else 512
    for op in ARITH:
        for i, A in enumerate(hg.chunks(S, rows_per_job)):
            jobs.append(hg.Job("%s-%d" % (op, i), [hg.hdr(S=S)] + hg.bin_rows(op, A)))
    # comparisons, copysign, hash of equal values; compound assignment and mixed half/float operators on a row subset
    for i, A in enumerate(hg.chunks(S, rows_per_job)):
        jobs.append(hg.Job("cmp-%d" % i, [hg.hdr(S=S)] + hg.bin_rows("cmp", A)))
    sub = S[::8] if q else S[::12]
    for i, vs in enumerate(hg.chunks(VARIANTS, 4 if q else 2)):
        rows = [hg.hdr(S=S)]
        for v in vs:
            rows += hg.bin_rows(v, sub)
        jobs.append(hg.Job("variants-%d" % i, rows))
    # float -> half
    fl = hg.float_inputs(ctx.seed, q)
    per = 1024
    frow = [{"k": "f2h", "f": "f2h", "hi": [v >> 16 for v in c], "lo": [v & 0xFFFF for v in c]} for c in hg.chunks(fl, per)]
    for i, rs in enumerate(hg.chunks(frow, max(1, (len(frow) + 3) // 4))):
        jobs.append(hg.Job("f2h-%d" % i, [hg.hdr(S=[0])] + rs))
    # the same floats through operator>> (their exact decimal expansion as text); finite ones: the C++ library does not read "inf"/"nan"
    fin = [v for v in fl if (v >> 23) & 0xFF != 0xFF][::(3 if q else 1)]
    srow = [{"k": "sf2h", "f": "sf2h", "hi": [v >> 16 for v in c], "lo": [v & 0xFFFF for v in c]} for c in hg.chunks(fin, per)]
    jobs.append(hg.Job("sf2h", [hg.hdr(S=[0])] + srow))
    # double -> half, integer -> half
    db = hg.double_inputs(ctx.seed, q)
    drow = []
    for c in hg.chunks(db, per):
        L = [hg.f64_limbs(v) for v in c]
        drow.append({"k": "d2h", "f": "d2h", "w3": [x[0] for x in L], "w2": [x[1] for x in L], "w1": [x[2] for x in L], "w0": [x[3] for x in L]})
    iv = hg.int_inputs(ctx.seed, q)
    irow = [{"k": "i2h", "f": "i2h", "x": c} for c in hg.chunks(iv, per)]
    jobs.append(hg.Job("d2h", [hg.hdr(S=[0])] + drow))
    jobs.append(hg.Job("i2h", [hg.hdr(S=[0])] + irow))
    jobs.append(hg.Job("imin", [hg.hdr(S=[0]), {"k": "imin", "f": "imin", "t": [0, 1, 2, 3, 4]}]))
    # fma on seeded triples
    nt = 150000 if q else 1000000
    X, Y, Z = hg.fma_triples(ctx.seed, nt, S)
    trow = [{"k": "fma", "f": "fma", "x": X[i:i + per], "y": Y[i:i + per], "z": Z[i:i + per]} for i in range(0, nt, per)]
    for i, rs in enumerate(hg.chunks(trow, max(1, (len(trow) + (1 if q else 7)) // (2 if q else 8)))):
        jobs.append(hg.Job("fma-%d" % i, [hg.hdr(S=[0])] + rs))
    # ---- the calling thread's rounding direction is upward / downward / toward zero: conversions, half arithmetic, sqrt, fma and
    # comparisons are specified as before (round to nearest even; the F16C path must not inherit MXCSR, nothing may go through
    # hardware float arithmetic).  Mixed half/float forms are left out.
    sd = ctx.seed
    jobs.append(hg.Job("f2h-rm", [hg.hdr(S=[0])] + hg.with_rm(frow[(sd % 2)::(6 if q else 2)], sd)))
    rsub = S[(sd % 4)::(16 if q else 8)] + hg.REQUIRED
    rows = [hg.hdr(S=S)]
    for n, op in enumerate(ARITH + ("cmp",)):
        rows += hg.with_rm(hg.bin_rows(op, rsub), sd + n)
    jobs.append(hg.Job("bin-rm", rows))
    jobs.append(hg.Job("un-rm", [hg.hdr(S=[0])] + hg.with_rm(hg.unary_rows(UN08_RM)[(sd % 2)::(2 if q else 1)], sd)))
    jobs.append(hg.Job("un-widen-rm", [hg.hdr(S=[0])] + hg.with_rm(hg.unary_rows(UN08_WIDEN)[(sd % 2)::(2 if q else 1)], sd)))
    jobs.append(hg.Job("conv-rm", [hg.hdr(S=[0])] + hg.with_rm(drow[::(3 if q else 1)] + irow[::(3 if q else 1)], sd + 1)))
    jobs.append(hg.Job("fma-rm", [hg.hdr(S=[0])] + hg.with_rm(trow[(sd % 3)::(8 if q else 4)], sd + 2)))
    # thorough: how many of the cases does the structured grid S x S reach on its own (a TLC count)
    if not q:
        counts["grid_cases"] = {}
        for op in ("add", "mul", "div", "cmp"):
            jobs.append(hg.grid_case_count_job(ctx, op, S, counts["grid_cases"]))
    counts.update({"grid": len(S), "floats": len(fl), "floats_via_operator>>": len(fin), "doubles": len(db), "ints": len(iv), "fma_triples": nt})
    return jobs, S


def replay(ctx, path):
    return hg.replay(ctx, path, "C08")


def selftest(ctx):
    return hg.selftest(ctx, "C08")


ASSUMPTIONS = [
    "HALF_ROUND_STYLE = 1 (round to nearest, the default and what the property states); half_cast with an explicit rounding mode, "
    "HALF_ERRHANDLING_* (exception flags / errno / exceptions) and HALF_ARITHMETIC_TYPE are not exercised",
    "NaN results are compared as 'is a NaN' (payload and sign of a produced NaN are not specified by IEEE 754)",
    "not all 2^32 operand pairs / float patterns: binary operators are explored on the structured grid, on REQUIRED x REQUIRED and on "
    "one witness pair per case of the oracle's case analysis reached by a bounded search",
    "the F16C builds are executed on this CPU's F16C unit",
    "under a directed rounding direction of the calling thread only operations specified independently of it are evaluated "
    "(mixed half/float operators and stream I/O are evaluated in the default direction only)",
    "operator<< is read back with strtof at precision 9; operator>> is given the exact decimal expansion of finite floats "
    "(any correctly rounding text-to-binary conversion yields that float)"]


def run(ctx):
    q = ctx.quick
    # ---- 1. the oracle's own laws, concurrently with everything else
    law = {}

    def laws():
        try:
            law["r"] = hg.run_laws(ctx, "HalfLaws08_quick.cfg" if q else "HalfLaws08_thorough.cfg", "laws08", workers=min(core.NCPU, 4 if q else 6))
        except Exception as e:      # re-raised in the main thread
            law["err"] = e
    th = threading.Thread(target=laws)
    if os.environ.get("VERIF_HALF_SKIP_LAWS"):      # development aid (mutation experiments on a loaded machine)
        ctx.notes["laws_skipped"] = "PARTIAL RUN: VERIF_HALF_SKIP_LAWS set, the oracle's law set was not re-checked in this run"
        th = threading.Thread(target=lambda: None)
    th.start()

    # ---- 2. signature probe and harness builds
    try:
        drivers = hg.build_drivers(ctx, "C08")
    except Exception:
        th.join()
        raise
    if drivers is None:
        th.join()
        return core.finish(ctx, "exploration", rule="signature probe only: the driver does not build against this tree", assumptions=ASSUMPTIONS)
    counts = {}
    jobs, S = make_jobs(ctx, counts)
    ctx.log("grid |S|=%d, %d floats, %d doubles, %d ints, %d fma triples; %d table jobs; builds: %s" % (
        counts["grid"], counts["floats"], counts["doubles"], counts["ints"], counts["fma_triples"], len(jobs), ", ".join(t for t, _, _ in drivers.items)))

    # ---- 3. record and validate
    summaries = hg.validate_jobs(ctx, jobs, drivers, parallel=6 if q else 7, workers=2, what="C08")
    th.join()
    if "err" in law:
        raise law["err"]
    nident = sum(1 for s in summaries if s["identical"])
    ctx.notes["tables"] = [{k: s[k] for k in ("job", "evaluations", "identical", "validated_tables")} for s in summaries]
    ctx.notes["builds"] = "%d of %d recordings are byte-identical between all driver builds; differing ones are validated separately" % (nident, len(summaries))
    ctx.notes["inputs"] = counts
    diffs = {s["job"]: s["build_diff"] for s in summaries if s.get("build_diff")}
    if diffs:
        ctx.notes["build_differences_at_nan_operands"] = diffs
        ctx.log("recordings differ between the builds only at NaN operands (NaN payload/quiet bit): %s" % diffs)
    ncases = sum(c["cases"] for c in counts.get("cases", {}).values())
    ctx.cov["distinct_nontrivial"] = ncases
    ctx.notes["distinct_nontrivial_is"] = ("the number of distinct cases of the oracle's case analysis (specs/HalfCases.tla: operand classes x alignment x "
                                           "carry/cancellation x dropped bits x below/tie/above half x sticky x result class) that TLC reached in the bounded "
                                           "search and for which a witness pair was executed and validated: %s" % {k: v["cases"] for k, v in counts.get("cases", {}).items()})
    ctx.sample({"job": jobs[4].name, "request": [str(r)[:160] for r in jobs[4].rows[:3]]})
    ctx.sample({"grid_head": S[:24]})
    ctx.log("validated %d evaluations in %d tables (%d byte-identical across the %d builds); %d cases of the oracle's case analysis witnessed %s" % (
        ctx.cov["evaluations"], len(summaries), nident, len(drivers.items), ncases, {k: v["cases"] for k, v in counts.get("cases", {}).items()}))
    if counts.get("grid_cases"):
        ctx.log("cases reached by the structured grid S x S alone: %s" % {k: v["cases"] for k, v in counts["grid_cases"].items()})
    return core.finish(
        ctx, "exploration",
        rule="TLA+ oracle Half.tla evaluated by TLC on every recorded evaluation (one state each). Exhaustive over all 65 536 halves for "
             "every unary operation, classification, half->float/double/long double/int conversion, sqrt, ++/--, hash, operator<< / >> round trip; "
             "float->half on every exactly representable value, the rounding midpoints and their float neighbours, float subnormals, the overflow "
             "threshold, NaNs and seeded random floats (%d floats; %d of them also as text through operator>>); double->half (%d) and int->half (%d) "
             "likewise; + - * / (also compound and mixed half/float forms), the six comparison operators, isgreater..isunordered, copysign and "
             "hash-equality on the grid S x S with |S|=%d (28 required special operands, every exponent x 8 boundary fractions x both signs, seeded "
             "random halves), on the special operands among themselves, and on one witness pair per case of the oracle's own case analysis "
             "(HalfCases.tla, enumerated by TLC: %d cases); fma on %d seeded triples incl. cancellation and sticky cases; numeric_limits<half>, "
             "HUGE_VALH, HLF_ROUNDS, nanh and %d _h literals against the parameters Half.tla derives from the encoding. Conversions, arithmetic, "
             "sqrt, fma, comparisons are evaluated a second time under upward / downward / toward-zero rounding of the calling thread. "
             "Driver builds recorded and compared: %s. distinct_nontrivial is the number of distinct cases of the case analysis (HalfCases.tla key: "
             "operand classes, alignment distance, carry / cancellation, number of dropped bits, dropped part below / tie-even / tie-odd / above half "
             "with or without sticky, round-up into the next binade, result class) for which TLC found a witness pair in its bounded search; each "
             "witness was executed." % (
                 counts["floats"], counts["floats_via_operator>>"], counts["doubles"], counts["ints"], counts["grid"], ncases, counts["fma_triples"],
                 N_LITERALS, "; ".join(d for _, _, d in drivers.items)),
        assumptions=ASSUMPTIONS,
        exhaustive=False)

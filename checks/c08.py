"""C08 - half conversions, arithmetic and comparisons are exactly IEEE 754 binary16.

 1. TLC checks the oracle itself: specs/HalfLaws.tla (INVARIANT Laws08) over all 65 536 halves.
 2. harness/half/driver.cpp is built twice (-mno-f16c, -mf16c) from the current xtl headers and evaluates the
    real operators on the operand grids; both recordings are compared byte for byte.
 3. TLC (specs/HalfCheck.tla) visits every recorded evaluation as a state and checks it against
    specs/Half.tla (NaN results compared as "is a NaN").  The counterexample is the failing operand tuple;
    it is re-executed alone and re-validated before it is reported.
"""
import os, threading
from vlib import core, halfgrid as hg
from vlib.core import MachineryError

UN08 = ["neg", "pos", "fabs", "abs", "sqrt", "isnan", "isinf", "isfinite", "isnormal", "signbit", "fpclassify",
        "h2f", "h2d", "h2ld", "h2i", "hash", "roundtrip", "incdec"]
VARIANTS = ["add_eq", "sub_eq", "mul_eq", "div_eq", "add_f", "sub_f", "mul_f", "div_f"]


def make_jobs(ctx):
    q = ctx.quick
    S = hg.grid(ctx.seed, 544 if q else 2048)
    jobs = []
    # unary operations and conversions from half: all 2^16 inputs
    half = len(UN08) // 2
    jobs.append(hg.Job("un-a", [hg.hdr(S=[0])] + hg.unary_rows(UN08[:half])))
    jobs.append(hg.Job("un-b", [hg.hdr(S=[0])] + hg.unary_rows(UN08[half:])))
    # + - * / on S x S
    rows_per_job = len(S) if q else 512
    for op in ("add", "sub", "mul", "div"):
        for i, A in enumerate(hg.chunks(S, rows_per_job)):
            jobs.append(hg.Job("%s-%d" % (op, i), [hg.hdr(S=S)] + hg.bin_rows(op, A)))
    # comparisons, copysign, hash of equal values; compound assignment and mixed half/float operators on a row subset
    for i, A in enumerate(hg.chunks(S, rows_per_job)):
        jobs.append(hg.Job("cmp-%d" % i, [hg.hdr(S=S)] + hg.bin_rows("cmp", A)))
    sub = S[::8] if q else S[::12]
    for i, vs in enumerate(hg.chunks(VARIANTS, 4 if q else 2)):
        rows = [hg.hdr(S=S)]
        for v in vs:
            rows += hg.bin_rows(v, sub)
        jobs.append(hg.Job("variants-%d" % i, rows))
    # float -> half
    fl = hg.float_inputs(ctx.seed, q)
    per = 1024
    frow = [{"k": "f2h", "f": "f2h", "hi": [v >> 16 for v in c], "lo": [v & 0xFFFF for v in c]} for c in hg.chunks(fl, per)]
    for i, rs in enumerate(hg.chunks(frow, max(1, (len(frow) + 3) // 4))):
        jobs.append(hg.Job("f2h-%d" % i, [hg.hdr(S=[0])] + rs))
    # the same conversion, and half arithmetic, while the calling thread's rounding direction is upward / downward /
    # toward zero: the results are specified as round-to-nearest-even regardless (the F16C path must not inherit MXCSR)
    step = 6 if q else 2
    rmrows = []
    for n, r0 in enumerate(frow[::step]):
        r1 = dict(r0); r1["rm"] = 1 + n % 3
        rmrows.append(r1)
    jobs.append(hg.Job("f2h-rm", [hg.hdr(S=[0])] + rmrows))
    rsub = S[::16] if q else S[::8]
    rows = [hg.hdr(S=S)]
    for n, op in enumerate(("add", "sub", "mul", "div")):
        for m, r0 in enumerate(hg.bin_rows(op, rsub)):
            r1 = dict(r0); r1["rm"] = 1 + (n + m) % 3
            rows.append(r1)
    jobs.append(hg.Job("bin-rm", rows))
    # double -> half, integer -> half
    db = hg.double_inputs(ctx.seed, q)
    drow = []
    for c in hg.chunks(db, per):
        L = [hg.f64_limbs(v) for v in c]
        drow.append({"k": "d2h", "f": "d2h", "w3": [x[0] for x in L], "w2": [x[1] for x in L], "w1": [x[2] for x in L], "w0": [x[3] for x in L]})
    iv = hg.int_inputs(ctx.seed, q)
    irow = [{"k": "i2h", "f": "i2h", "x": c} for c in hg.chunks(iv, per)]
    jobs.append(hg.Job("d2h", [hg.hdr(S=[0])] + drow))
    jobs.append(hg.Job("i2h", [hg.hdr(S=[0])] + irow))
    jobs.append(hg.Job("imin", [hg.hdr(S=[0]), {"k": "imin", "f": "imin", "t": [0, 1, 2, 3, 4]}], hang_timeout=hg.HANG_TIMEOUT))
    # fma on seeded triples
    nt = 150000 if q else 1000000
    X, Y, Z = hg.fma_triples(ctx.seed, nt, S)
    trow = [{"k": "fma", "f": "fma", "x": X[i:i + per], "y": Y[i:i + per], "z": Z[i:i + per]} for i in range(0, nt, per)]
    for i, rs in enumerate(hg.chunks(trow, max(1, (len(trow) + (1 if q else 7)) // (2 if q else 8)))):
        jobs.append(hg.Job("fma-%d" % i, [hg.hdr(S=[0])] + rs))
    counts = {"grid": len(S), "floats": len(fl), "doubles": len(db), "ints": len(iv), "fma_triples": nt}
    return jobs, counts, S


def replay(ctx, path):
    return hg.replay(ctx, path, "C08")


def selftest(ctx):
    return hg.selftest(ctx, "C08")


def run(ctx):
    q = ctx.quick
    # ---- 1. the oracle's own laws, concurrently with everything else
    law = {}

    def laws():
        try:
            law["r"] = hg.run_laws(ctx, "HalfLaws08_quick.cfg" if q else "HalfLaws08_thorough.cfg", "laws08", workers=4 if q else 6)
        except Exception as e:      # re-raised in the main thread
            law["err"] = e
    th = threading.Thread(target=laws)
    th.start()

    # ---- 2. harness, both builds
    sw, hw = hg.build_drivers(ctx)
    jobs, counts, S = make_jobs(ctx)
    ctx.log("grid |S|=%d, %d floats, %d doubles, %d ints, %d fma triples; %d table jobs" % (
        counts["grid"], counts["floats"], counts["doubles"], counts["ints"], counts["fma_triples"], len(jobs)))

    # ---- 3. record and validate
    summaries = hg.validate_jobs(ctx, jobs, sw, hw, parallel=6 if q else 7, workers=2, what="C08")
    th.join()
    if "err" in law:
        raise law["err"]
    nident = sum(1 for s in summaries if s["f16c_identical"])
    ctx.notes["tables"] = [{k: s[k] for k in ("job", "evaluations", "f16c_identical")} for s in summaries]
    ctx.notes["f16c"] = "%d of %d recordings are byte-identical between the -mf16c and -mno-f16c builds; differing ones are validated separately" % (nident, len(summaries))
    ctx.notes["inputs"] = counts
    diffs = {s["job"]: s["f16c_diff"] for s in summaries if s.get("f16c_diff")}
    if diffs:
        ctx.notes["f16c_differences_at_nan_operands"] = diffs
        ctx.log("recordings differ between the builds only at NaN operands (NaN payload/quiet bit): %s" % diffs)
    ctx.cov["distinct_nontrivial"] = ctx.cov["evaluations"]
    ctx.sample({"job": jobs[2].name, "request": [str(r)[:160] for r in jobs[2].rows[:3]]})
    ctx.sample({"grid_head": S[:24]})
    ctx.log("validated %d evaluations in %d tables (%d byte-identical with/without F16C)" % (ctx.cov["evaluations"], len(summaries), nident))
    return core.finish(
        ctx, "exploration",
        rule="TLA+ oracle Half.tla evaluated by TLC on every recorded evaluation (one state each). Exhaustive over all 65 536 halves for "
             "every unary operation, classification, half->float/double/long double/int conversion, sqrt, ++/--, hash; float->half on every "
             "exactly representable value, the rounding midpoints and their float neighbours, float subnormals, the overflow threshold, NaNs "
             "and seeded random floats (%d floats); double->half (%d) and int->half (%d) likewise; + - * / (also compound and mixed half/float "
             "forms), the six comparison operators, isgreater..isunordered, copysign and hash-equality on the grid S x S with |S|=%d "
             "(every exponent x 8 boundary fractions x both signs, zeros, subnormals, infinities, NaNs, seeded random halves); fma on %d seeded "
             "triples incl. cancellation and sticky cases. Both the -mf16c and the -mno-f16c build are recorded." % (
                 counts["floats"], counts["doubles"], counts["ints"], counts["grid"], counts["fma_triples"]),
        assumptions=["default rounding mode only (HALF_ROUND_STYLE = 1); exception flags are not observed",
                     "NaN results are compared as 'is a NaN' (payload and sign of a produced NaN are not specified by IEEE 754)",
                     "not all 2^32 operand pairs / float patterns: binary operators are explored on the structured grid only",
                     "the F16C build is executed on this CPU's F16C unit"],
        exhaustive=False)

"""C09 - half math functions: the exactly specifiable part.

Decided here (TLA+ oracle specs/Half.tla, evaluated by TLC on every recorded evaluation):
  * ceil floor trunc round rint nearbyint lround lrint llround llrint frexp modf ilogb logb on all 65 536 halves;
    ldexp/scalbn/scalbln on halves x exponents; nextafter, nexttoward (long double targets one long-double ulp
    around each half), fmod, remainder, remquo, fdim, fmax, fmin on the grid S x S; hypot correctly rounded on a sub-grid;
  * the C99 Annex F special cases (NaN, +-inf, +-0, domain and pole errors) of every other function, on all 65 536
    halves (unary) and on S x S (atan2, pow, hypot), plus the arguments whose mathematical result is itself a half
    (exp2 of integers, log2 of powers of two, log10 of powers of ten, cbrt of cubes), which "exact to rounding" forces.
NOT decided: correct rounding / 1-ulp bounds of the transcendental functions on ordinary arguments (no reals, no
arbitrary precision in TLA+/TLC) - the MANIFEST claim says so.
"""
import threading
from vlib import core, halfgrid as hg
from vlib.core import MachineryError

ROUND = ["ceil", "floor", "trunc", "round", "rint", "nearbyint", "lround", "lrint", "llround", "llrint", "frexp", "modf", "ilogb", "logb"]
TRANS = ["exp", "exp2", "expm1", "log", "log10", "log2", "log1p", "cbrt", "sin", "cos", "tan", "sincos", "asin", "acos", "atan",
         "sinh", "cosh", "tanh", "asinh", "acosh", "atanh", "erf", "erfc", "lgamma", "tgamma"]
BIN = ["fmod", "remainder", "remquo", "fdim", "fmax", "fmin", "nextafter", "atan2", "pow", "hypot"]


def exponents():
    return list(range(-50, 51)) + [-2147483647, 2147483647, -100000, 100000, -1000, 1000, 64, -64]


def make_jobs(ctx):
    q = ctx.quick
    S = hg.grid(ctx.seed, 400 if q else 1280, salt=9)
    E = exponents()
    jobs = []
    for i, fs in enumerate(hg.chunks(ROUND, 5)):
        jobs.append(hg.Job("round-%d" % i, [hg.hdr(S=[0])] + hg.unary_rows(fs)))
    for i, fs in enumerate(hg.chunks(TRANS, 9)):
        jobs.append(hg.Job("annexf-%d" % i, [hg.hdr(S=[0])] + hg.unary_rows(fs)))
    rows_per_job = len(S) if q else 512
    for op in BIN:
        for i, A in enumerate(hg.chunks(S, rows_per_job)):
            jobs.append(hg.Job("%s-%d" % (op, i), [hg.hdr(S=S)] + hg.bin_rows(op, A)))
    for i, A in enumerate(hg.chunks(S, rows_per_job)):
        jobs.append(hg.Job("nexttoward-%d" % i, [hg.hdr(S=S)] + [{"k": "nt", "f": "nexttoward", "a": a} for a in A]))
    # hypot, correctly rounded, on a sub-grid (wide-integer arithmetic in TLC is slow)
    H = hg.small_grid(ctx.seed, 128 if q else 320, salt=3)
    for i, A in enumerate(hg.chunks(H, len(H) if q else 80)):
        jobs.append(hg.Job("hypotfull-%d" % i, [hg.hdr(S=H)] + hg.bin_rows("hypot_full", A)))
    # ldexp family: halves x exponents
    if q:
        A = S
        rows = [hg.hdr(S=[0], E=E)]
        for f in ("ldexp", "scalbn", "scalbln"):
            rows += [{"k": "ld", "f": f, "a": a} for a in A]
        jobs.append(hg.Job("ldexp", rows))
    else:
        allh = list(range(65536))
        for i, A in enumerate(hg.chunks(allh, 8192)):
            jobs.append(hg.Job("scalbln-%d" % i, [hg.hdr(S=[0], E=E)] + [{"k": "ld", "f": "scalbln", "a": a} for a in A]))
        rows = [hg.hdr(S=[0], E=E)]
        for f in ("ldexp", "scalbn"):
            rows += [{"k": "ld", "f": f, "a": a} for a in S]
        jobs.append(hg.Job("ldexp", rows))
    counts = {"grid": len(S), "hypot_grid": len(H), "exponents": len(E)}
    return jobs, counts, S


def replay(ctx, path):
    return hg.replay(ctx, path, "C09")


def selftest(ctx):
    return hg.selftest(ctx, "C09")


def run(ctx):
    q = ctx.quick
    law = {}

    def laws():
        try:
            law["r"] = hg.run_laws(ctx, "HalfLaws09_quick.cfg" if q else "HalfLaws09_thorough.cfg", "laws09", workers=4 if q else 6)
        except Exception as e:
            law["err"] = e
    th = threading.Thread(target=laws)
    th.start()

    sw, hw = hg.build_drivers(ctx)
    jobs, counts, S = make_jobs(ctx)
    ctx.log("grid |S|=%d, hypot sub-grid %d, %d exponents; %d table jobs" % (counts["grid"], counts["hypot_grid"], counts["exponents"], len(jobs)))
    summaries = hg.validate_jobs(ctx, jobs, sw, hw, parallel=6 if q else 7, workers=2, what="C09")
    th.join()
    if "err" in law:
        raise law["err"]
    nident = sum(1 for s in summaries if s["f16c_identical"])
    ctx.notes["tables"] = [{k: s[k] for k in ("job", "evaluations", "f16c_identical")} for s in summaries]
    ctx.notes["inputs"] = counts
    ctx.notes["not_decided"] = ("correct rounding / 1-ulp accuracy of exp exp2 expm1 log log10 log2 log1p cbrt hypot(3 args) sin cos tan sincos asin acos atan "
                                "atan2 sinh cosh tanh asinh acosh atanh pow erf erfc lgamma tgamma on ordinary arguments: only their Annex F special cases and "
                                "exactly representable results are checked")
    # evaluations whose specification is a definite value (for the transcendental functions only special arguments are)
    trans_rows = sum(s["evaluations"] for s in summaries if s["job"].startswith("annexf") or s["job"].split("-")[0] in ("atan2", "pow", "hypot"))
    ctx.cov["distinct_nontrivial"] = ctx.cov["evaluations"] - trans_rows
    ctx.notes["evaluations_transcendental_tables"] = trans_rows
    ctx.sample({"job": jobs[0].name, "request": [str(r)[:160] for r in jobs[0].rows[:3]]})
    ctx.sample({"grid_head": S[:24]})
    ctx.log("validated %d evaluations in %d tables (%d byte-identical with/without F16C)" % (ctx.cov["evaluations"], len(summaries), nident))
    return core.finish(
        ctx, "exploration",
        rule="TLA+ oracle Half.tla evaluated by TLC on every recorded evaluation (one state each). Exhaustive over all 65 536 halves for ceil floor trunc "
             "round rint nearbyint lround lrint llround llrint frexp modf ilogb logb and for the Annex F special cases / exactly representable results of "
             "25 transcendental functions; fmod remainder remquo fdim fmax fmin nextafter nexttoward and the Annex F cases of atan2 pow hypot on S x S with "
             "|S|=%d; hypot correctly rounded on a %d x %d sub-grid; ldexp/scalbn/scalbln on %s x %d exponents (-50..50 and extremes)." % (
                 counts["grid"], counts["hypot_grid"], counts["hypot_grid"], "S" if q else "all 65 536 halves (scalbln; S for the two aliases)", counts["exponents"]),
        assumptions=["PARTIAL CLAIM: accuracy of the transcendental functions on ordinary arguments is not decidable with TLA+/TLC and is not checked",
                     "default rounding mode only; exception flags are not observed; NaN results compared as 'is a NaN'",
                     "where C leaves a result open (sign of a zero from nextafter, fmax/fmin of +0/-0, lround of inf/NaN, remquo bits above the low three) every conforming answer is accepted",
                     "atan2 special cases that are multiples of pi/4 are accepted within one ulp of the correctly rounded constant (documented accuracy of atan2)"],
        exhaustive=False)

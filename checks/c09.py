"""C09 - half math functions.

Decided here (TLA+ oracles specs/Half.tla, specs/HalfTrans.tla, evaluated by TLC on every recorded evaluation):
  * the main clause - exp exp2 log log10 log2 sin cos tan sincos asin acos atan sinh cosh tanh asinh acosh atanh return the correctly
    rounded binary16 value of the real function, expm1 and log1p a value within one ulp of it: TLC computes a rigorous enclosure of the
    real value (HalfReal.tla: ball arithmetic on integers in base-2^14 limbs; HalfTrans.tla: argument reductions and power series with
    proven tail bounds; 42 fraction bits, 70 when that does not decide) and rounds both ends; all 65 536 arguments of every function in
    the thorough tier, a stratified sample (every exponent x boundary fractions, a stride, random, the hardest-to-round arguments) in
    the quick tier;
  * ceil floor trunc round rint nearbyint lround lrint llround llrint frexp modf ilogb logb and cbrt (correctly rounded, by
    wide-integer cubes) on all 65 536 halves; ldexp/scalbn/scalbln on halves x exponents; nextafter, nexttoward (long double
    targets one long-double ulp around each half), fmod, remainder, remquo, fdim, fmax, fmin on the grid S x S, on the special
    operands among themselves and on one witness pair per case of the oracle's case analysis (specs/HalfCases.tla); hypot of two
    and of three arguments correctly rounded on sub-grids;
  * the C99 Annex F special cases (NaN, +-inf, +-0, domain and pole errors) of every other function, on all 65 536
    halves (unary) and on S x S (atan2, pow, hypot), plus the arguments whose mathematical result is itself a half
    (exp2 of integers, log2 of powers of two, log10 of powers of ten), which "exact to rounding" forces;
  * both outputs of sincos(x, &s, &c) on all 65 536 arguments against the stand-alone sin(x) and cos(x) (HalfCheck "sincos_routes": the
    correctly rounded value is unique, so the two routes must agree), and against the enclosure over the argument sets of sin and of cos;
  * (quick tier: cbrt_full on a seeded quarter of every binade; a sixth of the real-function rows also under a directed direction)
  * all of the above (except the real-function tables in the thorough tier) once more while the calling thread's rounding direction is upward / downward /
    toward zero (the functions are integer algorithms; rint, nearbyint, lrint, llrint - which C defines to follow the direction and the
    library documents as following its own, fixed, mode - may answer either way there).
NOT decided: the 1-ulp bounds of atan2, pow, erf, erfc, lgamma, tgamma on ordinary arguments - the MANIFEST claim says so.
"""
import os, random, threading
from vlib import core, halfgrid as hg
from vlib.core import MachineryError

ROUND = ["ceil", "floor", "trunc", "round", "rint", "nearbyint", "lround", "lrint", "llround", "llrint", "frexp", "modf", "ilogb", "logb", "cbrt_full"]
TRANS = ["exp", "exp2", "expm1", "log", "log10", "log2", "log1p", "cbrt", "sin", "cos", "tan", "sincos", "asin", "acos", "atan",
         "sinh", "cosh", "tanh", "asinh", "acosh", "atanh", "erf", "erfc", "lgamma", "tgamma"]
ROUND_FAST = [f for f in ROUND if f != "cbrt_full"]
MULTI_ROUTES = ["sincos_routes"]
BIN = ["fmod", "remainder", "remquo", "fdim", "fmax", "fmin", "nextafter", "atan2", "pow", "hypot"]
BIN_EXACT = ["fmod", "remainder", "remquo", "fdim", "fmax", "fmin", "nextafter"]


# the functions judged against the enclosure of the real function (specs/HalfTrans.tla): correct rounding, one ulp for the last two
REAL_CR = ["exp", "exp2", "log", "log10", "log2", "sin", "cos", "tan", "sincos", "asin", "acos", "atan", "sinh", "cosh", "tanh", "asinh", "acosh", "atanh"]
REAL_ULP1 = ["expm1", "log1p"]
REAL = REAL_CR + REAL_ULP1


def hard_cases():
    """per function the arguments whose exact result lies closest to a rounding midpoint (inputs only, see vlib/half_hardcases_gen.py)"""
    import json
    path = os.path.join(os.path.dirname(hg.__file__), "half_hardcases.json")
    if not os.path.exists(path):
        return {}
    with open(path) as f:
        return json.load(f)["cases"]


def real_sample(seed, f, hard):
    """quick tier: every exponent field x boundary fractions x both signs (zeros, subnormals, infinities, NaNs included), every
    509th half from a seeded offset, seeded random halves, the listed hard cases of f and their neighbours' sign twins."""
    if f == "sincos":            # both outputs of the combined entry point over the argument sets of sin AND of cos (same oracle, same arguments)
        xs = real_sample(seed, "sin", hard) + real_sample(seed, "cos", hard)
        seen = set()
        return [x for x in xs if not (x in seen or seen.add(x))]
    rnd = random.Random(seed * 2741 + sum(map(ord, f)))
    xs = []
    for e in range(32):
        for m in (0, 0x3FF, 1, 0x200, rnd.getrandbits(10)):
            for sg in (0, 0x8000):
                xs.append(sg | (e << 10) | m)
    xs += list(range(seed % 509, 65536, 509))
    xs += [rnd.getrandbits(16) for _ in range(64)]
    for h in hard.get(f, []):
        xs += [h, h ^ 0x8000]
    seen, out = set(), []
    for x in xs:
        if x not in seen:
            seen.add(x); out.append(x)
    return out


def real_jobs(ctx, counts):
    """the main clause of C09: each listed function against the enclosure TLC computes from HalfTrans.tla.  Thorough: all 65 536
    arguments of every function; quick: a stratified sample."""
    jobs = []
    hard = hard_cases()
    counts["real_functions"] = len(REAL)
    if ctx.quick:
        n = n_rm = 0
        for i, fs in enumerate(hg.chunks(REAL, 5)):
            rows = [hg.hdr(S=[0])]
            for f in fs:
                xs = real_sample(ctx.seed, f, hard)
                n += len(xs)
                crs = [{"k": "ux", "f": f, "cr": 1, "x": c} for c in hg.chunks(xs, 32)]
                # and a sixth of the rows once more under a directed rounding direction of the calling thread: the statement fixes the
                # result (THE correctly rounded value in the library's own round-to-nearest mode) whatever the thread's direction is
                rmrows = hg.with_rm(crs[(ctx.seed + len(rows)) % 6::6], ctx.seed + len(rows))
                n_rm += sum(len(r["x"]) for r in rmrows)
                rows += crs + rmrows
            jobs.append(hg.Job("real-%d" % i, rows))
        counts["real_arguments_per_function"] = n // len(REAL)
        counts["real_evaluations_under_directed_rounding"] = n_rm
    else:
        for f in REAL:           # sincos too: both outputs of the combined entry point, on every argument
            for part, lo in enumerate(range(0, 65536, 16384)):
                jobs.append(hg.Job("real-%s-%d" % (f, part), [hg.hdr(S=[0])] + [dict(r, cr=1) for r in hg.unary_rows([f], block=128, lo=lo, hi=lo + 16384)]))
        counts["real_arguments_per_function"] = 65536
    return jobs


def exponents():
    return list(range(-50, 51)) + [-2147483647, 2147483647, -100000, 100000, -1000, 1000, 64, -64]


def hypot3_triples(seed, quick):
    """x, y, z for hypot(x, y, z): a small structured grid cubed (zeros, infinities, NaNs, extremes included), triples of nearby
    exponents (all three terms contribute to the rounding), two nearby and one far below (sticky), random."""
    rnd = random.Random(seed * 4409 + 1)
    G = hg.small_grid(seed, 30 if quick else 44, salt=5)
    X, Y, Z = [], [], []
    for a in G:
        for b in G:
            for c in G:
                X.append(a); Y.append(b); Z.append(c)
    for _ in range(8000 if quick else 300000):
        t = rnd.random()
        e = rnd.randrange(0, 31)

        def near(spread):
            return (min(30, max(0, e + rnd.randrange(-spread, spread + 1))) << 10) | rnd.choice([rnd.getrandbits(10), 0, 0x3FF, 1, 0x200]) | (rnd.getrandbits(1) << 15)
        if t < 0.5:
            x, y, z = near(2), near(2), near(2)
        elif t < 0.8:
            x, y, z = near(1), near(3), near(14)
        else:
            x, y, z = rnd.getrandbits(16), rnd.getrandbits(16), rnd.getrandbits(16)
        k = rnd.randrange(3)
        x, y, z = (x, y, z)[k:] + (x, y, z)[:k]
        X.append(x); Y.append(y); Z.append(z)
    return X, Y, Z


def pythagorean(seed, quick):
    """Integer triples a^2 + b^2 = c^2 with a < b <= 2047 (exact halves) and quadruples a^2 + b^2 + d^2 = c^2, chosen so that the
    exact hypotenuse c is an integer half (c <= 2048, or even), or lies exactly half way between two halves (c odd in 2049..4095: a
    tie, to even) - the arguments on which a lost sticky bit or a wrong tie decides the result.  Inputs only."""
    import math
    rnd = random.Random(seed * 733 + 2)
    tri = []
    for c in list(range(2049, 4096, 2)) + list(range(5, 2049, 1 if not quick else 7)) + list(range(2050, 4096, 2 if not quick else 14)):
        c2 = c * c
        a = 1
        lim = int(c / math.sqrt(2))
        found = 0
        for a in range(max(1, c - 2047) if c > 2047 else 1, lim + 1):
            b2 = c2 - a * a
            b = math.isqrt(b2)
            if b * b == b2 and a < b <= 2047:
                tri.append((a, b, c))
                found += 1
                if found >= (2 if c % 2 == 0 or c < 2049 else 6):
                    break
    quad = []
    for _ in range(600 if quick else 3000):
        c = rnd.randrange(2049, 4096) | 1
        a = rnd.randrange(1, 2048)
        n = c * c - a * a
        found = 0
        b0 = rnd.randrange(1, 2048)
        for b in list(range(b0, 2048)) + list(range(1, b0)):
            d2 = n - b * b
            if d2 <= 0:
                continue
            d = math.isqrt(d2)
            if d * d == d2 and d <= 2047:
                quad.append((a, b, d, c))
                found += 1
                if found >= 2:
                    break
    return tri, quad


def _int_half(n):
    return hg.py2h(float(n))            # n <= 2048: exactly representable


def exact_hypot_operands(seed, quick):
    """(pairs for hypot(x, y), triples for hypot(x, y, z)) built from the integer triples: scaled by powers of two, signs varied,
    a third argument that is zero, far below (only a sticky contribution), just below, or part of an exact quadruple."""
    rnd = random.Random(seed * 911 + 4)
    tri, quad = pythagorean(seed, quick)
    pairs, X, Y, Z = [], [], [], []

    def scaled(n, k, neg=False):
        h = _int_half(n)
        e = ((h >> 10) & 31) + k
        if (h & 0x7C00) == 0 or e < 1 or e > 30:
            return None
        return (h & 0x83FF) | (e << 10) | (0x8000 if neg else 0)
    for a, b, c in tri:
        for k in (0, -3, 4, -12) if not quick else (0, rnd.choice([-3, 4, -12])):
            x, y = scaled(a, k, rnd.random() < 0.3), scaled(b, k, rnd.random() < 0.3)
            if x is None or y is None:
                continue
            pairs.append((x, y)); pairs.append((y, x))
            ex = ((x >> 10) & 31)
            zs = [0, 0x8000, 1, 0x03FF, 0x0400]
            for dz in (11, 12, 13, 14, 15, 16, 18, 22):          # a third term this many binades below x: sticky only
                if ex - dz >= 1:
                    zs.append(((ex - dz) << 10) | rnd.choice([0, 1, 0x3FF, rnd.getrandbits(10)]))
            for z in zs:
                t = [x, y, z]
                r = rnd.randrange(3)
                t = t[r:] + t[:r]
                X.append(t[0]); Y.append(t[1]); Z.append(t[2])
    for a, b, d, c in quad:
        k = rnd.choice([0, 0, -2, 3, -11])
        t = [scaled(a, k), scaled(b, k, rnd.random() < 0.3), scaled(d, k)]
        if None in t:
            continue
        r = rnd.randrange(3)
        t = t[r:] + t[:r]
        X.append(t[0]); Y.append(t[1]); Z.append(t[2])
        # and one ulp off in one argument: just beside the tie
        X.append(t[0] + 1); Y.append(t[1]); Z.append(t[2])
        X.append(t[0]); Y.append(t[1] - 1); Z.append(t[2])
    return pairs, (X, Y, Z), {"pythagorean_triples": len(tri), "quadruples": len(quad)}


def make_jobs(ctx, counts):
    q = ctx.quick
    sd = ctx.seed
    S = hg.grid(ctx.seed, 400 if q else 1280, salt=9)
    E = exponents()
    jobs = []
    counts["cases"] = {}
    for op in ("mod", "add", "cmp"):
        jobs.append(hg.case_job(ctx, op, counts["cases"], "C09"))
    for i, fs in enumerate(hg.chunks(ROUND_FAST if q else ROUND, 5)):
        jobs.append(hg.Job("round-%d" % i, [hg.hdr(S=[0])] + hg.unary_rows(fs)))
    if q:       # cbrt against wide-integer cubes is the slowest exhaustive table: quick takes one quarter of every binade (seeded), thorough all
        jobs.append(hg.Job("round-cbrt", [hg.hdr(S=[0])] + hg.unary_rows(["cbrt_full"], block=256)[(sd % 4)::4]))
    # functions with several outputs: both outputs of sincos on ALL 65 536 arguments against the stand-alone sin and cos (the correctly
    # rounded value is unique), and once more under a directed rounding direction
    mrows = hg.unary_rows(MULTI_ROUTES)
    jobs.append(hg.Job("routes", [hg.hdr(S=[0])] + mrows + hg.with_rm(mrows[(sd % 4)::4], sd + 2)))
    for i, fs in enumerate(hg.chunks(TRANS, 9)):
        jobs.append(hg.Job("annexf-%d" % i, [hg.hdr(S=[0])] + hg.unary_rows(fs)))
    jobs.append(hg.specials_job("specials", BIN + ["hypot_full", "nexttoward"]))
    rows_per_job = len(S) if q else 512
    for op in BIN:
        for i, A in enumerate(hg.chunks(S, rows_per_job)):
            jobs.append(hg.Job("%s-%d" % (op, i), [hg.hdr(S=S)] + hg.bin_rows(op, A)))
    for i, A in enumerate(hg.chunks(S, rows_per_job)):
        jobs.append(hg.Job("nexttoward-%d" % i, [hg.hdr(S=S)] + [{"k": "nt", "f": "nexttoward", "a": a} for a in A]))
    # hypot, correctly rounded, on a sub-grid (wide-integer arithmetic in TLC is slow)
    H = hg.small_grid(ctx.seed, 128 if q else 320, salt=3)
    for i, A in enumerate(hg.chunks(H, len(H) if q else 80)):
        jobs.append(hg.Job("hypotfull-%d" % i, [hg.hdr(S=H)] + hg.bin_rows("hypot_full", A)))
    # hypot on arguments whose exact result is representable or an exact tie (integer triples and quadruples), with third
    # arguments that contribute nothing but a sticky bit
    epairs, (EX, EY, EZ), ecount = exact_hypot_operands(ctx.seed, q)
    counts.update(ecount)
    per = 1024
    erow = [{"k": "tri", "f": "hypot3", "x": EX[i:i + per], "y": EY[i:i + per], "z": EZ[i:i + per]} for i in range(0, len(EX), per)]
    jobs.append(hg.Job("hypot-exact", [hg.hdr(S=[0])] + hg.pair_rows("hypot_full", epairs) + erow + hg.with_rm(erow[(sd % 3)::3], sd)))
    # hypot of three arguments, correctly rounded
    X, Y, Z = hypot3_triples(ctx.seed, q)
    trow = [{"k": "tri", "f": "hypot3", "x": X[i:i + per], "y": Y[i:i + per], "z": Z[i:i + per]} for i in range(0, len(X), per)]
    for i, rs in enumerate(hg.chunks(trow, max(1, (len(trow) + (0 if q else 3)) // (1 if q else 4)))):
        jobs.append(hg.Job("hypot3-%d" % i, [hg.hdr(S=[0])] + rs))
    # ldexp family: halves x exponents
    if q:
        A = S
        rows = [hg.hdr(S=[0], E=E)]
        for f in ("ldexp", "scalbn", "scalbln"):
            rows += [{"k": "ld", "f": f, "a": a} for a in A]
        jobs.append(hg.Job("ldexp", rows))
    else:
        allh = list(range(65536))
        for i, A in enumerate(hg.chunks(allh, 8192)):
            jobs.append(hg.Job("scalbln-%d" % i, [hg.hdr(S=[0], E=E)] + [{"k": "ld", "f": "scalbln", "a": a} for a in A]))
        rows = [hg.hdr(S=[0], E=E)]
        for f in ("ldexp", "scalbn"):
            rows += [{"k": "ld", "f": f, "a": a} for a in S]
        jobs.append(hg.Job("ldexp", rows))
    # ---- once more under a directed rounding direction of the calling thread
    jobs.append(hg.Job("round-rm", [hg.hdr(S=[0])] + hg.with_rm(hg.unary_rows(ROUND_FAST if q else ROUND)[(sd % 4)::(4 if q else 1)], sd)))
    jobs.append(hg.Job("annexf-rm", [hg.hdr(S=[0])] + hg.with_rm(hg.unary_rows(TRANS)[(sd % 4)::(8 if q else 3)], sd + 1)))
    rsub = S[(sd % 4)::(16 if q else 8)] + hg.REQUIRED
    rows = [hg.hdr(S=S)]
    for n, op in enumerate(BIN):
        rows += hg.with_rm(hg.bin_rows(op, rsub), sd + n)
    rows += hg.with_rm([{"k": "nt", "f": "nexttoward", "a": a} for a in rsub], sd)
    jobs.append(hg.Job("bin-rm", rows))
    jobs.append(hg.Job("hypot-rm", [hg.hdr(S=H)] + hg.with_rm(hg.bin_rows("hypot_full", H[(sd % 4)::4]), sd) + hg.with_rm(trow[(sd % 4)::4], sd + 1)))
    jobs.append(hg.Job("ldexp-rm", [hg.hdr(S=[0], E=E)] + hg.with_rm([{"k": "ld", "f": f, "a": a} for f in ("ldexp", "scalbn", "scalbln") for a in rsub], sd)))
    counts.update({"grid": len(S), "hypot_grid": len(H), "hypot3_triples": len(X), "exponents": len(E)})
    rj = real_jobs(ctx, counts)
    # the costly tables first (thorough: they dominate the run)
    return (rj + jobs if not q else jobs[:3] + rj + jobs[3:]), S


def replay(ctx, path):
    return hg.replay(ctx, path, "C09")


def selftest(ctx):
    return hg.selftest(ctx, "C09")


ASSUMPTIONS = [
    "PARTIAL CLAIM: the 1-ulp accuracy of atan2, pow, erf, erfc, lgamma, tgamma on ordinary arguments is not specified here (only their Annex F cases and exact points)",
    "the enclosures of the real functions rest on the series identities and tail bounds stated in HalfReal.tla / HalfTrans.tla (guarded by the TLC-checked "
    "laws of HalfLaws.tla and cross-checked against mpmath during development); an argument at which the 70-bit enclosure does not decide is accepted with either neighbour",
    "HALF_ROUND_STYLE = 1 (the default); HALF_ERRHANDLING_* (exception flags / errno) and HALF_ARITHMETIC_TYPE are not exercised; NaN results compared as 'is a NaN'",
    "where C leaves a result open (sign of a zero from nextafter, fmax/fmin of +0/-0, lround of inf/NaN, remquo bits above the low three, hypot(x, y, z) with an "
    "infinite and a NaN argument) every conforming answer is accepted",
    "atan2 special cases that are multiples of pi/4 are accepted within one ulp of the correctly rounded constant (documented accuracy of atan2)",
    "rint, nearbyint, lrint, llrint under a directed rounding direction of the calling thread: both the library's documented answer (its own round-to-nearest "
    "mode) and C's (the current direction) are accepted; the property quantifies over inputs in the default environment"]


def run(ctx):
    q = ctx.quick
    law = {}

    def laws():
        try:
            law["r"] = hg.run_laws(ctx, "HalfLaws09_quick.cfg" if q else "HalfLaws09_thorough.cfg", "laws09", workers=min(core.NCPU, 4 if q else 6))
        except Exception as e:
            law["err"] = e
    th = threading.Thread(target=laws)
    if os.environ.get("VERIF_HALF_SKIP_LAWS"):      # development aid (mutation experiments on a loaded machine)
        ctx.notes["laws_skipped"] = "PARTIAL RUN: VERIF_HALF_SKIP_LAWS set, the oracle's law set was not re-checked in this run"
        th = threading.Thread(target=lambda: None)
    th.start()

    try:
        drivers = hg.build_drivers(ctx, "C09")
    except Exception:
        th.join()
        raise
    if drivers is None:
        th.join()
        return core.finish(ctx, "exploration", rule="signature probe only: the driver does not build against this tree", assumptions=ASSUMPTIONS)
    counts = {}
    jobs, S = make_jobs(ctx, counts)
    ctx.log("grid |S|=%d, hypot sub-grid %d, %d hypot3 triples, %d exponents; %d table jobs; builds: %s" % (
        counts["grid"], counts["hypot_grid"], counts["hypot3_triples"], counts["exponents"], len(jobs), ", ".join(t for t, _, _ in drivers.items)))
    summaries = hg.validate_jobs(ctx, jobs, drivers, parallel=6 if q else 7, workers=2, what="C09")
    th.join()
    if "err" in law:
        raise law["err"]
    nident = sum(1 for s in summaries if s["identical"])
    ctx.notes["tables"] = [{k: s[k] for k in ("job", "evaluations", "identical", "validated_tables")} for s in summaries]
    ctx.notes["inputs"] = counts
    ctx.notes["not_decided"] = ("1-ulp accuracy of atan2 pow erf erfc lgamma tgamma on ordinary arguments: only their Annex F special cases and "
                                "exactly representable results are checked")
    # the main clause: enclosures of the real functions
    real = [s for s in summaries if s["job"].startswith("real-")]
    und = [u for s in real for u in s.get("undecided", [])]
    ctx.notes["real_functions"] = {"correctly_rounded": REAL_CR, "within_one_ulp": REAL_ULP1,
                                   "arguments_per_function": counts.get("real_arguments_per_function"),
                                   "evaluations": sum(s["evaluations"] for s in real),
                                   "undecided": len(und), "undecided_cases": und[:40],
                                   "meaning_of_undecided": "the enclosure computed with 70 fraction bits still straddles a rounding boundary: both neighbours are accepted"}
    if und:
        ctx.log("enclosures undecided at %d (function, argument) pairs: %s" % (len(und), und[:8]))
    # evaluations whose specification is a definite value (for the transcendental functions only special arguments are)
    trans_rows = sum(s["evaluations"] * max(1, s["validated_tables"]) for s in summaries if s["job"].startswith("annexf") or s["job"].split("-")[0] in ("atan2", "pow", "hypot"))
    ctx.notes["evaluations_transcendental_tables"] = trans_rows
    ncases = {k: v["cases"] for k, v in counts.get("cases", {}).items()}
    # distinct and non-trivial: every (function, argument) of the exhaustive tables of the exactly specified unary functions is a
    # distinct input with a definite specified value; for the binary functions the distinct cases of the oracle's case analysis
    # that were witnessed.  Grid pairs, repetitions under another rounding direction or build and the transcendental tables
    # (mostly "no exact requirement") are not counted.
    exhaustive_unary = sum(s["evaluations"] for s in summaries if s["job"].startswith("round-") and s["job"] != "round-rm")
    real_pairs = sum(s["evaluations"] for s in real) - len(und) - counts.get("real_evaluations_under_directed_rounding", 0)   # repetitions not counted
    ctx.cov["distinct_nontrivial"] = exhaustive_unary + sum(ncases.values()) + real_pairs
    ctx.notes["distinct_nontrivial_is"] = ("%d (function, argument) pairs of the exhaustive unary tables + %d witnessed cases of the case analysis + %d decided "
                                           "(function, argument) pairs of the real-function tables" % (exhaustive_unary, sum(ncases.values()), real_pairs))
    ctx.notes["cases_witnessed"] = ("distinct cases of the oracle's case analysis (specs/HalfCases.tla) reached by TLC's bounded search, one executed witness pair each: %s "
                                    "(mod: fmod/remainder/remquo; add: fdim; cmp: fmax/fmin/nextafter/fdim)" % ncases)
    ctx.sample({"job": jobs[3].name, "request": [str(r)[:160] for r in jobs[3].rows[:3]]})
    ctx.sample({"grid_head": S[:24]})
    ctx.log("validated %d evaluations in %d tables (%d byte-identical across the %d builds); cases witnessed: %s" % (
        ctx.cov["evaluations"], len(summaries), nident, len(drivers.items), ncases))
    return core.finish(
        ctx, "exploration",
        rule="Main clause: for exp exp2 log log10 log2 sin cos tan sincos asin acos atan sinh cosh tanh asinh acosh atanh TLC computes a rigorous enclosure of "
             "the real function value at the binary16 argument (HalfReal.tla: integer ball arithmetic in base-2^14 limbs with outward rounding, 42 then 70 "
             "fraction bits; HalfTrans.tla: argument reduction + power series with proven tail bounds); when both ends of the enclosure round to the same "
             "half that half is the correctly rounded result and the recorded result must equal it (expm1, log1p: within one ulp of it); %s arguments per "
             "function, %d undecided. Further: "
             "TLA+ oracle Half.tla evaluated by TLC on every recorded evaluation (one state each). Exhaustive over all 65 536 halves for ceil floor trunc "
             "round rint nearbyint lround lrint llround llrint frexp modf ilogb logb, for both outputs of sincos against sin and cos (two routes to the unique "
             "correctly rounded value), for cbrt (correctly rounded; quick tier: a seeded quarter of every binade) and for the Annex F special cases / exactly "
             "representable results of 25 transcendental functions; fmod remainder remquo fdim fmax fmin nextafter nexttoward and the Annex F cases of atan2 pow "
             "hypot on S x S with |S|=%d, on the 28 special operands among themselves and on one witness pair per case of the oracle's case analysis (%s); hypot "
             "correctly rounded on a %d x %d sub-grid and hypot(x, y, z) on %d triples; ldexp/scalbn/scalbln on %s x %d exponents (-50..50 and extremes). Every "
             "group is evaluated a second time under upward / downward / toward-zero rounding of the calling thread. Driver builds recorded and compared: %s. "
             "distinct_nontrivial counts the (function, argument) pairs of the exhaustive unary tables of the 15 exactly specified functions plus the "
             "distinct cases of the case analysis (HalfCases.tla key: operand classes, exponent distance, remainder zero / below / exactly / above half "
             "the divisor, quotient parity, result class ...) for which TLC found a witness pair that was then executed." % (
                 counts.get("real_arguments_per_function"), len(und), counts["grid"], ncases, counts["hypot_grid"], counts["hypot_grid"], counts["hypot3_triples"],
                 "S" if q else "all 65 536 halves (scalbln; S for the two aliases)", counts["exponents"], "; ".join(d for _, _, d in drivers.items)),
        assumptions=ASSUMPTIONS,
        exhaustive=False)

"""C15 - cmp_* compare integers by mathematical value for every pair of integer types.

 1. TLC: IntCmp.tla (L1: values as [neg, 16-bit limbs]; Less defined twice) - trichotomy, mutual consistency of
    the six answers, transitivity, agreement with TLA+'s < on small integers, type ranges (IntCmpMC.tla).
 2. C->S: the real templates, instantiated for all 15 x 15 ordered pairs of {int,uint}{8,16,32,64}_t, char, wchar_t,
    char16_t, char32_t, (unsigned) long long, bool x 6 functions, run on boundary grids, same-bit-pattern pairs, seeded
    random operands; exhaustive sweeps (run-length encoded by the harness, every value checked by TLC) of every
    8-bit type x every 8-bit type, and of 8-bit values x every value of the 16-bit types (boundary 8-bit values in the
    quick tier, all in the thorough tier), both argument orders; 49 boundary pairs per type pair are evaluated by the
    compiler in constant expressions (a separate build; if it does not compile, per-function probes name the function
    that lost constexpr - a VIOLATION).  Repeated in other builds (g++ -O2, clang++ -O2; -O0 in thorough).
    TLC evaluates L1 on every recorded case (IntCmpCheck.tla).
"""
import json, os, random, re
from concurrent.futures import ThreadPoolExecutor
from vlib import core, tables
from vlib.core import MachineryError

# (signed, bits) on the platforms this runs on (x86-64 / aarch64 Linux: plain char measured below, wchar_t 32 bit);
# the driver reports is_signed/digits of every type and IntCmpCheck.tla checks the operands against THAT
TYPES = [(True, 8), (False, 8), (True, 16), (False, 16), (True, 32), (False, 32), (True, 64), (False, 64),
         (True, 64), (False, 64), (True, 8), (True, 32), (False, 16), (False, 32), (False, 1)]
NAMES = ["int8_t", "uint8_t", "int16_t", "uint16_t", "int32_t", "uint32_t", "int64_t", "uint64_t",
         "long long", "unsigned long long", "char", "wchar_t", "char16_t", "char32_t", "bool"]
# how many of them the driver is built with: all 15; 14 if the templates reject bool; 10 if they reject the character types
# too (as std::cmp_* do: those are integral types but not "integer types", a tree that refuses them keeps the property)
NT_LEVELS = (15, 14, 10)
NT = 15
ID_CHAR, ID_WCHAR = 10, 11
PER_LINE = 128
NB = 7                 # boundary values per type in the constant-expression table (driver.cpp -DCE_TABLE)
FUNCS = ["cmp_equal", "cmp_not_equal", "cmp_less", "cmp_greater", "cmp_less_equal", "cmp_greater_equal"]
FLAVOURS = {"asan": tables.Flavour("asan"),
            "O2": tables.Flavour("O2", flags=["-O2"], asan=False),
            "clangO2": tables.Flavour("clangO2", cxx="clang++", flags=["-O2"], asan=False),
            "O0": tables.Flavour("O0", flags=["-O0"], asan=False)}


def measure_platform(ctx):
    """signedness of plain char and wchar_t, width of wchar_t: inputs of the generators only (the spec checks the
    operands against what the driver itself reports)"""
    src = os.path.join(ctx.work, "plat.cpp")
    with open(src, "w") as f:
        f.write('#include <cstdio>\n#include <limits>\nint main(){ std::printf("%d %d %d\\n", (int)std::numeric_limits<char>::is_signed, '
                '(int)std::numeric_limits<wchar_t>::is_signed, (int)(std::numeric_limits<wchar_t>::digits + std::numeric_limits<wchar_t>::is_signed)); }\n')
    exe = os.path.join(ctx.work, "plat")
    rc, o = core.sh([core.CXX, "-std=c++14", src, "-o", exe], timeout=300)
    if rc != 0:
        raise MachineryError("platform probe does not compile: " + o[-500:])
    rc, o = core.sh([exe], timeout=60)
    cs, ws, wb = [int(x) for x in o.split()]
    TYPES[ID_CHAR] = (bool(cs), 8)
    TYPES[ID_WCHAR] = (bool(ws), wb)
    return {"char_signed": cs, "wchar_t_signed": ws, "wchar_t_bits": wb}


def trange(t):
    s, b = TYPES[t]
    return (-(1 << (b - 1)), (1 << (b - 1)) - 1) if s else (0, (1 << b) - 1)


def type_pairs(q):
    """all ordered pairs of the 8 fixed-width types; pairs with the other types: all of them in the thorough tier,
    in the quick tier every such type against every fixed-width type (both orders) and against itself and its neighbour"""
    for t in range(NT):
        for u in range(NT):
            if t < 8 and u < 8 or not q:
                yield t, u
            elif t < 8 or u < 8 or u == t or u == 8 + (t - 8 + 1) % (NT - 8):
                yield t, u


def boundary(t):
    lo, hi = trange(t)
    c = {lo, lo + 1, lo + 2, hi - 2, hi - 1, hi, -2, -1, 0, 1, 2, lo // 2, hi // 2, hi // 2 + 1}
    for k in (7, 8, 15, 16, 31, 32, 63):
        for d in (-1, 0, 1):
            c.add((1 << k) + d)
            c.add(-(1 << k) + d)
    return sorted(v for v in c if lo <= v <= hi)


def limbs(v):
    m = abs(v)
    return [1 if v < 0 else 0] + [(m >> (16 * k)) & 0xFFFF for k in range(4)]


def reinterpret(v, t):
    """the value of type t that has the same low bits as v (inputs only: 'same bit pattern' pairs)"""
    s, b = TYPES[t]
    u = v & ((1 << b) - 1)
    return u - (1 << b) if s and u >= (1 << (b - 1)) else u


def rvalue(rnd, t):
    lo, hi = trange(t)
    c = rnd.random()
    if c < 0.4:
        return rnd.randint(lo, hi)
    if c < 0.6:
        return rnd.choice(boundary(t))
    if c < 0.8:      # random magnitude of random bit length
        k = rnd.randrange(0, TYPES[t][1] + 1)
        v = rnd.getrandbits(k) if k else 0
        if TYPES[t][0] and rnd.random() < 0.5:
            v = -v
        return min(max(v, lo), hi)
    return min(max(rnd.choice(boundary(t)) + rnd.randint(-3, 3), lo), hi)


def line(t, u, pairs, small):
    if small:
        return {"op": "P", "T": t, "U": u, "enc": "int", "c": [[a, b] for a, b in pairs]}
    return {"op": "P", "T": t, "U": u, "enc": "limbs", "c": [[limbs(a), limbs(b)] for a, b in pairs]}


def pack(t, u, pairs, per=PER_LINE):
    small = TYPES[t][1] <= 16 and TYPES[u][1] <= 16
    return [line(t, u, pairs[i:i + per], small) for i in range(0, len(pairs), per)]


def scripts(ctx):
    q = ctx.quick
    rnd = random.Random(ctx.seed * 104729 + 15)
    out = {"grid": [], "pattern": [], "random": [], "constexpr": []}
    nrand = 300 if q else 2500
    for t, u in type_pairs(q):
        if True:
            bt, bu = boundary(t), boundary(u)
            if t >= 8 or u >= 8:
                nrand = 120 if q else 1200
            lo_u, hi_u = trange(u)
            # boundary grid: every boundary value of T against every boundary value of U
            out["grid"] += pack(t, u, [(a, b) for a in bt for b in bu])
            # same bit pattern / neighbours of the same mathematical value
            pat = []
            for a in bt + [rvalue(rnd, t) for _ in range(20)]:
                pat.append((a, reinterpret(a, u)))
                for d in (-1, 0, 1):
                    if lo_u <= a + d <= hi_u:
                        pat.append((a, a + d))
            out["pattern"] += pack(t, u, pat)
            pairs = []
            for _ in range(nrand):
                a = rvalue(rnd, t)
                c = rnd.random()
                if c < 0.25:
                    b = reinterpret(a, u)
                elif c < 0.45:
                    b = min(max(a + rnd.randint(-2, 2), lo_u), hi_u)
                else:
                    b = rvalue(rnd, u)
                pairs.append((a, b))
            out["random"] += pack(t, u, pairs)
            nrand = 300 if q else 2500
    for t in range(NT):
        for u in range(NT):            # the constant-expression table has every ordered type pair in both tiers
            out["constexpr"].append({"op": "CE", "T": t, "U": u, "c": [[i, j] for i in range(NB) for j in range(NB)]})
    # exhaustive sweeps.  A sweep case [a]: the harness calls the functions for a against EVERY value b of U and prints
    # the answers run-length encoded; TLC checks every b of every run.  side 1 = cmp_*(b, a).
    t8 = [t for t in range(NT) if TYPES[t][1] <= 8]            # int8, uint8, char, bool
    t16 = [t for t in range(NT) if TYPES[t][1] == 16]          # int16, uint16, char16_t
    sw = []
    for t in t8:
        for u in t8:                                           # every ordered pair of 8-bit types, every value pair
            lo, hi = trange(t)
            sw.append({"op": "R", "T": t, "U": u, "side": 0, "c": [[a] for a in range(lo, hi + 1)]})
    out["sweep-8x8"] = sw
    sw = []
    for t in t8:
        lo, hi = trange(t)
        if q:
            avals = sorted({v for v in (lo, lo + 1, -2, -1, 0, 1, 2, 126, 127, 128, 129, hi - 1, hi, rnd.randint(lo, hi), rnd.randint(lo, hi)) if lo <= v <= hi})
        else:
            avals = list(range(lo, hi + 1))
        for u in t16:
            for side in (0, 1):
                for i in range(0, len(avals), 32):
                    sw.append({"op": "R", "T": t, "U": u, "side": side, "c": [[a] for a in avals[i:i + 32]]})
    out["sweep-8x16"] = sw
    return out


SRC = os.path.join(core.HARNESS, "cmp", "driver.cpp")
PROBE = os.path.join(core.HARNESS, "cmp", "api_probe.cpp")


def determine_types(ctx):
    """Which operand types do the templates accept?  The standard integer types (ids 0..9) are the property's domain;
    the character types and bool are driven only if the instantiations compile (a tree that rejects them, as std::cmp_*
    do, keeps the property).  Sets NT; returns the asan driver (or None after a VIOLATION)."""
    global NT
    fl = FLAVOURS["asan"]
    out = os.path.join(ctx.work, "cmp_driver_" + fl.name)
    for n in NT_LEVELS[:-1]:
        rc, o = core.try_build(ctx, SRC, out, flags=["-DNTYPES=%d" % n], asan=True)
        if rc == 0:
            NT = n
            return out
        ctx.notes.setdefault("operand_types_rejected_by_the_templates", []).append(
            {"tried": NAMES[:n][-1], "error": " | ".join([l.strip() for l in o.splitlines() if "error" in l][:2])[:400]})
    NT = NT_LEVELS[-1]
    return build(ctx, "asan")


def build(ctx, flavour="asan"):
    """-> path of the run-time driver in that build flavour, or None after a VIOLATION (the functions cannot be called)"""
    fl = FLAVOURS[flavour or "asan"]
    return tables.build_driver(ctx, "C15", SRC, os.path.join(ctx.work, "cmp_driver_" + fl.name), PROBE, flags=["-DNTYPES=%d" % NT], flavour=fl)


def build_ce(ctx, cxx=None):
    """The constant-expression table: the same driver with -DCE_TABLE (every function evaluated by the compiler for 49
    boundary pairs of each of the 225 ordered type pairs).  If it does not compile although the run-time driver does,
    one probe per function tells which of the six is not usable in constant expressions: a VIOLATION each."""
    name = os.path.basename(cxx or core.CXX)
    drv = os.path.join(ctx.work, "cmp_driver_ce_" + name)
    rc, o = core.try_build(ctx, SRC, drv, flags=["-DCE_TABLE", "-DNTYPES=%d" % NT], asan=False, cxx=cxx)
    if rc == 0:
        return drv
    bad = []
    for fn in FUNCS:
        rc1, o1 = core.try_build(ctx, os.path.join(core.HARNESS, "cmp", "ce_probe.cpp"), drv + ".probe", flags=["-DCE_FN=" + fn], asan=False, cxx=cxx)
        if rc1 != 0:
            bad.append(fn)
            errs = [l.strip() for l in o1.splitlines() if "error" in l][:3]
            os.makedirs(ctx.replays, exist_ok=True)
            rp = os.path.join(ctx.replays, "ce_probe_%s_%s.cpp" % (fn, name))
            with open(rp, "w") as f:
                f.write("// C15 replay: %s -std=c++14 -fsyntax-only -I<xtl include> %s\n#define CE_FN %s\n" % (name, os.path.basename(rp), fn))
                f.write(open(os.path.join(core.HARNESS, "cmp", "ce_probe.cpp")).read())
            ctx.violation("xtl::%s is not usable in constant expressions (%s): %s" % (fn, name, " | ".join(errs)[:1200]), replay_path=rp)
    if not bad:
        # the run-time driver builds, the same calls inside constant expressions do not: constant evaluation of one of the
        # functions fails for some boundary operand (the table holds nothing but such calls)
        errs = [l.strip() for l in o.splitlines() if "error" in l or "in .constexpr. expansion" in l][:5]
        os.makedirs(ctx.replays, exist_ok=True)
        rp = os.path.join(ctx.replays, "ce_table_%s.cpp" % name)
        with open(rp, "w") as f:
            f.write("// C15 replay: %s -std=c++14 -fsyntax-only -DCE_TABLE -DNTYPES=%d -I<xtl include> -I/verif/harness/common %s\n" % (name, NT, os.path.basename(rp)))
            f.write("#define CE_TABLE 1\n#define NTYPES %d\n" % NT)
            f.write(open(SRC).read())
        ctx.violation("the six functions evaluated on boundary operands in constant expressions do not compile (%s) although the same "
                      "calls compile at run time: %s" % (name, " | ".join(errs)[:1500]), replay_path=rp)
    return None


CXX_NAMES = ["std::int8_t", "std::uint8_t", "std::int16_t", "std::uint16_t", "std::int32_t", "std::uint32_t", "std::int64_t", "std::uint64_t",
             "long long", "unsigned long long"]


def cxx_literal(t, lim):
    """a constant expression of C++ type CXX_NAMES[t] with the value [neg, l0..l3]"""
    m = lim[1] | (lim[2] << 16) | (lim[3] << 32) | (lim[4] << 48)
    if lim[0]:
        inner = "(-%dLL - 1)" % (m - 1)          # also right for the minimum of a 64-bit type
    else:
        inner = "%dULL" % m
    return "static_cast<%s>(%s)" % (CXX_NAMES[t], inner)


def emitted_rows(out):
    rows, seen = [], set()
    for ln in out.splitlines():
        if ln.startswith('"@E@'):
            x = json.loads(ln)[3:]
            if x not in seen:
                seen.add(x)
                rows.append(json.loads(x))
    rows.sort(key=lambda r: (r["T"], r["U"], r["a"], r["b"]))
    return rows


def static_rows(ctx, compilers):
    """S->C for the constant-expression clause: IntCmpRows.tla enumerates (T, U, a, b, six answers); every row becomes six
    static_assert declarations; the compiler(s) must accept them all.  A rejected assertion is a VIOLATION whose replay is a
    translation unit holding just the rejected assertions."""
    r = core.tlc_model_check(ctx, "IntCmpRows", "IntCmpRows.cfg" if ctx.quick else "IntCmpRows_thorough.cfg",
                             "rows for the static_assert table: ordered pairs of the 10 standard integer types x boundary values, laws hold on each",
                             workers=tables.tlc_workers())
    if r["violated"]:
        raise MachineryError("IntCmpRows.tla: the laws of IntCmp.tla fail on a row (%s): oracle bug, see %s" % (r["violated"], r["outfile"]))
    rows = emitted_rows(r["out"])
    if len(rows) != r["distinct"] or not rows:
        raise MachineryError("IntCmpRows: %d rows emitted for %d states, see %s" % (len(rows), r["distinct"], r["outfile"]))
    head = '#include "xtl/xcompare.hpp"\n#include <cstdint>\n'
    nparts = 4 if ctx.quick else 8
    d = ctx.sub("static_rows")
    parts = []
    for k in range(nparts):
        path = os.path.join(d, "rows_%d.cpp" % k)
        linemap = {}
        with open(path, "w") as f:
            f.write(head)
            ln = 3
            for i in range(k, len(rows), nparts):
                row = rows[i]
                a, b = cxx_literal(row["T"], row["a"]), cxx_literal(row["U"], row["b"])
                for bit, fn in enumerate(FUNCS):
                    exp = "true" if (row["m"] >> bit) & 1 else "false"
                    f.write('static_assert(xtl::%s(%s, %s) == %s, "row %d %s");\n' % (fn, a, b, exp, i, fn))
                    linemap[ln] = (i, fn)
                    ln += 1
            f.write("int main() { return 0; }\n")
        parts.append((path, linemap))

    def compile_one(job):
        cxx, (path, linemap) = job
        rc, o = core.sh([cxx, "-std=c++14", "-fsyntax-only", "-ferror-limit=0" if "clang" in cxx else "-fmax-errors=0", "-I", core.INCLUDE, path], timeout=1500)
        return cxx, path, linemap, rc, o
    jobs = [(c, p_) for c in compilers for p_ in parts]
    bad = {}
    other = []
    with ThreadPoolExecutor(max(1, min(core.NCPU, len(jobs)))) as ex:
        for cxx, path, linemap, rc, o in ex.map(compile_one, jobs):
            if rc == 0:
                continue
            hit = False
            for m in re.finditer(r"%s:(\d+):\d+: error: ([^\n]*)" % re.escape(path), o):
                ln = int(m.group(1))
                if ln in linemap:
                    hit = True
                    bad.setdefault((cxx,) + linemap[ln], m.group(2)[:200])
            if not hit:
                other.append((cxx, path, rc, o[-1500:]))
    ctx.notes["static_assert_rows"] = {"rows": len(rows), "assertions": 6 * len(rows), "compilers": compilers, "rejected": len(bad)}
    ctx.cov["evaluations"] += 6 * len(rows) * len(compilers)
    if bad:
        # one replay per (compiler, function), each with at most 8 rejected assertions
        groups = {}
        for (cxx, i, fn), msg in sorted(bad.items()):
            groups.setdefault((cxx, fn), []).append((i, msg))
        os.makedirs(ctx.replays, exist_ok=True)
        for (cxx, fn), items in list(groups.items())[:tables.MAX_CONFIRM]:
            rp = os.path.join(ctx.replays, "sa_rows_%s_%s.cpp" % (fn, os.path.basename(cxx)))
            with open(rp, "w") as f:
                f.write("// C15 replay: %s -std=c++14 -fsyntax-only -I<xtl include> %s\n// rows enumerated by specs/IntCmpRows.tla; expected answers from specs/IntCmp.tla\n" % (cxx, os.path.basename(rp)))
                f.write(head)
                for i, msg in items[:8]:
                    row = rows[i]
                    exp = "true" if (row["m"] >> FUNCS.index(fn)) & 1 else "false"
                    f.write('static_assert(xtl::%s(%s, %s) == %s, "row %d %s");\n' % (fn, cxx_literal(row["T"], row["a"]), cxx_literal(row["U"], row["b"]), exp, i, fn))
                f.write("int main() { return 0; }\n")
            i, msg = items[0]
            row = rows[i]
            ctx.violation("xtl::%s(%s %s, %s %s) in a constant expression (%s): expected %s from IntCmp.tla; the compiler says: %s  [%d assertions on %s rejected]"
                          % (fn, NAMES[row["T"]], row["a"], NAMES[row["U"]], row["b"], cxx, bool((row["m"] >> FUNCS.index(fn)) & 1), msg, len(items), fn), replay_path=rp)
    elif other:
        cxx, path, rc, o = other[0]
        raise MachineryError("the static_assert table %s does not compile with %s (rc=%s) for a reason that is not one of its assertions:\n%s" % (path, cxx, rc, o))
    return len(rows)


def domain_probe(ctx):
    """Operands outside the statement's domain (enumerations, floating point, __int128): facts for the evidence, ADVISORY lines
    where a call compiles and does not return the comparison of the mathematical values.  Never part of the verdict."""
    src = os.path.join(core.HARNESS, "cmp", "domain_probe.cpp")
    what = {1: "unscoped enumeration operands", 2: "scoped enumeration operand", 3: "floating-point operand", 4: "__int128 operands"}
    facts = {}
    for pr, std in ((1, "c++14"), (2, "c++14"), (3, "c++14"), (4, "c++14"), (4, "gnu++14")):
        exe = os.path.join(ctx.work, "domain_probe_%d_%s" % (pr, std.replace("+", "p")))
        rc, o = core.sh([core.CXX, "-std=" + std, "-DPROBE=%d" % pr, "-I", core.INCLUDE, src, "-o", exe], timeout=300)
        key = "%s (-std=%s)" % (what[pr], std)
        if rc != 0:
            facts[key] = "rejected at compile time: " + " | ".join([l.strip() for l in o.splitlines() if "error" in l][:1])[:240]
            continue
        rc, o = core.sh([exe], timeout=60)
        rows = [json.loads(l) for l in o.splitlines() if l.startswith("{")]
        wrong = [r["what"] for r in rows if r["got"] != r["math"] and not r["what"].startswith("std::is_")]
        facts[key] = {"accepted": True, "calls": len(rows), "traits": {r["what"]: r["got"] for r in rows if r["what"].startswith("std::is_")},
                      "not_the_mathematical_answer": wrong}
        if wrong:
            ctx.drift.append("ADVISORY operands outside the statement's domain: %s are accepted and %d of %d probed calls do not return the comparison of the "
                             "mathematical values, e.g. %s (std::cmp_* reject such operands)" % (key, len(wrong), len(rows) - len(facts[key]["traits"]), wrong[0]))
    ctx.notes["operands_outside_the_statement"] = facts


def describe(l):
    if l["op"] == "R":
        first, second = (NAMES[l["T"]], NAMES[l["U"]]) if l["side"] == 0 else (NAMES[l["U"]], NAMES[l["T"]])
        return "cmp_*(%s, %s) for %s = %s against every value of %s" % (first, second, NAMES[l["T"]], l["c"][0][0], NAMES[l["U"]])
    return "cmp_*(%s, %s)%s" % (NAMES[l["T"]], NAMES[l["U"]], " in a constant expression" if l["op"] == "CE" else "")


def replay(ctx, path):
    if os.path.basename(path).startswith("sa_rows_"):
        cxx = "clang++" if path.endswith("clang++.cpp") else core.CXX
        rc, o = core.sh([cxx, "-std=c++14", "-fsyntax-only", "-I", core.INCLUDE, path], timeout=600)
        if rc == 0:
            print("replay accepted: the compiler accepts the recorded static_assert rows")
            return 0
        print("VIOLATION property=C15 replay=%s\n  %s" % (path, "\n  ".join([l for l in o.splitlines() if "error" in l][:4])))
        return 1
    if os.path.basename(path).startswith(("ce_probe_", "ce_table_")):
        rc, o = core.sh([core.CXX, "-std=c++14", "-fsyntax-only", "-I", core.INCLUDE, "-I", os.path.join(core.HARNESS, "common"), path], timeout=600)
        if rc == 0:
            print("replay accepted: the function is usable in constant expressions")
            return 0
        print("VIOLATION property=C15 replay=%s\n  %s" % (path, "\n  ".join([l for l in o.splitlines() if "error" in l][:4])))
        return 1

    def drv_for(bld):
        if bld in ("ce", "ce-clang"):
            return build_ce(ctx, "clang++" if bld == "ce-clang" else None)
        return build(ctx, bld)
    measure_platform(ctx)
    if determine_types(ctx) is None:
        return 1
    return tables.replay(ctx, path, "IntCmpCheck", "IntCmpCheck.cfg", drv_for, pid="C15")


def selftest(ctx):
    lines = [line(0, 7, [(-1, 0), (5, 5), (127, 200)], False), line(3, 2, [(65535, -1), (7, 7), (0, -32768), (1, 2)], True),
             line(8, 9, [(-1, 1), (0, 0)], False)]
    drv = determine_types(ctx)

    def corrupt(tl, j):
        tl["c"][j][2] ^= 16             # the recorded cmp_less_equal answer
    return tables.selftest_corrupt(ctx, "IntCmpCheck", "IntCmpCheck.cfg", drv, lines, corrupt, (2, 3), pid="C15")


def run(ctx):
    q = ctx.quick
    ctx.notes["platform"] = measure_platform(ctx)
    flavours = ["asan", "O2", "clangO2"] + ([] if q else ["O0"])
    first = determine_types(ctx)
    ctx.notes["operand_types"] = NAMES[:NT]
    if first is None:
        return core.finish(ctx, "exploration", rule="the conformance driver does not build against this tree; no call was made",
                           assumptions=[], exhaustive=False)
    with ThreadPoolExecutor(6) as ex:      # the model-checking run overlaps with compiling the harness
        f1 = ex.submit(core.tlc_model_check, ctx, "IntCmpMC", "IntCmp_mc.cfg" if q else "IntCmp_mc_thorough.cfg",
                       "L1 laws: trichotomy, six answers consistent, two definitions of Less agree, transitivity, ranges",
                       workers=tables.tlc_workers())
        fce = ex.submit(build_ce, ctx)
        fce2 = ex.submit(build_ce, ctx, "clang++") if not q else None
        drvs = {f: d for f, d in zip(flavours[1:], ex.map(lambda f: build(ctx, f), flavours[1:]))}
        drvs["asan"] = first
        sc = scripts(ctx)
        r = f1.result()
        ce, ce2 = fce.result(), (fce2.result() if fce2 else None)
    if r["violated"]:
        raise MachineryError("IntCmp.tla violates its own laws (%s): oracle bug, see %s" % (r["violated"], r["outfile"]))
    if any(d is None for d in drvs.values()):      # the functions cannot be called as the property states: reported by build()
        return core.finish(ctx, "exploration", rule="the conformance driver does not build against this tree; no call was made",
                           assumptions=[], exhaustive=False)
    domain_probe(ctx)
    nrows = static_rows(ctx, [core.CXX] + ([] if q else ["clang++"]))
    ctx.log("static_assert table: %d rows x 6 functions accepted by the compiler(s)" % nrows if not ctx.violations else "static_assert table: rejected assertions (see above)")
    cel = sc.pop("constexpr")
    jobs = []
    for name, lines in sc.items():
        n = (4 if name.startswith("sweep") else 2) if q else (16 if name == "sweep-8x16" else 6)
        k = max(1, (len(lines) + n - 1) // n)
        if name == "sweep-8x16":
            lines = lines[:]
            random.Random(ctx.seed).shuffle(lines)         # balance the tables (a sweep over bool's two values is cheap)
        for i in range(0, len(lines), k):
            jobs.append(tables.Job("%s-%d" % (name, i // k), drvs["asan"], lines[i:i + k], bld="asan"))
    if ce:
        jobs.append(tables.Job("constexpr-0", ce, cel, bld="ce"))
    if ce2:
        jobs.append(tables.Job("constexpr-clang-0", ce2, cel, bld="ce-clang"))
    for f in flavours[1:]:                                 # other builds: pattern pairs, a slice of the grid, the 8x8 sweeps
        for name, lines in (("pattern", sc["pattern"]), ("grid", sc["grid"][flavours.index(f)::6]), ("sweep-8x8", sc["sweep-8x8"])):
            jobs.append(tables.Job("%s-%s-0" % (name, f), drvs[f], lines, bld=f))
    ctx.notes["build_flavours"] = {f: " ".join([FLAVOURS[f].cxx or core.CXX] + FLAVOURS[f].flags + (["-fsanitize=address"] if FLAVOURS[f].asan else [])) for f in flavours}
    npairs = len(list(type_pairs(q)))
    ncases = sum(len(l["c"]) for j in jobs for l in j.lines)
    ctx.log("C->S: %d cases in %d tables, %d ordered type pairs (%d in the constant-expression table), builds %s" % (ncases, len(jobs), npairs, NT * NT, flavours))
    ctx.sample({"script": [str(sc["pattern"][7]["c"][:3]), str(sc["random"][40]["c"][:2])]})
    ok = tables.validate(ctx, "IntCmpCheck", "IntCmpCheck.cfg", jobs, describe=describe)
    swept = sum(len(l["c"]) * (trange(l["U"])[1] - trange(l["U"])[0] + 1) for j in jobs for l in j.lines if l["op"] == "R")
    ctx.cov["distinct_nontrivial"] = ncases
    ctx.cov["evaluations"] = (ok + swept) * 6
    ctx.notes["value_pairs_in_sweeps"] = swept
    ctx.notes["cases_by_family"] = dict({k: sum(len(l["c"]) for l in v) for k, v in sc.items()}, constexpr=sum(len(l["c"]) for l in cel))
    ctx.notes["type_pairs"] = npairs
    ctx.log("TLC accepted %d of %d recorded operand pairs" % (ok, ncases))
    return core.finish(
        ctx, "exploration",
        rule="%d ordered pairs of types out of %s (all 64 pairs of the fixed-width types%s) x 6 functions: boundary grid (min, min+1, -1, 0, 1, max-1, max, "
             "2^k-1, 2^k, 2^k+1 for k in 7,8,15,16,31,32,63, halves) x boundary grid, same-bit-pattern and +-1 neighbour pairs, "
             "seeded random operands; 49 boundary pairs for each of the %d ordered type pairs evaluated in constant expressions; "
             "exhaustive sweeps: every value pair of every ordered pair of the types of at most 8 bits, and %s x every "
             "value of the 16-bit types in both argument orders (%d value pairs swept); one case = one operand pair (or one "
             "sweep) with its six returned booleans compared by TLC with IntCmp.tla; builds %s"
             % (npairs, ", ".join(NAMES[:NT]), "; the other types against every fixed-width type and two of themselves" if q else " and all pairs with the other types",
                NT * NT, "boundary 8-bit values" if q else "every 8-bit value", swept, ", ".join(flavours)),
        assumptions=["the harness projects an operand to [sign, magnitude limbs] by conversion to (u)int64_t",
                     "__int128 is not instantiated: under -std=c++14 (strict) libstdc++ does not regard it as an integer type "
                     "(std::is_signed<__int128> is false) and cmp_less(__int128(-1), (unsigned __int128)1) is false; under -std=gnu++14 "
                     "it is an extended integer type and the answer is right. The quantifier names 8..64 bit types; recorded as an observation",
                     "noexcept of the six functions is not part of the statement and is not checked",
                     "the sweeps compare with TLA+'s own integer comparison (IntLaws: it agrees with the limb definition on every sampled pair)"],
        exhaustive=False)

"""C15 - cmp_* compare integers by mathematical value for every pair of integer types.

 1. TLC: IntCmp.tla (L1: values as [neg, 16-bit limbs]; Less defined twice) - trichotomy, mutual consistency of
    the six answers, transitivity, agreement with TLA+'s < on small integers, type ranges (IntCmpMC.tla).
 2. C->S: the real templates, instantiated for all 8 x 8 ordered pairs of {int,uint}{8,16,32,64}_t x 6 functions,
    run on boundary grids, same-bit-pattern pairs, seeded random operands, exhaustive 8-bit x 8-bit (plus
    8 x 16 bands in the thorough tier); 25 boundary pairs per type pair are evaluated by the compiler in constant
    expressions.  TLC evaluates L1 on every recorded case (IntCmpCheck.tla).
"""
import os, random
from concurrent.futures import ThreadPoolExecutor
from vlib import core, tables
from vlib.core import MachineryError

TYPES = [(True, 8), (False, 8), (True, 16), (False, 16), (True, 32), (False, 32), (True, 64), (False, 64)]
NAMES = ["int8_t", "uint8_t", "int16_t", "uint16_t", "int32_t", "uint32_t", "int64_t", "uint64_t"]
PER_LINE = 128


def trange(t):
    s, b = TYPES[t]
    return (-(1 << (b - 1)), (1 << (b - 1)) - 1) if s else (0, (1 << b) - 1)


def boundary(t):
    lo, hi = trange(t)
    c = {lo, lo + 1, lo + 2, hi - 2, hi - 1, hi, -2, -1, 0, 1, 2, lo // 2, hi // 2, hi // 2 + 1}
    for k in (7, 8, 15, 16, 31, 32, 63):
        for d in (-1, 0, 1):
            c.add((1 << k) + d)
            c.add(-(1 << k) + d)
    return sorted(v for v in c if lo <= v <= hi)


def limbs(v):
    m = abs(v)
    return [1 if v < 0 else 0] + [(m >> (16 * k)) & 0xFFFF for k in range(4)]


def reinterpret(v, t):
    """the value of type t that has the same low bits as v (inputs only: 'same bit pattern' pairs)"""
    s, b = TYPES[t]
    u = v & ((1 << b) - 1)
    return u - (1 << b) if s and u >= (1 << (b - 1)) else u


def rvalue(rnd, t):
    lo, hi = trange(t)
    c = rnd.random()
    if c < 0.4:
        return rnd.randint(lo, hi)
    if c < 0.6:
        return rnd.choice(boundary(t))
    if c < 0.8:      # random magnitude of random bit length
        k = rnd.randrange(0, TYPES[t][1] + 1)
        v = rnd.getrandbits(k) if k else 0
        if TYPES[t][0] and rnd.random() < 0.5:
            v = -v
        return min(max(v, lo), hi)
    return min(max(rnd.choice(boundary(t)) + rnd.randint(-3, 3), lo), hi)


def line(t, u, pairs, small):
    if small:
        return {"op": "P", "T": t, "U": u, "enc": "int", "c": [[a, b] for a, b in pairs]}
    return {"op": "P", "T": t, "U": u, "enc": "limbs", "c": [[limbs(a), limbs(b)] for a, b in pairs]}


def pack(t, u, pairs, per=PER_LINE):
    small = TYPES[t][1] <= 16 and TYPES[u][1] <= 16
    return [line(t, u, pairs[i:i + per], small) for i in range(0, len(pairs), per)]


def scripts(ctx):
    q = ctx.quick
    rnd = random.Random(ctx.seed * 104729 + 15)
    out = {"grid": [], "pattern": [], "random": [], "constexpr": []}
    nrand = 300 if q else 2500
    for t in range(8):
        for u in range(8):
            bt, bu = boundary(t), boundary(u)
            lo_u, hi_u = trange(u)
            # boundary grid: every boundary value of T against every boundary value of U
            out["grid"] += pack(t, u, [(a, b) for a in bt for b in bu])
            # same bit pattern / neighbours of the same mathematical value
            pat = []
            for a in bt + [rvalue(rnd, t) for _ in range(20)]:
                pat.append((a, reinterpret(a, u)))
                for d in (-1, 0, 1):
                    if lo_u <= a + d <= hi_u:
                        pat.append((a, a + d))
            out["pattern"] += pack(t, u, pat)
            pairs = []
            for _ in range(nrand):
                a = rvalue(rnd, t)
                c = rnd.random()
                if c < 0.25:
                    b = reinterpret(a, u)
                elif c < 0.45:
                    b = min(max(a + rnd.randint(-2, 2), lo_u), hi_u)
                else:
                    b = rvalue(rnd, u)
                pairs.append((a, b))
            out["random"] += pack(t, u, pairs)
            out["constexpr"].append({"op": "CE", "T": t, "U": u, "c": [[i, j] for i in range(5) for j in range(5)]})
    # exhaustive: every value pair of the four ordered pairs of 8-bit types
    ex = []
    for t in (0, 1):
        for u in (0, 1):
            (lt, ht), (lu, hu) = trange(t), trange(u)
            for a in range(lt, ht + 1):
                ex.append(line(t, u, [(a, b) for b in range(lu, hu + 1)], True))
    out["exhaustive-8x8"] = ex
    if not q:
        # 8 x 16 and 16 x 8: every 8-bit value against bands of 16-bit values around the boundaries
        bands = []
        for t8 in (0, 1):
            for t16 in (2, 3):
                lo16, hi16 = trange(t16)
                vs = set()
                for c in (lo16, -256, -128, 0, 127, 255, 32767, hi16):
                    vs.update(v for v in range(c - 140, c + 141) if lo16 <= v <= hi16)
                vs = sorted(vs)
                (l8, h8) = trange(t8)
                for a in range(l8, h8 + 1):
                    bands.append(line(t8, t16, [(a, b) for b in vs], True))
                    bands.append(line(t16, t8, [(b, a) for b in vs], True))
        out["bands-8x16"] = bands
    return out


def build(ctx):
    """Build the driver.  If it only compiles without the constant-expression probe, the functions are not
    usable in constant expressions: that is a violation of the property, not a machinery failure."""
    drv = os.path.join(ctx.work, "cmp_driver")
    src = os.path.join(core.HARNESS, "cmp", "driver.cpp")
    rc, o = core.try_build(ctx, src, drv, asan=True)
    if rc == 0:
        return drv, True
    rc2, o2 = core.try_build(ctx, src, drv, flags=["-DNO_CONSTEXPR_PROBE"], asan=True)
    if rc2 != 0:
        raise MachineryError("harness does not compile: %s\n%s" % (src, o2[-5000:]))
    errs = [l for l in o.splitlines() if "error" in l][:6]
    ctx.violation("cmp_* are not usable in constant expressions: harness/cmp/driver.cpp compiles only with -DNO_CONSTEXPR_PROBE: "
                  + " | ".join(errs)[:1500], replay_lines=[{"op": "CE", "T": 0, "U": 7, "c": [[0, 0]]}])
    return drv, False


def describe(l):
    return "cmp_*(%s, %s)%s" % (NAMES[l["T"]], NAMES[l["U"]], " in a constant expression" if l["op"] == "CE" else "")


def replay(ctx, path):
    drv, ce = build(ctx)
    if not ce:
        print("VIOLATION property=C15 replay=%s\n  cmp_* not usable in constant expressions" % path)
        return 1
    return tables.replay(ctx, path, "IntCmpCheck", "IntCmpCheck.cfg", drv, pid="C15")


def selftest(ctx):
    lines = [line(0, 7, [(-1, 0), (5, 5), (127, 200)], False), line(3, 2, [(65535, -1), (7, 7), (0, -32768), (1, 2)], True),
             {"op": "CE", "T": 6, "U": 1, "c": [[0, 4], [2, 2]]}]
    drv, ce = build(ctx)

    def corrupt(tl, j):
        tl["c"][j][2] ^= 16             # the recorded cmp_less_equal answer
    return tables.selftest_corrupt(ctx, "IntCmpCheck", "IntCmpCheck.cfg", drv, lines, corrupt, (2, 3), pid="C15")


def run(ctx):
    q = ctx.quick
    with ThreadPoolExecutor(2) as ex:      # the model-checking run overlaps with compiling the harness
        f1 = ex.submit(core.tlc_model_check, ctx, "IntCmpMC", "IntCmp_mc.cfg" if q else "IntCmp_mc_thorough.cfg",
                       "L1 laws: trichotomy, six answers consistent, two definitions of Less agree, transitivity, ranges",
                       workers=tables.tlc_workers())
        drv, ce = build(ctx)
        sc = scripts(ctx)
        r = f1.result()
    if r["violated"]:
        raise MachineryError("IntCmp.tla violates its own laws (%s): oracle bug, see %s" % (r["violated"], r["outfile"]))
    if not ce:
        sc.pop("constexpr")
    jobs = []
    for name, lines in sc.items():
        n = 1 if name == "constexpr" else (4 if name == "exhaustive-8x8" else 2) if q else 6
        k = max(1, (len(lines) + n - 1) // n)
        for i in range(0, len(lines), k):
            jobs.append(tables.Job("%s-%d" % (name, i // k), drv, lines[i:i + k]))
    ncases = sum(len(l["c"]) for j in jobs for l in j.lines)
    ctx.log("C->S: %d operand pairs (x 6 functions) in %d tables, 64 type pairs" % (ncases, len(jobs)))
    ctx.sample({"script": [str(sc["pattern"][7]["c"][:3]), str(sc["random"][40]["c"][:2])]})
    ok = tables.validate(ctx, "IntCmpCheck", "IntCmpCheck.cfg", jobs, describe=describe)
    ctx.cov["distinct_nontrivial"] = ncases
    ctx.cov["evaluations"] = ok * 6
    ctx.notes["cases_by_family"] = {k: sum(len(l["c"]) for l in v) for k, v in sc.items()}
    ctx.notes["type_pairs"] = 64
    ctx.log("TLC accepted %d of %d recorded operand pairs" % (ok, ncases))
    return core.finish(
        ctx, "exploration",
        rule="all 64 ordered pairs of {int,uint}{8,16,32,64}_t x 6 functions: boundary grid (min, min+1, -1, 0, 1, max-1, max, "
             "2^k-1, 2^k, 2^k+1 for k in 7,8,15,16,31,32,63, halves) x boundary grid, same-bit-pattern and +-1 neighbour pairs, "
             "seeded random operands; 25 boundary pairs per type pair evaluated in constant expressions; exhaustive 8-bit x 8-bit "
             "(4 ordered type pairs x 65 536 value pairs)%s; one case = one operand pair with its six returned booleans compared "
             "by TLC with IntCmp.tla" % ("" if q else "; every 8-bit value x bands (+-140 around 8 boundaries) of 16-bit values, both orders"),
        assumptions=["the harness projects an operand to [sign, magnitude limbs] by conversion to (u)int64_t",
                     "bool, char, wchar_t, char16/32_t, (unsigned) long long and __int128 operands are not instantiated"],
        exhaustive=False)

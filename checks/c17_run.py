"""C17 machinery: compile probes, driver builds (one per part x arity group x build flavour), running
scripts with driver restarts (a crash / CPU limit / lost script closes the trace with a Crash / Desync
event), merged trace validation with capped, de-duplicated and confirmed rejections."""
import json, os, re, shutil, subprocess
from concurrent.futures import ThreadPoolExecutor
from vlib import core
from vlib.core import MachineryError

SRC = os.path.join(core.HARNESS, "dispatch", "driver.cpp")
PART_NO = {"map_dyn": 1, "map_static": 2, "fast_dyn": 3, "fast_static": 4, "static": 5, "visit": 6, "raw": 7, "virt": 8}
PART_OF_KIND = {"map_dyn": "map_dyn", "map_static": "map_static", "fast_dyn": "fast_dyn", "fast_static": "fast_static",
                "raw_map": "raw", "raw_fast": "raw", "vmap_dyn": "virt", "vfast_dyn": "virt"}
FUNCTOR_PARTS = {"map_dyn", "map_static", "fast_dyn", "fast_static", "raw", "virt"}
SMALL_PARTS = {"raw", "virt"}
# short TLC runs (trace validation, enumeration): the C2 compiler costs more CPU than it saves
JENV = {"JAVA_TOOL_OPTIONS": "-XX:TieredStopAtLevel=1 -XX:ParallelGCThreads=2"}
JENV_MC = {"JAVA_TOOL_OPTIONS": "-XX:ParallelGCThreads=2"}

MAX_REJ_PER_FILE = 3      # rejections followed up per validation file
MAX_REPORT = 8            # distinct violations reported (each confirmed by a re-execution and explained)
MAX_RESTARTS = 6          # driver restarts per script after a crash
MAX_HANGS = 4             # calls that ran into the per-call CPU limit before the remaining scripts are given up
_hangs = [0]


def is_small(part, fl):
    return part in SMALL_PARTS or (fl == "noexc" and part in FUNCTOR_PARTS)


def drv_key(kind, ar, bf="asan"):
    """driver that runs executions of this dispatcher kind / arity in this build flavour"""
    return (PART_OF_KIND[kind], 3 if ar == 3 else 12, bf)


def key_of_reset(a):
    """the driver an execution ran on, from its Reset event (replays keep the whole context)"""
    bf = a.get("bf") or ("noexc" if a.get("fl") == "noexc" else "asan")
    if a["kind"] == "none":
        return None, bf
    return drv_key(a["kind"], a["ar"], bf), bf


def build_spec(key):
    part, arp, bf = key
    flags = ["-g0", "-DC17_KIND=%d" % PART_NO[part], "-DC17_AR=%d" % arp]
    if is_small(part, bf):
        flags.append("-DC17_SMALL=1")
    asan, cxx = True, None
    if bf == "noexc":
        flags += ["-DXTL_NO_EXCEPTIONS", "-DC17_FORK=1"]
    elif bf == "clang":
        cxx = "clang++"
    elif bf == "o2":
        flags += ["-O2", "-DNDEBUG"]
        asan = False
    elif bf == "o0":
        flags += ["-O0"]
        asan = False
    return flags, asan, cxx


def build_all(ctx, keys):
    """Build every driver; a driver that does not compile is recorded, not fatal (the compile probes
    decide whether that is a violation).  Returns ({key: path}, {key: compiler output})."""
    built, errs = {}, {}

    def one(key):
        flags, asan, cxx = build_spec(key)
        out = os.path.join(ctx.work, "drv_%s_%d_%s" % key)
        try:
            core.build(ctx, SRC, out, flags, asan, cxx)
            return key, out, None
        except MachineryError as ex:
            return key, None, str(ex)
    with ThreadPoolExecutor(max_workers=core.NCPU) as ex:
        for key, out, err in ex.map(one, sorted(keys)):
            if out:
                built[key] = out
            else:
                errs[key] = err
    return built, errs


def caps_of(drv):
    rc, out = core.sh([drv, "--caps"], timeout=120, env=core.ASAN_ENV)
    try:
        return json.loads(out.strip().splitlines()[-1])
    except Exception:
        raise MachineryError("driver --caps failed: %s" % out[-500:])


# ------------------------------------------------------------------- compile probes
# (file, header, where a row's marker stands relative to the lines it covers)
PROBES = [("probe_mm.cpp", "xmultimethods.hpp", "after"), ("probe_visitor.cpp", "xvisitor.hpp", "after"),
          ("probe_inst.cpp", "xmultimethods.hpp / xvisitor.hpp", "before")]
ADVISORY_ROWS = ("bd",)      # the backends used directly with a user callback type: not named by the property


def run_probe(fn, cxx="g++", mode=None):
    """-> ([(row id, row text, compiler message)] of failing rows, compiler output); [] if the probe compiles"""
    mode = mode or next((m for f, _, m in PROBES if f == fn), "after")
    src = os.path.join(core.HARNESS, "dispatch", fn)
    rc, out = core.sh([cxx, "-std=c++14", "-fsyntax-only", "-Wno-deprecated-declarations", "-I", core.INCLUDE, src], timeout=600)
    if rc == 0:
        return [], out
    with open(src) as f:
        text = f.read().splitlines()
    marks = [(i + 1, m.group(1), m.group(2)) for i, l in enumerate(text) for m in [re.search(r"C17-PROBE (\w+): ([^\"]*)", l)] if m]

    def row_of(ln):
        if mode == "after":
            c = [m for m in marks if m[0] >= ln]
            return c[0] if c else None
        c = [m for m in marks if m[0] <= ln]
        return c[-1] if c else None
    lines = out.splitlines()
    ref = re.compile(re.escape(src) + r":(\d+):\d+")
    err = re.compile(r"^(.*?):(\d+):\d+: (?:fatal )?error: (.*)$")
    rows, pending = {}, []
    for i, l in enumerate(lines):
        me = err.match(l)
        if not me:
            pending += [int(x) for x in ref.findall(l)]
            continue
        ln = None
        if me.group(1) == src:
            ln = int(me.group(2))
        elif pending:
            ln = pending[-1]
        else:                       # clang: the notes that name the probe line follow the error
            for l2 in lines[i + 1:]:
                if err.match(l2):
                    break
                r_ = ref.findall(l2)
                if r_:
                    ln = int(r_[0])
                    break
        pending = []
        mk = row_of(ln) if ln else None
        rid = (mk[1], mk[2]) if mk else ("?", "line %s" % ln)
        rows.setdefault(rid[0], (rid[1], me.group(3)))
    if not rows:
        first = [l for l in lines if "error" in l][:3]
        rows["?"] = ("the probe does not compile", " | ".join(first) or out[-300:])
    return [(k, v[0], v[1]) for k, v in sorted(rows.items())], out


def probes(ctx, cxxs=("g++",)):
    """Compile the probes; every failing row is a violation with a replay (advisory rows: a drift note)."""
    n = 0

    def one(job):
        return job, run_probe(job[0], job[3], job[2])
    jobs = [(fn, hdr, mode, cxx) for fn, hdr, mode in PROBES for cxx in cxxs]
    with ThreadPoolExecutor(max_workers=max(1, min(len(jobs), core.NCPU))) as ex:
        results = list(ex.map(one, jobs))
    for (fn, hdr, mode, cxx), (rows, out) in results:
        adv = [r for r in rows if r[0].startswith(ADVISORY_ROWS)]
        req = [r for r in rows if not r[0].startswith(ADVISORY_ROWS)]
        for rid, text, msg in adv:
            ctx.drift.append("compile probe %s row %s (%s): %s ; compiler: %s" % (fn, rid, cxx, text, msg[:200]))
        if req:
            # one violation per probe file and compiler: the rows of one file usually fail for one reason
            rid, text, msg = req[0]
            ctx.violation("compile probe %s (%s, %s): %d row(s) fail [%s]: a call form the specification enables is missing, does not compile "
                          "or lost its result type; first: %s ; compiler: %s"
                          % (fn, hdr, cxx, len(req), " ".join(r[0] for r in req), text, msg[:300]),
                          replay_lines=[{"op": "Probe", "a": {"file": fn, "row": rid, "cxx": cxx}}])
            n += len(req)
    return n


# ------------------------------------------------------------------- running scripts
def write_script(path, lines):
    with open(path, "w") as f:
        for l in lines:
            f.write((l if isinstance(l, str) else json.dumps(l, separators=(",", ":"))) + "\n")


# AddressSanitizer's detect_stack_use_after_return makes every C++ throw about 10x slower (an unregistered
# cell of the probed table is a throw): the bulk enumerations run without it, everything else with it
ASAN_FAST = dict(core.ASAN_ENV, ASAN_OPTIONS=core.ASAN_ENV["ASAN_OPTIONS"].replace("detect_stack_use_after_return=1", "detect_stack_use_after_return=0"))


def _run_proc(drv, lines, sp, tp, timeout, uar=True):
    write_script(sp, lines)
    env = dict(os.environ)
    env.update(core.ASAN_ENV if uar else ASAN_FAST)
    try:
        with open(sp) as fin, open(tp, "w") as fout:
            p = subprocess.run([drv], stdin=fin, stdout=fout, stderr=subprocess.PIPE, env=env, timeout=timeout)
    except subprocess.TimeoutExpired:
        raise MachineryError("driver %s exceeded the wall-clock limit of %ds on %s (its per-call CPU limit did not fire: "
                             "the machine is overloaded or the driver blocks)" % (os.path.basename(drv), timeout, sp))
    with open(tp) as f:
        got = [l.rstrip("\n") for l in f if l.strip()]
    return p.returncode, got, p.stderr.decode(errors="replace")


def run_script(ctx, drv, lines, base, fresh=False, uar=True, force=False):
    """Run a script (list of call dicts).  Returns (trace lines as strings, number of driver restarts,
    executions not run).  Whatever stops the driver before the end of the script - a crash, a sanitizer
    report, an uncaught exception, the per-call CPU limit, a call it cannot follow - closes the current
    execution with a Crash / Desync event carrying the call in progress, and the driver is restarted on
    the executions after it."""
    from checks.c17_gen import split_executions
    execs = split_executions(lines)
    groups = [[e] for e in execs] if fresh else [execs]
    out, restarts, lost, n = [], 0, 0, 0
    for grp in groups:
        pending = grp
        while pending:
            if _hangs[0] >= MAX_HANGS and not force:      # calls do not return on this tree: the violations found so far are enough
                lost += len(pending)
                break
            flat = [l for e in pending for l in e]
            n += 1
            rc, got, err = _run_proc(drv, flat, "%s-p%d.script" % (base, n), "%s-p%d.out" % (base, n),
                                     timeout=900 + len(flat) // 10, uar=uar)
            crash = None
            ok = []
            for g in got:
                if g.startswith('{"op":"Crash"'):
                    crash = json.loads(g)
                    break
                ok.append(g)
            if len(ok) != len(flat) or rc != 0:
                while ok:                      # a line cut off by the death of the process is not an event
                    try:
                        json.loads(ok[-1])
                        break
                    except ValueError:
                        ok.pop()
            out.extend(ok)
            if len(ok) == len(flat) and rc == 0 and not crash:
                break
            cur = flat[len(ok)] if len(ok) < len(flat) else None
            if rc == 3:
                ev = {"op": "Desync", "why": err.strip()[-300:], "during": cur}
            else:
                why = crash.get("why") if crash else ("exit status %d" % rc)
                key = [l.strip() for l in err.splitlines() if "ERROR: " in l or l.startswith("SUMMARY:")]
                ev = {"op": "Crash", "why": why, "during": cur, "stderr": (" | ".join(key[:3]) if key else err.strip()[-400:])[:600]}
            out.append(json.dumps(ev, separators=(",", ":")))
            # the execution that contains the call in progress is closed; go on after it
            pos, idx = 0, len(pending)
            for i, e in enumerate(pending):
                if pos + len(e) > len(ok):
                    idx = i
                    break
                pos += len(e)
            pending = pending[idx + 1:]
            restarts += 1
            if ev["op"] == "Crash" and ev["why"] == "cpu-limit":
                _hangs[0] += 1
                lost += len(pending)        # a script that ran into a call that does not return is not resumed
                pending = []
            if restarts > MAX_RESTARTS:
                lost += len(pending)
                pending = []
    return out, restarts, lost


# ------------------------------------------------------------------- validation
def pack(ctx, traces, max_events):
    """traces: list of (name, [trace lines]).  Concatenate into few validation files (every execution
    starts with a Reset, so files can be joined); returns list of paths."""
    tdir = ctx.sub("validate")
    files, cur, n = [], [], 0
    for name, lines in traces:
        if cur and n + len(lines) > max_events:
            files.append(cur)
            cur, n = [], 0
        cur.extend(lines)
        n += len(lines)
    if cur:
        files.append(cur)
    paths = []
    for i, ls in enumerate(files):
        p = os.path.join(tdir, "v%02d.ndjson" % i)
        with open(p, "w") as f:
            f.write("\n".join(ls) + "\n")
        paths.append(p)
    return paths


def signature(execution):
    """(build flavour, fl, kind, arity, op, key): the failing call site; reported once"""
    try:
        reset = json.loads(execution[0]).get("a", {})
        ev = json.loads(execution[-1])
    except Exception:
        return ("?",)
    op = ev.get("op")
    if op in ("Crash", "Desync") and isinstance(ev.get("during"), dict):
        ev = dict(ev["during"], op=op + ":" + ev["during"].get("op", "?"))
    a = ev.get("a", {}) if isinstance(ev.get("a"), dict) else {}
    base = (reset.get("bf", "asan"), reset.get("fl", "exc"), reset.get("kind"), reset.get("ar"), ev.get("op"))
    cls = lambda os_: tuple(o // 10 for o in os_)
    if "t" in a:
        key = (a.get("d", 1), tuple(a["t"]))
    elif "lhs" in a:
        key = (tuple(a["lhs"]), tuple(a["rhs"]), a.get("cst"), a.get("cv", "same"), cls(a.get("os", [])))
    elif "os" in a:
        key = (a.get("d", 1), cls(a["os"]))
    elif "m" in a:
        key = (a.get("v"), a["m"], a.get("o", 0) // 10)
    elif "rv" in a:
        key = (a.get("cst"), a["rv"], a.get("o", 0) // 10)
    elif "how" in a:
        key = (a["how"],)
    else:
        key = ()
    return base + (key,)


def validate_files(ctx, paths, module="DispatchTrace", cfg="DispatchTrace.cfg"):
    """Validate the files in parallel TLC processes.  Returns the list of rejections
    [{path, idx, execution (lines incl. the rejected event)}], at most MAX_REJ_PER_FILE per file."""
    def one(path):
        rej, cur, off = [], path, 0
        matched = 0
        for attempt in range(MAX_REJ_PER_FILE + 1):
            r = core.validate_trace(ctx, module, cfg, cur, explain=False, env=JENV,
                                    name="tv-%s-%d" % (os.path.basename(path), attempt))
            matched += r["matched"]
            if r["accepted"]:
                break
            with open(cur) as f:
                lines = [l.rstrip("\n") for l in f if l.strip()]
            idx = r["fail_line"]
            rej.append({"path": path, "idx": off + idx, "execution": core.execution_of(lines, idx)})
            if len(rej) >= MAX_REJ_PER_FILE:
                break
            nxt = idx + 1
            while nxt < len(lines) and not lines[nxt].lstrip().startswith('{"op":"Reset"'):
                nxt += 1
            if nxt >= len(lines):
                break
            off += nxt
            cur = "%s.rest%d" % (path, attempt + 1)
            with open(cur, "w") as f:
                f.write("\n".join(lines[nxt:]) + "\n")
        return matched, rej
    rejs = []
    with ThreadPoolExecutor(max_workers=max(1, core.NCPU // 2)) as ex:
        for matched, rej in ex.map(one, paths):
            ctx.cov["events_validated"] += matched
            rejs.extend(rej)
    return rejs


def select(rejs):
    """De-duplicate by call-site signature and order so that different (flavour, kind, op) come first."""
    seen, uniq = set(), []
    for r in rejs:
        s = signature(r["execution"])
        r["sig"] = s
        if s not in seen:
            seen.add(s)
            uniq.append(r)
    groups = {}
    for r in uniq:
        groups.setdefault(r["sig"][:5], []).append(r)
    order = []
    while any(groups.values()):
        for g in sorted(groups, key=lambda x: json.dumps(x, default=str)):
            if groups[g]:
                order.append(groups[g].pop(0))
    return order, len(uniq)


def calls_of(execution):
    """calls only (what was observed is dropped); a closing Crash / Desync event becomes the call in progress"""
    out = []
    for l in execution:
        d = json.loads(l) if isinstance(l, str) else dict(l)
        if d.get("op") in ("Crash", "Desync"):
            if isinstance(d.get("during"), dict):
                out.append({"op": d["during"]["op"], "a": d["during"]["a"]})
            continue
        out.append({"op": d["op"], "a": d["a"]})
    return out


def confirm(ctx, rej, get_driver, n):
    """Re-execute the failing execution alone in a fresh driver process of the same build flavour and
    validate it again with the explanation switched on.  -> (confirmed, expected text, observed event)"""
    calls = calls_of(rej["execution"])
    reset = calls[0]["a"]
    drv = get_driver(reset)
    base = os.path.join(ctx.sub("confirm"), "c%02d" % n)
    tr, _, _ = run_script(ctx, drv, calls, base, fresh=True, force=True)
    tp = base + ".ndjson"
    with open(tp, "w") as f:
        f.write("\n".join(tr) + "\n")
    r = core.validate_trace(ctx, "DispatchTrace", "DispatchTrace.cfg", tp, explain=True, env=JENV, name="confirm-%02d" % n)
    if r["accepted"]:
        return False, None, None
    ev = tr[r["fail_line"]] if r["fail_line"] < len(tr) else "?"
    return True, r.get("expected", "?"), ev

"""C17 - multimethods and visitors call exactly the handler registered for the dynamic types.

 0. Compile probes (harness/dispatch/probe_*.cpp): every call form the specification enables exists
    with the result type the property needs; a failing row is a violation, evaluated before any
    driver is built.  A driver part that does not build afterwards is skipped (exit 2 only if no
    violation was found at all).
 1. TLC: Dispatch.tla (L1) - registration tables as partial functions from class tuples to handler
    ids, for up to two dispatcher objects of one kind: Insert / Erase / Dispatch / Clone / Take /
    Drop2 for the functor dispatchers (map and fast backends, dynamic and static casters, the
    backends used directly with a user callback type, a hierarchy with a virtual base, 0..3
    undispatched arguments), the static dispatcher (plain and symmetric, is-a matching of unlisted
    classes allowed either way), acyclic visitors (all catch-all policies, visitor hierarchies) and
    cyclic visitors.  Its own theorems (table = last registration in the history / the replayed
    lineage of copies, exactness of dispatch, purity of look-ups, copies are values).
 2. TLC: FastDispatchImpl.tla (L2, transcription of basic_fast_dispatcher: lazily assigned class
    indices shared by all objects, next_index, nested vectors grown on demand, check_size, empty
    std::function cells, member-wise copies) refines Dispatch.tla for every history up to a bound.
 3. S->C: one plan-driven TLC run enumerates every complete history up to a length per dispatcher
    configuration, one every (table, call) transition for small tables, one every call of the
    stateless components, one random walks (-simulate) over 5 classes; all replayed on the real objects.
 4. C->S: seeded random histories (all kinds, arities 1..3, 5 classes, copies), some one per process;
    the upstream tests' own call sequences; XTL_NO_EXCEPTIONS builds (calls isolated in child
    processes, abort = error report); thorough: clang++, -O2 -DNDEBUG and -O0 builds.
 Every recorded event (outcome + probed dispatch tables) is validated by TLC against L1
 (DispatchTrace.tla); a rejection is re-executed alone in a fresh driver process and re-validated
 before it is reported; rejections are de-duplicated by call site and capped.  The fast dispatcher's
 class indices and exception types are validated against L2 (FastDispatchImplTrace) as an advisory
 MODEL-DRIFT check.
"""
import json, os, random, shutil, threading, time
from concurrent.futures import ThreadPoolExecutor
from vlib import core
from vlib.core import MachineryError
from checks import c17_gen as G
from checks import c17_run as R

KINDS = ["map_dyn", "map_static", "fast_dyn", "fast_static"]
XKINDS = ["raw_map", "raw_fast", "vmap_dyn", "vfast_dyn"]
OPS = {"ins": ["insert"], "inser": ["insert", "erase"], "table": ["insert2", "erase", "dispatch"],
       "table_noerase": ["insert2", "dispatch"], "sim": ["insert", "erase", "dispatch", "clone"],
       "sim_noerase": ["insert", "dispatch", "clone"], "tableb": ["insertb", "dispatch"],
       "insernew2": ["insert", "erase", "new2"]}


def plan(kind, ar, nx, k, ops, mh=999, mc=999, clone=False):
    o = list(OPS[ops])
    if clone and "clone" not in o:
        o.append("clone")
    return {"kind": kind, "ar": ar, "nx": nx, "k": k, "ops": o, "mh": mh, "mc": mc}


def plan_run(ctx, name, plans, mode, view, simulate=None, extra=(), timeout=1500, workers=None):
    """One TLC run over several dispatcher configurations (specs/DispatchMC.tla, PSpec): writes a root
    module that defines the plans and its configuration into the scratch directory."""
    d = ctx.sub("cfg")
    for f in ("Dispatch.tla", "DispatchMC.tla"):
        if not os.path.exists(os.path.join(d, f)):
            shutil.copy(os.path.join(core.SPECS, f), os.path.join(d, f))
    seen = set()
    recs = []
    for p in plans:
        c = (p["kind"], p["ar"], p["nx"], p["k"])
        if c in seen:
            raise MachineryError("two S->C plans with the same configuration %s" % (c,))
        seen.add(c)
        recs.append('[cfg |-> [kind |-> "%s", ar |-> %d, nx |-> %d, k |-> %d, fl |-> "exc"], mh |-> %d, mc |-> %d, ops |-> {%s}]'
                    % (p["kind"], p["ar"], p["nx"], p["k"], p["mh"], p["mc"], ", ".join('"%s"' % o for o in p["ops"])))
    mod = "C17Run_" + name
    with open(os.path.join(d, mod + ".tla"), "w") as f:
        f.write("---- MODULE %s ----\nEXTENDS DispatchMC\nRunPlans == {\n  %s }\n====\n" % (mod, ",\n  ".join(recs)))
    txt = ["SPECIFICATION PSpec", "CONSTANTS", "  Kinds <- KNone", "  Arities = {}", "  NXs = {}", "  K = 1", "  MaxHist = 0",
           "  MaxCells = 0", "  OpClasses <- OpsHistIns", "  EmitMode <- %s" % mode, "  Plans <- RunPlans", "CONSTRAINT PBound"]
    if mode != "ModeNone":
        txt.append("ACTION_CONSTRAINT PEmit")
    if view:
        txt.append("VIEW " + view)
    with open(os.path.join(d, mod + ".cfg"), "w") as f:
        f.write("\n".join(txt) + "\n")
    r = core.tlc(ctx, mod, mod + ".cfg", name="s2c-" + name, heap="6g", timeout=timeout, workers=workers or min(4, core.NCPU),
                 specdir=d, simulate=simulate, extra=list(extra), env=R.JENV_MC)
    if r["violated"]:
        raise MachineryError("S->C enumeration %s failed: %s" % (name, r["outfile"]))
    return r


class Stages:
    """CPU seconds (this process and its children) per stage, for the evidence file"""

    def __init__(self, ctx):
        self.ctx, self.last = ctx, self.now()
        ctx.notes["cpu_by_stage"] = {}

    @staticmethod
    def now():
        t = os.times()
        return t.user + t.system + t.children_user + t.children_system

    def done(self, name):
        n = self.now()
        self.ctx.notes["cpu_by_stage"][name] = round(n - self.last, 1)
        self.last = n


def edge_plans(q, can_erase):
    def tops(kind):
        return "table" if can_erase(kind) else "table_noerase"
    if q:
        return [plan("map_dyn", 2, 1, 3, "table", mc=1), plan("fast_static", 2, 1, 3, tops("fast_static"), mc=1),
                plan("map_static", 1, 3, 3, "table", mc=2), plan("raw_map", 1, 0, 3, "table", mc=2), plan("vfast_dyn", 2, 1, 2, tops("vfast_dyn"), mc=1),
                plan("fast_dyn", 2, 1, 2, "tableb", mc=2), plan("map_dyn", 1, 0, 3, "tableb", mc=2)]
    return [plan("map_dyn", 2, 1, 3, "table", mc=2), plan("fast_static", 2, 1, 3, tops("fast_static"), mc=2),
            plan("map_static", 2, 2, 3, "table", mc=2), plan("fast_dyn", 2, 0, 3, tops("fast_dyn"), mc=2),
            plan("map_dyn", 1, 1, 4, "table", mc=4), plan("fast_dyn", 1, 3, 4, tops("fast_dyn"), mc=3),
            plan("map_static", 3, 0, 2, "table", mc=2), plan("fast_static", 3, 1, 2, tops("fast_static"), mc=2),
            plan("raw_map", 2, 1, 3, "table", mc=2), plan("raw_fast", 1, 0, 4, tops("raw_fast"), mc=3),
            plan("vmap_dyn", 2, 1, 3, "table", mc=1), plan("vfast_dyn", 2, 1, 3, tops("vfast_dyn"), mc=2),
            plan("fast_dyn", 2, 2, 2, "tableb", mc=3), plan("map_dyn", 1, 0, 3, "tableb", mc=3), plan("fast_static", 1, 1, 3, "tableb", mc=3),
            plan("map_static", 2, 0, 2, "tableb", mc=3), plan("vmap_dyn", 1, 0, 3, "tableb", mc=2)]


def sim_plans(ctx, q, can_erase, can_copy):
    splans = []
    for kind in KINDS:
        for ar, nx, k in ((1, 3, 5), (2, 0, 5), (2, 1, 5), (2, 2, 5)) + (() if q else ((3, 0, 3), (3, 1, 3))):
            splans.append(plan(kind, ar, nx, k, "sim" if can_erase(kind) else "sim_noerase"))
    if not can_copy:
        for p in splans:
            p["ops"] = [o for o in p["ops"] if o != "clone"]
    return splans, ctx.sub("sim")


def chunked(cfg, calls, bf=None, n=40):
    """stateless calls as many short executions (a rejection ends the validation of its execution only)"""
    out = []
    for i in range(0, len(calls), n):
        out.append(G.reset_ev(cfg, bf))
        out.extend(calls[i:i + n])
    return out


def part_of_calls(calls):
    ops = {c["op"] for c in calls}
    return "static" if ops & {"Static", "StaticSym"} else "visit"


# ------------------------------------------------------------------- replay
def replay(ctx, path):
    """./verif replay C17 <file>: re-run the recorded calls on the current tree (same dispatcher kind,
    arity, build flavour) and validate; a Probe line re-compiles the probe."""
    lines = [l for l in core.read_ndjson(path) if "_meta" not in l]
    if lines and lines[0].get("op") == "Probe":
        a = lines[0]["a"]
        rows, out = R.run_probe(a["file"], a.get("cxx", "g++"))
        bad = [r for r in rows if r[0] == a["row"]] or rows
        if not bad:
            print("replay accepted: %s compiles, every row holds" % a["file"])
            return 0
        print("VIOLATION property=C17 replay=%s" % path)
        for rid, text, msg in bad:
            print("  probe row %s fails: %s ; compiler: %s" % (rid, text, msg[:300]))
        return 1
    calls = R.calls_of(lines)
    key, bf = R.key_of_reset(calls[0]["a"])
    if key is None:
        key = (part_of_calls(calls), 12, bf)
    built, errs = R.build_all(ctx, {key})
    if key not in built:
        raise MachineryError("the driver for this replay does not build: %s" % errs.get(key, "")[-1500:])
    tr, _, _ = R.run_script(ctx, built[key], calls, os.path.join(ctx.work, "replay"), fresh=True, force=True)
    tp = os.path.join(ctx.work, "replay.ndjson")
    with open(tp, "w") as f:
        f.write("\n".join(tr) + "\n")
    r = core.validate_trace(ctx, "DispatchTrace", "DispatchTrace.cfg", tp, env=R.JENV)
    if r["accepted"]:
        print("replay accepted: the recorded calls now conform to Dispatch.tla")
        return 0
    print("VIOLATION property=C17 replay=%s" % path)
    print("  rejected at event %d: %s ; spec expected: %s" % (r["fail_line"] + 1, tr[r["fail_line"]][:600] if r["fail_line"] < len(tr) else "?", r.get("expected")))
    return 1


# ------------------------------------------------------------------- the check
def run(ctx):
    q = ctx.quick
    rnd = random.Random(ctx.seed)
    findings = core.load_findings("C17")
    t_cpu0 = os.times()
    have_clang = shutil.which("clang++") is not None
    stg = Stages(ctx)

    # ---- 0. compile probes: evaluated before any driver is built
    nprobe = R.probes(ctx, ("g++",) if q or not have_clang else ("g++", "clang++"))
    ctx.log("compile probes: %d failing rows" % nprobe)
    ctx.notes["probe_rows_failing"] = nprobe

    # ---- build the harnesses from the working tree (in the background, while TLC runs)
    want = {(k, 12, "asan") for k in KINDS} | {("static", 12, "asan"), ("visit", 12, "asan"), ("raw", 12, "asan"), ("virt", 12, "asan"),
                                                  ("fast_static", 3, "asan"),
                                                  ("visit", 12, "noexc"), ("fast_static", 12, "noexc")}
    if not q:
        want |= {(k, 3, "asan") for k in KINDS}
        want |= {("map_dyn", 12, "noexc"), ("static", 12, "noexc"), ("raw", 12, "noexc")}
        want |= {(k, 12, "o2") for k in KINDS} | {("static", 12, "o2"), ("visit", 12, "o2"), ("fast_static", 12, "o0"), ("visit", 12, "o0")}
        if have_clang:
            want |= {(k, 12, "clang") for k in KINDS} | {("static", 12, "clang"), ("visit", 12, "clang"), ("raw", 12, "clang"), ("virt", 12, "clang")}
    built, berrs = {}, {}
    bexc = []

    def bg_build():
        try:
            b, e = R.build_all(ctx, want)
            built.update(b)
            berrs.update(e)
        except Exception as ex:      # reported from the main thread
            bexc.append(ex)
    bt = threading.Thread(target=bg_build)
    bt.start()

    try:
        # ---- 1. L1 model checking (the oracle's own theorems), 2. L2 => L1
        actcov = {}

        def add_cov(r):
            for k, v in r.get("coverage", {}).items():
                if k.startswith("N") or k in ("Insert", "Erase", "Dispatch", "Clone", "Take", "Drop2", "New2", "Static", "StaticSym", "Accept", "Cyclic"):
                    c = actcov.setdefault(k, [0, 0])
                    c[0] += v[0]
                    c[1] += v[1]
        mc_jobs = [("DispatchMC", "Dispatch_mc.cfg" if q else "Dispatch_mc_thorough.cfg", "L1 tables x every call: exactness, purity, one-cell updates%s" % (", copies are values (two objects)" if q else " (one object, 3 classes, arities 1..3)"), True),
                   ("DispatchMC", "Dispatch_mc_hist.cfg" if q else "Dispatch_mc_hist_thorough.cfg", "L1 histories: tables = last registration per tuple / replayed lineage of copies", True),
                   ("DispatchMC", "Dispatch_mc_beh.cfg" if q else "Dispatch_mc_beh_thorough.cfg", "L1 tables x every call with plain / throwing / nesting handlers and an independent second object: exactness incl. the nested call", True),
                   ("DispatchMC", "Dispatch_mc_hist_new2.cfg", "L1 histories with independently constructed second objects", True)]

        if not q:
            mc_jobs.append(("DispatchMC", "Dispatch_mc_thorough_clone.cfg", "L1 tables x every call with two objects and copies (2 classes, <= 3 registered tuples each)", True))

        def mc(job):
            mod, cfg, what, cov = job
            return job, core.tlc_model_check(ctx, mod, cfg, what, coverage=(cov and not q), workers=min(4, core.NCPU), env=R.JENV_MC, timeout=3000)
        with ThreadPoolExecutor(max_workers=max(1, core.NCPU // 4)) as ex:
            for job, r in ex.map(mc, mc_jobs):
                if r["violated"]:
                    raise MachineryError("L1 spec Dispatch.tla violates its own theorem %s (oracle bug), see %s" % (r["violated"], r["outfile"]))
                add_cov(r)
        r = core.tlc(ctx, "DispatchMC", "Dispatch_stateless.cfg", name="stateless-enumerate", workers=min(4, core.NCPU), coverage=not q, env=R.JENV)
        if r["violated"]:
            raise MachineryError("L1 spec Dispatch.tla violates its own theorem %s on the stateless calls, see %s" % (r["violated"], r["outfile"]))
        add_cov(r)
        stateless = {}
        for e in G.emitted(r["out"], "@E@"):
            stateless[json.dumps(e["l"], sort_keys=True)] = e["l"]
        stateless = [stateless[k] for k in sorted(stateless)]
        ctx.cov["states"] += r["distinct"]
        ctx.cov["transitions"] += r["generated"]
        ctx.notes["s2c_stateless_calls"] = len(stateless)
    finally:
        bt.join()
    stg.done("probes + driver builds + L1 model checking + stateless enumeration")
    if bexc:
        raise bexc[0]
    for key in sorted(berrs):
        ctx.log("driver %s does not build against this tree; its scripts are skipped" % (key,))
    ctx.notes["drivers_built"] = len(built)
    ctx.notes["drivers_not_building"] = ["%s/%d/%s" % k for k in sorted(berrs)]

    def finish_unbuildable():
        # nothing more can be run: report what the probes found, or the machinery failure
        if ctx.violations:
            return finish(ctx, q, t_cpu0, {}, note="no conformance driver builds against this tree; only the compile probes were evaluated")
        k0 = sorted(berrs)[0]
        raise MachineryError("no conformance driver builds and no compile probe failed: %s\n%s" % (k0, berrs[k0][-3000:]))
    if not built:
        return finish_unbuildable()

    # what this tree's library offers is probed at compile time (SFINAE in the driver), not assumed:
    # basic_fast_dispatcher has no erase member today, so the fast dispatchers' histories contain no
    # Erase; if a later tree gains one, the insert+erase histories and the L2 erase configurations
    # are used automatically.  Copying dispatchers is not part of the property: used if available.
    caps = {"fast_erase": False, "map_erase": True, "copyable": True}
    if ("fast_static", 12, "asan") in built:
        c = R.caps_of(built[("fast_static", 12, "asan")])
        caps["fast_erase"] = bool(c.get("fast_erase"))
        caps["copyable"] = bool(c.get("copyable"))
    if ("map_dyn", 12, "asan") in built:
        c = R.caps_of(built[("map_dyn", 12, "asan")])
        caps["map_erase"] = bool(c.get("map_erase"))
        caps["copyable"] = caps["copyable"] and bool(c.get("copyable"))
    fast_erase, can_copy = caps["fast_erase"], caps["copyable"]
    ctx.notes["library_offers"] = caps
    ctx.log("library offers: %s" % caps)

    def can_erase(kind):
        return fast_erase if kind in G.FAST_KINDS else caps["map_erase"]

    def hops(kind):
        return "inser" if can_erase(kind) else "ins"

    # ---- 2. L2 => L1 refinement of the fast dispatcher
    er = "_erase" if fast_erase else ""
    l2cfgs = [("FastDispatchImpl_mc%s.cfg" % er, "L2 (lazy class indices, nested vectors, check_size) refines L1; no cell aliasing"),
              ("FastDispatchImpl_mc_copies%s.cfg" % er, "L2 with member-wise copies sharing the static class indices refines L1")]
    if not q:
        l2cfgs += [("FastDispatchImpl_mc4%s.cfg" % er, "L2 refines L1, histories <= 4 over 3 classes"),
                   ("FastDispatchImpl_mc3%s.cfg" % er, "L2 refines L1 at arity 3 and arity 1"),
                   ("FastDispatchImpl_mc_copies_thorough%s.cfg" % er, "L2 with copies refines L1, 3 classes")]
        if not fast_erase:
            l2cfgs.append(("FastDispatchImpl_mc_thorough.cfg", "L2 refines L1, histories <= 5 over 3 classes"))

    def l2(job):
        return core.tlc_model_check(ctx, "FastDispatchImpl", job[0], job[1], workers=min(4, core.NCPU), env=R.JENV_MC, timeout=3000)
    with ThreadPoolExecutor(max_workers=max(1, core.NCPU // 4)) as ex:
        for r2 in ex.map(l2, l2cfgs):
            if r2["violated"]:
                ctx.drift.append("FastDispatchImpl.tla does not refine Dispatch.tla (%s, %s); see %s" % (r2["cfg"], r2["violated"], r2["outfile"]))

    stg.done("L2 refinement")
    scripts = []      # dict(name, key, lines, fresh)

    def add(name, key, lines, fresh=False):
        if not lines:
            return
        if key not in built:
            ctx.notes.setdefault("scripts_skipped_driver_missing", []).append(name)
            return
        scripts.append({"name": name, "key": key, "lines": lines, "fresh": fresh})

    # ---- 3a. S->C: every complete history up to a length, per dispatcher configuration (one TLC run)
    cl = can_copy
    if q:
        hplans = [plan("fast_static", 2, 1, 3, hops("fast_static"), 4), plan("fast_dyn", 2, 0, 3, hops("fast_dyn"), 3),
                  plan("map_dyn", 2, 2, 2, "inser", 3), plan("map_static", 2, 0, 3, "inser", 2),
                  plan("fast_static", 1, 1, 4, hops("fast_static"), 3), plan("map_dyn", 1, 0, 3, "inser", 3),
                  plan("fast_static", 3, 0, 2, hops("fast_static"), 3),
                  plan("raw_fast", 2, 1, 3, hops("raw_fast"), 3), plan("raw_map", 1, 0, 3, "inser", 3),
                  plan("vfast_dyn", 2, 1, 3, hops("vfast_dyn"), 3), plan("vmap_dyn", 1, 0, 3, "inser", 2),
                  plan("map_static", 1, 1, 2, "insernew2", 3)]
        if cl:
            hplans += [plan("map_dyn", 2, 1, 2, "inser", 3, clone=True), plan("fast_static", 2, 1, 2, hops("fast_static"), 3, clone=True),
                       plan("fast_dyn", 1, 0, 3, hops("fast_dyn"), 3, clone=True)]
    else:
        hplans = [plan("fast_static", 2, 1, 3, hops("fast_static"), 5), plan("fast_dyn", 2, 0, 3, hops("fast_dyn"), 4),
                  plan("fast_dyn", 2, 2, 4, hops("fast_dyn"), 3), plan("fast_static", 2, 0, 4, hops("fast_static"), 3),
                  plan("map_dyn", 2, 2, 3, "inser", 3), plan("map_static", 2, 0, 3, "inser", 3),
                  plan("map_dyn", 2, 0, 2, "inser", 4), plan("map_static", 2, 1, 4, "ins", 3),
                  plan("fast_static", 1, 1, 4, hops("fast_static"), 4), plan("fast_dyn", 1, 0, 4, hops("fast_dyn"), 4),
                  plan("map_dyn", 1, 0, 3, "inser", 4), plan("map_static", 1, 1, 3, "inser", 4), plan("map_dyn", 1, 3, 2, "inser", 3),
                  plan("map_dyn", 3, 0, 3, "ins", 2), plan("map_static", 3, 1, 2, "inser", 3),
                  plan("fast_static", 3, 0, 3, hops("fast_static"), 3), plan("fast_dyn", 3, 1, 2, hops("fast_dyn"), 4),
                  plan("raw_fast", 2, 1, 3, hops("raw_fast"), 4), plan("raw_map", 2, 1, 2, "inser", 3), plan("raw_map", 1, 0, 3, "inser", 3),
                  plan("vfast_dyn", 2, 1, 3, hops("vfast_dyn"), 4), plan("vmap_dyn", 2, 1, 2, "inser", 3), plan("vfast_dyn", 1, 0, 5, hops("vfast_dyn"), 3),
                  plan("map_static", 1, 1, 2, "insernew2", 4), plan("map_dyn", 2, 1, 2, "insernew2", 3)]
        if cl:
            hplans += [plan("map_dyn", 2, 1, 2, "inser", 4, clone=True), plan("fast_static", 2, 1, 2, hops("fast_static"), 4, clone=True),
                       plan("fast_dyn", 1, 0, 3, hops("fast_dyn"), 4, clone=True), plan("map_static", 1, 0, 2, "inser", 4, clone=True),
                       plan("raw_fast", 2, 1, 2, hops("raw_fast"), 3, clone=True), plan("vfast_dyn", 1, 0, 3, hops("vfast_dyn"), 3, clone=True)]
    # small builds only have (arity 1, no extras) and (arity 2, one extra)
    for p in hplans:
        if R.PART_OF_KIND[p["kind"]] in R.SMALL_PARTS and (p["ar"], p["nx"]) not in G.SMALL_COMBOS:
            raise MachineryError("plan %s uses a combination the small driver build lacks" % p)
    enum = ThreadPoolExecutor(max_workers=3 if core.NCPU >= 8 else 1)      # the three enumerations are independent
    f_edges = enum.submit(lambda: plan_run(ctx, "edges", edge_plans(q, can_erase), "ModeEdges", "absvars"))
    splans, simdir = sim_plans(ctx, q, can_erase, can_copy)
    f_sim = enum.submit(lambda: plan_run(ctx, "sim", splans, "ModeNone", None, simulate="file=%s/t,num=%d" % (simdir, 120 if q else 600),
                                         extra=["-depth", "25" if q else "40", "-seed", str(ctx.seed)], workers=1))
    rh = plan_run(ctx, "hist", hplans, "ModeHist", "histvars")
    hs = G.emitted(rh["out"], "@H@")
    rh["out"] = ""
    hs.sort(key=lambda h: json.dumps(h, sort_keys=True))      # TLC's output order depends on its worker threads
    ctx.cov["states"] += rh["distinct"]
    ctx.cov["transitions"] += rh["generated"]
    by_cfg = G.hist_scripts(hs, rnd, 1)
    plan_notes, nhist = [], 0
    for i, p in enumerate(hplans):
        ck = json.dumps({"kind": p["kind"], "ar": p["ar"], "nx": p["nx"], "k": p["k"], "fl": "exc"}, sort_keys=True)
        execs = by_cfg.get(ck, [])
        nhist += len(execs)
        plan_notes.append("%s arity %d, %d extras, %d classes, %s, length %d: %d histories" % (
            p["kind"], p["ar"], p["nx"], p["k"], "+".join(p["ops"]), p["mh"], len(execs)))
        add("hist-%02d-%s" % (i, p["kind"]), R.drv_key(p["kind"], p["ar"]), [l for e in execs for l in e])
    ctx.log("S->C: %d complete histories over %d dispatcher configurations (%d states)" % (nhist, len(hplans), rh["distinct"]))
    ctx.notes["s2c_histories_replayed"] = nhist
    ctx.notes["s2c_history_plans"] = plan_notes

    # ---- 3b. S->C: every (table, call) transition for small tables (one TLC run)
    re_ = f_edges.result()
    es = G.emitted(re_["out"], "@E@")
    re_["out"] = ""
    ctx.cov["states"] += re_["distinct"]
    ctx.cov["transitions"] += re_["generated"]
    ntaken = 0
    for ck, (lines, taken) in sorted(G.edge_scripts(es, rnd, can_erase).items()):
        cfg = json.loads(ck)
        ntaken += taken
        add("edges-%s-%d-%d" % (cfg["kind"], cfg["ar"], cfg["nx"]), R.drv_key(cfg["kind"], cfg["ar"]), lines)
    ctx.log("S->C: %d (table, call) transitions enumerated by TLC, %d replayed" % (len(es), ntaken))
    ctx.notes["s2c_transitions_enumerated"] = len(es)
    ctx.notes["s2c_transitions_replayed"] = ntaken

    # ---- 3c. S->C: every call of the stateless components (static dispatcher, visitors)
    none_cfg = {"kind": "none", "ar": 1, "nx": 0, "k": 1, "fl": "exc"}
    st_calls = [c for c in stateless if c["op"] in ("Static", "StaticSym")]
    vi_calls = [c for c in stateless if c["op"] in ("Accept", "Cyclic")]
    add("stateless-static", ("static", 12, "asan"), chunked(none_cfg, st_calls))
    add("stateless-visit", ("visit", 12, "asan"), chunked(none_cfg, vi_calls))

    # ---- 3d. TLC simulation walks over 5 classes (longer histories, copies included)
    f_sim.result()
    enum.shutdown()
    by_cfg, nwalks = G.sim_scripts(simdir)
    for ck in sorted(by_cfg):
        cfg = json.loads(ck)
        add("sim-%s-%d-%d" % (cfg["kind"], cfg["ar"], cfg["nx"]), R.drv_key(cfg["kind"], cfg["ar"]), [l for e in by_cfg[ck] for l in e])
    ctx.notes["s2c_simulation_walks"] = nwalks
    ctx.log("S->C: %d TLC simulation walks over 5 classes" % nwalks)

    stg.done("S->C enumeration (histories, transitions, walks)")
    # ---- 4. C->S: seeded random histories, all kinds; a share of them one execution per process
    for kind in KINDS:
        r2_ = random.Random(ctx.seed * 7919 + R.PART_NO[kind])
        add("rnd-%s" % kind, (kind, 12, "asan"), G.random_script(r2_, kind, can_erase(kind), can_copy, 40 if q else 400, 40, [1, 2]))
        add("rndproc-%s" % kind, (kind, 12, "asan"), G.random_script(r2_, kind, can_erase(kind), can_copy, 12 if q else 60, 30, [1, 2]), fresh=True)
        if (kind, 3, "asan") in want:
            add("rnd3-%s" % kind, (kind, 3, "asan"), G.random_script(r2_, kind, can_erase(kind), can_copy, 12 if q else 80, 40, [3]))
    for kind in XKINDS:
        r2_ = random.Random(ctx.seed * 7919 + 100 + XKINDS.index(kind))
        add("rnd-%s" % kind, R.drv_key(kind, 2), G.random_script(r2_, kind, can_erase(kind), can_copy, 15 if q else 150, 30, [1, 2], small=True))
    # handler behaviours: handlers that throw a user exception, handlers that dispatch again through the same object;
    # map kinds: independently constructed second objects among the copies
    for kind in KINDS + ["vmap_dyn", "vfast_dyn"]:
        r2_ = random.Random(ctx.seed * 6151 + 300 + len(kind) + R.PART_NO[R.PART_OF_KIND[kind]])
        sm = kind in XKINDS
        add("beh-%s" % kind, R.drv_key(kind, 2), G.random_script(r2_, kind, can_erase(kind), can_copy, 25 if q else 250, 30, [1, 2], small=sm, kmax=4,
                                                                  beh=G.BEH_IDS, new2=kind not in G.FAST_KINDS))
        if (kind, 3, "asan") in want:
            add("beh3-%s" % kind, (kind, 3, "asan"), G.random_script(r2_, kind, can_erase(kind), can_copy, 8 if q else 60, 30, [3], beh=G.BEH_IDS))
        # advisory (not covered by the statement): handlers that register in the dispatcher they are called through
        add("adv-reg-%s" % kind, R.drv_key(kind, 2), G.random_script(r2_, kind, can_erase(kind), False, 10 if q else 80, 24, [1, 2], small=sm, kmax=3,
                                                                      beh=G.REG_IDS + G.BEH_IDS))
    # the upstream tests' own call sequences, everything logged and validated
    for kind, lines in sorted(G.upstream_scripts().items()):
        add("upstream-%s" % kind, (kind, 12, "asan"), lines)
    add("upstream-visitors", ("visit", 12, "asan"), G.upstream_visitor_script())

    # XTL_NO_EXCEPTIONS builds (XTL_THROW prints and aborts): every call that may report an error runs
    # in a child process of the driver; registered dispatches, on_error and the catch-all policies
    # must be unchanged, an unregistered tuple / throwing catch-all is the outcome "abort"
    nx_cfg = dict(none_cfg, fl="noexc")
    r3_ = random.Random(ctx.seed * 104729 + 1)
    vsel = vi_calls if not q else [c for c in vi_calls if c["op"] == "Cyclic" or r3_.random() < 0.5]
    add("noexc-visit", ("visit", 12, "noexc"), chunked(nx_cfg, vsel))
    for kind in ["fast_static"] + ([] if q else ["map_dyn", "raw_fast"]):
        lines = G.random_script(r3_, kind, can_erase(kind), can_copy, 14 if q else 60, 14, [1, 2], fl="noexc", small=True, kmax=3)
        add("noexc-%s" % kind, R.drv_key(kind, 2, "noexc"), lines)
    if not q:
        add("noexc-static", ("static", 12, "noexc"), chunked(nx_cfg, st_calls))

    # other compilers / optimisation levels (thorough): the random scripts and the stateless menus again
    if not q:
        for bf in ["o2", "o0"] + (["clang"] if have_clang else []):
            for part in sorted({k[0] for k in want if k[2] == bf}):
                r4_ = random.Random(ctx.seed * 15485863 + sum(map(ord, bf + part)))
                if part == "static":
                    add("%s-static" % bf, (part, 12, bf), chunked(none_cfg, st_calls, bf))
                elif part == "visit":
                    add("%s-visit" % bf, (part, 12, bf), chunked(none_cfg, vi_calls, bf))
                else:
                    for kind in sorted(k for k, p in R.PART_OF_KIND.items() if p == part):
                        add("%s-rnd-%s" % (bf, kind), (part, 12, bf),
                            G.random_script(r4_, kind, can_erase(kind), can_copy, 120, 40, [1, 2], bf=bf, small=R.is_small(part, bf)))

    # ---- probes for open known findings (tiny scripts that must still fail)
    for fnd in findings:
        if "probe" in fnd:
            add("probe-" + fnd["id"], R.drv_key(fnd["probe"].get("kind", "map_dyn"), 2), fnd["probe"]["script"])

    # ---- run the harness
    ctx.log("running %d scripts on the real dispatchers (%d drivers)" % (len(scripts), len(built)))
    tdir = ctx.sub("traces")

    def run_job(s):
        bulk = s["name"].startswith(("hist-", "edges-"))
        return R.run_script(ctx, built[s["key"]], s["lines"], os.path.join(tdir, s["name"]), fresh=s["fresh"], uar=not bulk)
    traces, fast_traces, adv_traces = [], [], []
    nevents = nrestarts = nlost = 0
    with ThreadPoolExecutor(max_workers=max(2, core.NCPU // 2)) as ex:
        for s, (tr, restarts, lost) in zip(scripts, ex.map(run_job, scripts)):
            if s["name"].startswith("adv-"):
                adv_traces.append((s["name"], tr))
            else:
                traces.append((s["name"], tr))
            if s["key"][0] in ("fast_dyn", "fast_static") and s["key"][2] == "asan" and s["name"].startswith(("hist", "rnd", "sim")):
                fast_traces.append(tr)
            nevents += len(tr)
            nrestarts += restarts
            nlost += lost
            ctx.cov["traces_validated_against_impl"] += sum(1 for l in s["lines"] if l["op"] == "Reset")
    stg.done("running the drivers")
    ctx.log("harness: %d events recorded from %d scripts (%d driver restarts after a crash, %d executions not run)" % (nevents, len(scripts), nrestarts, nlost))
    ctx.notes["driver_restarts"] = nrestarts
    ctx.notes["executions_not_run"] = nlost
    for nm in ("hist-00-fast_static", "stateless-static"):
        for s in scripts:
            if s["name"] == nm:
                ctx.sample({"script": [json.dumps(x) for x in s["lines"][:8]]})

    # ---- validate every trace against L1 (few large files), then confirm and report the rejections
    paths = R.pack(ctx, traces, 30000 if q else 60000)
    rejs = R.validate_files(ctx, paths)
    ctx.cov["evaluations"] = ctx.cov["events_validated"]
    ctx.log("validated %d events in %d files (%d executions) against Dispatch.tla; %d rejections followed up" % (
        ctx.cov["events_validated"], len(paths), ctx.cov["traces_validated_against_impl"], len(rejs)))
    stg.done("trace validation against L1")
    report(ctx, rejs, built, findings)
    stg.done("confirmation of rejections")
    advisory_stages(ctx, q, adv_traces, built, have_clang)
    stg.done("advisory stages (re-entrant registration, two fast dispatchers, hierarchy generators)")

    # ---- advisory: class indices / exception types of the fast dispatcher against L2
    if not ctx.violations and fast_traces:
        cap = 6000 if q else 60000
        sel = []
        for tr in fast_traces:
            take = tr[:max(0, cap // len(fast_traces))]
            # cut at an execution boundary
            while take and len(take) < len(tr) and not tr[len(take)].startswith('{"op":"Reset"'):
                take.pop()
            sel.extend(take)
        p = os.path.join(ctx.sub("validate"), "l2.ndjson")
        with open(p, "w") as f:
            f.write("\n".join(sel) + "\n")
        rr = core.validate_trace(ctx, "FastDispatchImplTrace", "FastDispatchImplTrace.cfg", p, name="l2-advisory", explain=False, env=R.JENV)
        if not rr["accepted"]:
            ctx.drift.append("FastDispatchImpl.tla no longer describes the code: event %d of %s (class indices / exception type differ): %s"
                             % (rr["fail_line"] + 1, p, sel[rr["fail_line"]][:300] if rr["fail_line"] < len(sel) else "?"))
        ctx.notes["l2_events_validated"] = rr["matched"]
        ctx.log("validated %d fast-dispatcher events against FastDispatchImpl.tla (advisory)" % rr["matched"])

    stg.done("advisory L2 trace validation")
    if not q:
        ctx.notes["l1_action_coverage"] = actcov
        ctx.notes["vacuous_actions"] = sorted(k for k in ("NInsert2", "NErase", "NDispatch", "NClone", "NTake", "NDrop2", "NStatic", "NStaticSym", "NAccept", "NCyclic")
                                              if actcov.get(k, [0, 0])[1] == 0)
    # a driver part that does not build although no probe row failed and nothing else was rejected
    for k in sorted(berrs):
        if k[0] == "raw":       # the backends with a user callback type are not named by the property
            ctx.drift.append("the driver part that uses basic_dispatcher / basic_fast_dispatcher directly with a user callback type no longer builds (%s)" % (k,))
    hard = {k: v for k, v in berrs.items() if k[0] != "raw"}
    if hard and not ctx.violations:
        k0 = sorted(hard)[0]
        raise MachineryError("driver %s does not build against this tree and no violation was found: %s" % (k0, berrs[k0][-3000:]))
    return finish(ctx, q, t_cpu0, caps)


def advisory_stages(ctx, q, adv_traces, built, have_clang):
    """Behaviour the property statement does not cover: modelled all the same, deviations are MODEL-DRIFT notes."""
    # (a) handlers that register in the dispatcher they are being called through (L1 reading: the registration takes
    #     effect in that object, the running call completes)
    if adv_traces:
        tdir = ctx.sub("validate")
        p = os.path.join(tdir, "adv-reentrant.ndjson")
        with open(p, "w") as f:
            f.write("\n".join(l for _, tr in adv_traces for l in tr) + "\n")
        n0 = ctx.cov["events_validated"]
        rejs = R.validate_files(ctx, [p])
        ctx.notes["advisory_reentrant_events_validated"] = ctx.cov["events_validated"] - n0
        ctx.notes["advisory_reentrant_rejections"] = len(rejs)
        for r in rejs[:2]:
            ctx.drift.append("ADVISORY re-entrant registration (a handler registers in the dispatcher it is called through; not covered by the "
                             "statement): event %d of %s deviates from Dispatch.tla: %s" % (r["idx"] + 1, os.path.basename(p), r["execution"][-1][:400]))
    # (b) two independently constructed fast dispatchers over one hierarchy (the statement assumes one): TLC searches
    #     FastDispatchImpl for the shortest history after which a tuple reaches a handler its object's history does
    #     not give it; the history is replayed on the real dispatchers and must behave as the L2 model says
    # (dynamic caster: with the static caster the same histories end in a static_cast to an unrelated class, i.e. undefined behaviour)
    key = ("fast_dyn", 12, "asan")
    if key in built:
        r = core.tlc(ctx, "FastDispatchImpl", "FastDispatchImpl_two_fresh.cfg", name="two-fresh-witness", workers=1, env=R.JENV)
        ws = G.emitted(r["out"], "@W@")
        ctx.notes["two_fast_dispatchers"] = {"tlc_states": r["distinct"], "witness": None}
        if not ws:
            ctx.drift.append("ADVISORY two independent fast dispatchers: FastDispatchImpl.tla has no history (<= 4 calls, 2 classes) after which "
                             "a tuple reaches a foreign handler - the model no longer shows the documented restriction, see %s" % r["outfile"])
        else:
            w = ws[0]
            lines = [G.reset_ev(w["cfg"])] + [G.hist_event(e) for e in w["hist"]]
            for d, t in sorted(w["dev"]):
                lines.append({"op": "Dispatch", "a": {"d": d, "os": [10 * c for c in t], "xs": []}})
            tr, _, _ = R.run_script(ctx, built[key], lines, os.path.join(ctx.sub("traces"), "adv-two-fresh"), fresh=True)
            p = os.path.join(ctx.sub("validate"), "adv-two-fresh.ndjson")
            with open(p, "w") as f:
                f.write("\n".join(tr) + "\n")
            r2 = core.validate_trace(ctx, "FastDispatchImplTrace", "FastDispatchImplTrace_two_fresh.cfg", p, name="two-fresh-l2", explain=False, env=R.JENV)
            r1 = core.validate_trace(ctx, "DispatchTrace", "DispatchTrace.cfg", p, name="two-fresh-l1", explain=False, env=R.JENV)
            calls = "; ".join("%s%s" % (l["op"], json.dumps(l["a"], separators=(",", ":"))) for l in lines[1:])
            ctx.notes["two_fast_dispatchers"]["witness"] = calls
            ctx.notes["two_fast_dispatchers"]["real_code_as_l2_predicts"] = bool(r2["accepted"])
            ctx.notes["two_fast_dispatchers"]["real_code_conforms_to_l1"] = bool(r1["accepted"])
            if not r2["accepted"]:
                ctx.drift.append("ADVISORY two independent fast dispatchers: the real code does not behave as FastDispatchImpl.tla predicts on TLC's "
                                 "witness (%s): event %d of %s" % (calls, r2["fail_line"] + 1, p))
            elif not r1["accepted"]:
                ctx.drift.append("ADVISORY two independently constructed fast dispatchers over one hierarchy (outside the statement, which assumes one): "
                                 "as FastDispatchImpl.tla predicts (the second object's m_next_index restarts at 0 while the static class indices are shared), "
                                 "after [%s] a registered tuple is lost or reaches the cell of another class (event %d of %s is not a step of "
                                 "Dispatch.tla)" % (calls, r1["fail_line"] + 1, p))
    # (c) xhierarchy_generator.hpp
    from checks import c17_hier
    c17_hier.run(ctx, 3 if q else 4, ("g++",) if q or not have_clang else ("g++", "clang++"))


def report(ctx, rejs, built, findings):
    """De-duplicate, confirm by re-execution, explain and report at most MAX_REPORT rejections."""
    if not rejs:
        return
    order, ndistinct = R.select(rejs)
    ctx.notes["rejections_followed_up"] = len(rejs)
    ctx.notes["rejections_distinct_call_sites"] = ndistinct

    def classify(ev):
        for k in findings:
            m = k.get("match", {})
            if m and all(ev.get(x) == y or ev.get("a", {}).get(x) == y for x, y in m.items()):
                return "%s (%s)" % (k["key"], k["what"])
        return None

    def get_driver(reset, calls=None):
        key, bf = R.key_of_reset(reset)
        if key is None:
            key = (part_of_calls(calls or []), 12, bf)
        return built[key]
    desync, unrepro, nrep = [], [], 0
    for r in order:
        if nrep >= R.MAX_REPORT:
            break
        last = json.loads(r["execution"][-1])
        if last.get("op") == "Desync":
            desync.append(r)
            continue
        key = classify(last)
        if key:
            if key not in ctx.known:
                ctx.known.append(key)
            continue
        calls = R.calls_of(r["execution"])
        ok, expected, ev = R.confirm(ctx, r, lambda reset: get_driver(reset, calls), nrep + len(unrepro))
        if not ok:
            unrepro.append(r)
            continue
        nrep += 1
        what = "driver died (%s) during" % last.get("why") if last.get("op") == "Crash" else "trace rejected by DispatchTrace at"
        text = "%s event %d of %s: %s ; spec expected: %s" % (what, r["idx"] + 1, os.path.basename(r["path"]), (ev or "?")[:700], (expected or "?")[:1200])
        ctx.violation(text, replay_lines=calls)
    left = max(0, ndistinct - nrep - len(desync) - len(unrepro))
    if left and nrep:
        ctx.notes["rejections_not_reported"] = "%d further distinct call sites were rejected (report capped at %d)" % (left, R.MAX_REPORT)
        ctx.log("%d further distinct rejected call sites are not reported individually (cap %d)" % (left, R.MAX_REPORT))
    if (desync or unrepro) and not ctx.violations:
        if unrepro:
            r = unrepro[0]
            raise MachineryError("non-reproducible rejection: event %d of %s was accepted when its execution was re-run alone: %s"
                                 % (r["idx"] + 1, r["path"], r["execution"][-1][:400]))
        r = desync[0]
        raise MachineryError("the driver could not follow its script (first rejection of the execution): %s" % r["execution"][-1][:600])
    if desync or unrepro:
        ctx.notes["machinery_notes"] = "%d desynchronised and %d non-reproducible rejections besides the reported violations" % (len(desync), len(unrepro))


def finish(ctx, q, t_cpu0, caps, note=None):
    t = os.times()
    ctx.notes["cpu_seconds"] = round((t.user + t.system + t.children_user + t.children_system)
                                     - (t_cpu0.user + t_cpu0.system + t_cpu0.children_user + t_cpu0.children_system), 1)
    if note:
        ctx.notes["note"] = note
    ctx.notes["configuration_axes"] = {
        "dispatcher kinds": "static_dispatcher (plain/symmetric, const/non-const base, equal/different type lists), functor_dispatcher over basic_dispatcher and "
                            "basic_fast_dispatcher x dynamic/static caster, both backends directly with a user callback type, dynamic caster over a virtual base; acyclic "
                            "(6 base_visitable variants x 8 visitors) and cyclic (const/non-const x long/void) visitors: both tiers",
        "arity": "1 and 2 for every kind, 3 for fast_static and map_dyn (classes 1..3) in the quick tier; 3 for all four functor kinds in the thorough tier; arity > 3 not built",
        "undispatched arguments": "0, 1, 2 (arity 2), 3 (arity 1)",
        "XTL_NO_EXCEPTIONS": "visitors and fast_static in the quick tier; + map_dyn, raw_fast, static dispatcher in the thorough tier (compiler exceptions stay enabled; -fno-exceptions not built)",
        "compilers / optimisation": "g++ -O1 with AddressSanitizer in both tiers; thorough: g++ -O2 -DNDEBUG, g++ -O0, clang++ -O1 with AddressSanitizer%s" % ("" if shutil.which("clang++") else " (clang++ not installed: skipped)"),
    }
    return core.finish(
        ctx, "model_checking",
        rule="TLC: L1 tables x calls exhaustive for %s; L2=>L1 for every registration history of the fast dispatcher up to length %d over "
             "3 classes at arity 2 and, with copies on a second object, up to length 4 over %s; every complete history inside the bounds listed "
             "under s2c_history_plans (per dispatcher kind: classes, arity, extras, operation classes, length) replayed on the real dispatchers "
             "with the full dispatch tables of every live object probed after every call; every (table, call) transition for tables of <= %d "
             "registered tuples (<= 2..4 at arity 1); every call of the static-dispatcher and visitor menus; TLC simulation walks and seeded random histories over 5 "
             "classes, arities 1..3; XTL_NO_EXCEPTIONS builds%s. A case is one call with its outcome and the probed tables compared by TLC."
             % ("2 classes, two dispatcher objects with <= 2 registered tuples each (arity 1, 2)" if q else "3 classes, two dispatcher objects with <= 2 registered tuples each (arity 1..3)",
                3 if q else 5, "2 classes" if q else "3 classes", 1 if q else 2, "" if q else "; g++ -O2/-O0 and clang++ builds"),
        assumptions=["handlers, executors and visitors are test fixtures that record what they are given (harness/dispatch/driver.cpp)",
                     "one fast dispatcher per class hierarchy at a time (class indices are reset through the public accessor between executions; "
                     "a share of the random executions runs one per process); while a copy of a fast dispatcher is alive only classes that "
                     "already have an index are registered, in either object (a copy is a second fast dispatcher over the same hierarchy)",
                     "static dispatcher: type lists name a class before its ancestors; for an argument whose class is not listed the property "
                     "statement and Loki's is-a matching disagree, so both on_error and the handler of a listed ancestor are accepted",
                     "the exception type used to report an unregistered tuple is not constrained by L1; in an XTL_NO_EXCEPTIONS build aborting "
                     "the (isolated) calling process after the library's message counts as the error report",
                     "copying / moving / swapping dispatcher objects is not named by the property: explored where the types are copyable, as values",
                     "handler behaviours are fixtures: plain, throwing a user exception (must reach the caller unchanged, tables untouched), dispatching "
                     "again through the same object (the nested call is a dispatch like any other; depth 1). Advisory only (outside the statement): a "
                     "handler that registers in the dispatcher it is called through; a second independently constructed fast dispatcher over the same "
                     "hierarchy (TLC's shortest deviating history is replayed and must behave as FastDispatchImpl.tla predicts); xhierarchy_generator.hpp"],
        exhaustive=False)


from checks.c17_self import selftest      # noqa: E402  (./verif selftest C17)

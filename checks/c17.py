"""C17 - multimethods and visitors call exactly the handler registered for the dynamic types.

 1. TLC: Dispatch.tla (L1) - the registration table as a partial function from class tuples to
    handler ids; Insert / Erase / Dispatch for the functor dispatchers (map and fast backends,
    dynamic and static casters, 0..2 undispatched arguments), the static dispatcher (plain and
    symmetric), acyclic visitors (all catch-all policies) and cyclic visitors.  Its own theorems
    (table = last registration in the history, exactness of dispatch, purity of look-ups).
 2. TLC: FastDispatchImpl.tla (L2, transcription of basic_fast_dispatcher: lazily assigned class
    indices, next_index, nested vectors grown on demand, check_size, empty std::function cells)
    refines Dispatch.tla for every registration history up to a bound; an unregistered cell never
    reaches another handler.
 3. S->C: TLC enumerates (a) every registration history up to a length per dispatcher kind (one
    TLC state per history, so the order in which classes are first registered is part of what is
    explored), (b) every (table, call) transition of the state graph for small tables, (c) every
    call of the stateless components (static dispatcher menus, visitor menus) and (d) random
    walks (-simulate) over 5 classes; all are replayed on the real objects.
 4. C->S: seeded random histories (all kinds, arities 1..3, 5 classes), some of them one per
    process (no reset of the class indices involved).
 Every recorded event (outcome + probed dispatch table) is validated by TLC against L1
 (DispatchTrace.tla).  The fast dispatcher's class indices and exception types are validated
 against L2 (FastDispatchImplTrace) as an advisory MODEL-DRIFT check.
"""
import json, os, random, subprocess, threading
from concurrent.futures import ThreadPoolExecutor
from vlib import core, tlaval
from vlib.core import MachineryError

KINDS = ["map_dyn", "map_static", "fast_dyn", "fast_static"]
KIND_NO = {k: i + 1 for i, k in enumerate(KINDS)}
MC_KIND = {"map_dyn": "KMapDyn", "map_static": "KMapStatic", "fast_dyn": "KFastDyn", "fast_static": "KFastStatic"}
SRC = os.path.join(core.HARNESS, "dispatch", "driver.cpp")
CHUNK = 20000      # events per trace file (one TLC validation process each)


# ----------------------------------------------------------------------------- helpers
def write_script(path, lines):
    with open(path, "w") as f:
        for l in lines:
            f.write(json.dumps(l, separators=(",", ":")) + "\n")


def call_only(l):
    return {"op": l["op"], "a": l["a"]}


def emitted(out, tag):
    res = []
    pre = '"' + tag
    for line in out.splitlines():
        if line.startswith(pre):
            res.append(json.loads(json.loads(line)[len(tag):]))
    return res


def gen_cfg(ctx, name, **kw):
    """A TLC config for DispatchMC written into the scratch directory (the constants differ per
    kind / tier / what the library offers; the static ones live in specs/)."""
    d = ctx.sub("cfg")
    p = os.path.join(d, name + ".cfg")
    txt = ["SPECIFICATION Spec", "CONSTANTS",
           "  Kinds <- %s" % kw["kinds"],
           "  Arities = {%s}" % ", ".join(str(x) for x in kw["ars"]),
           "  NXs = {%s}" % ", ".join(str(x) for x in kw["nxs"]),
           "  K = %d" % kw["k"],
           "  MaxHist = %d" % kw.get("maxhist", 999),
           "  MaxCells = %d" % kw.get("maxcells", 999),
           "  OpClasses <- %s" % kw["ops"],
           "  EmitMode <- %s" % kw.get("mode", "ModeNone"),
           "CONSTRAINT Bound"]
    if kw.get("mode", "ModeNone") != "ModeNone":
        txt.append("ACTION_CONSTRAINT Emit")
    if kw.get("view"):
        txt.append("VIEW " + kw["view"])
    with open(p, "w") as f:
        f.write("\n".join(txt) + "\n")
    return p


def reset_ev(cfg):
    return {"op": "Reset", "a": {"kind": cfg["kind"], "ar": cfg["ar"], "nx": cfg["nx"], "k": cfg["k"]}}


def rand_objs(rnd, cfg, classes=None):
    """argument objects: any object of the classes in use (second objects, the same object twice)"""
    os_ = []
    for i in range(cfg["ar"]):
        c = classes[i] if classes else rnd.randint(1, cfg["k"])
        os_.append(10 * c + rnd.randint(0, 1))
    if cfg["ar"] >= 2 and rnd.random() < 0.15:
        os_[1] = os_[0]
    return os_


def rand_xs(rnd, cfg):
    return [rnd.choice([0, 1, 5, 9, 17, 50]) for _ in range(cfg["nx"])]


def rand_dispatch(rnd, cfg, registered):
    """biased towards registered tuples and their permutations (the interesting unregistered ones)"""
    c = rnd.random()
    classes = None
    if registered and c < 0.45:
        classes = list(rnd.choice(sorted(registered)))
        if c < 0.2:
            rnd.shuffle(classes)
    return {"op": "Dispatch", "a": {"os": rand_objs(rnd, cfg, classes), "xs": rand_xs(rnd, cfg)}}


# ------------------------------------------------------------------- TLC -> scripts
def hist_scripts(hists, rnd, ndisp):
    """One execution per complete history: Reset, the registrations/erasures, then a few dispatches."""
    lines, n = [], 0
    for h in hists:
        cfg = h["cfg"]
        lines.append(reset_ev(cfg))
        reg = set()
        for e in h["hist"]:
            t = tuple(e["t"])
            if e["op"] == "I":
                lines.append({"op": "Insert", "a": {"t": e["t"], "h": e["h"]}})
                reg.add(t)
            else:
                lines.append({"op": "Erase", "a": {"t": e["t"]}})
                reg.discard(t)
        for _ in range(ndisp):
            lines.append(rand_dispatch(rnd, cfg, reg))
        n += 1
    return lines, n


def cells_of(p, ar):
    """nested probe table -> {tuple: h} for registered cells"""
    out = {}

    def walk(x, pref):
        if len(pref) == ar:
            if x["h"]:
                out[tuple(pref)] = x["h"]
            return
        for i, y in enumerate(x):
            walk(y, pref + [i + 1])
    walk(p, [])
    return out


def edge_scripts(edges, rnd, can_erase):
    """One execution per source table: Reset, registrations in a seeded random order, every
    dispatch out of that table, then every Insert/Erase each followed by the call(s) that
    re-establish the table (a new execution where that needs an erase the library lacks)."""
    by_src = {}
    for e in edges:
        key = json.dumps([e["cfg"], e["p"]], sort_keys=True)
        by_src.setdefault(key, []).append(e["l"])
    lines, taken = [], 0
    for key in sorted(by_src):
        cfg, p = json.loads(key)
        cells = cells_of(p, cfg["ar"])

        def setup():
            out = [reset_ev(cfg)]
            ts = sorted(cells)
            rnd.shuffle(ts)
            for t in ts:
                out.append({"op": "Insert", "a": {"t": list(t), "h": cells[t]}})
            return out
        lines.extend(setup())
        calls = sorted(by_src[key], key=lambda c: (c["op"] != "Dispatch", json.dumps(c, sort_keys=True)))
        for c in calls:
            lines.append(c)
            taken += 1
            if c["op"] == "Dispatch":
                continue
            t = tuple(c["a"]["t"])
            if t in cells:
                lines.append({"op": "Insert", "a": {"t": list(t), "h": cells[t]}})
            elif c["op"] == "Insert":
                if can_erase:
                    lines.append({"op": "Erase", "a": {"t": list(t)}})
                else:
                    lines.extend(setup())
    return lines, taken


def sim_scripts(simdir):
    lines, n = [], 0
    for fn in sorted(os.listdir(simdir)):
        states = tlaval.parse_sim_trace(os.path.join(simdir, fn))
        if len(states) < 2:
            continue
        lines.append(reset_ev(states[0]["cfg"]))
        for s in states[1:]:
            lines.append({"op": s["last"]["op"], "a": s["last"]["a"]})
        n += 1
    return lines, n


# ------------------------------------------------------------------- random scripts (C->S)
def random_script(rnd, kind, can_erase, nexec, nops, stateless_calls, ars):
    lines = []
    for _ in range(nexec):
        ar = rnd.choice(ars)
        nx = rnd.choice({1: [0, 1], 2: [0, 1, 2], 3: [0, 1]}[ar])
        k = rnd.choice([5, 5, 5, 4, 3, 2])
        cfg = {"kind": kind, "ar": ar, "nx": nx, "k": k}
        lines.append(reset_ev(cfg))
        reg = {}
        # a few "hot" classes so that tuples collide, get replaced and get erased
        hot = [rnd.randint(1, k) for _ in range(3)]
        nh = 0
        for _ in range(rnd.randint(nops // 2, nops)):
            c = rnd.random()
            if c < 0.40:
                t = [rnd.choice(hot) if rnd.random() < 0.6 else rnd.randint(1, k) for _ in range(ar)]
                nh += 1
                h = nh if rnd.random() < 0.7 else rnd.randint(1, 9)
                reg[tuple(t)] = h
                lines.append({"op": "Insert", "a": {"t": t, "h": h}})
            elif c < 0.55 and can_erase:
                if reg and rnd.random() < 0.7:
                    t = list(rnd.choice(sorted(reg)))
                else:
                    t = [rnd.randint(1, k) for _ in range(ar)]
                reg.pop(tuple(t), None)
                lines.append({"op": "Erase", "a": {"t": t}})
            elif c < 0.92 or not stateless_calls:
                lines.append(rand_dispatch(rnd, cfg, set(reg)))
            else:
                lines.append(rnd.choice(stateless_calls))
    return lines


# ------------------------------------------------------------------- running the harness
def run_driver(drv, script_path, trace_path, mode="w"):
    env = dict(os.environ)
    env.update(core.ASAN_ENV)
    with open(script_path) as fin, open(trace_path, mode) as fout:
        p = subprocess.run([drv], stdin=fin, stdout=fout, stderr=subprocess.PIPE, env=env, timeout=1800)
    if p.returncode == 3:
        raise MachineryError("harness rejected script %s: %s" % (script_path, p.stderr.decode(errors="replace")[-500:]))


def chunk_by_reset(lines, max_events):
    """Split a script into files of at most ~max_events events, at Reset boundaries."""
    chunks, cur = [], []
    for l in lines:
        if l["op"] == "Reset" and len(cur) >= max_events:
            chunks.append(cur)
            cur = []
        cur.append(l)
    if cur:
        chunks.append(cur)
    return chunks


def split_executions(lines):
    out, cur = [], []
    for l in lines:
        if l["op"] == "Reset" and cur:
            out.append(cur)
            cur = []
        cur.append(l)
    if cur:
        out.append(cur)
    return out


def build_drivers(ctx, want):
    """want: set of (kind, arpart) with arpart in {12, 3}.  Returns {(kind, arpart): path}."""
    jobs, paths = [], {}
    for kind, part in sorted(want):
        out = os.path.join(ctx.work, "drv_%s_%d" % (kind, part))
        paths[(kind, part)] = out
        jobs.append({"src": SRC, "out": out, "flags": ["-g0", "-DC17_KIND=%d" % KIND_NO[kind], "-DC17_AR=%d" % part]})
    core.build_many(ctx, jobs)
    return paths


def caps_of(drv):
    rc, out = core.sh([drv, "--caps"], timeout=60, env=core.ASAN_ENV)
    try:
        return json.loads(out.strip().splitlines()[-1])
    except Exception:
        raise MachineryError("driver --caps failed: %s" % out[-500:])


def part_of(ar):
    return 3 if ar == 3 else 12


# ------------------------------------------------------------------- replay
def replay(ctx, path):
    """./verif replay C17 <file>: re-run the recorded calls on the current tree and validate."""
    lines = [call_only(l) for l in core.read_ndjson(path) if "_meta" not in l]
    kind = next((l["a"]["kind"] for l in lines if l["op"] == "Reset"), "map_dyn")
    ar = max([l["a"]["ar"] for l in lines if l["op"] == "Reset"] or [2])
    if kind == "none":
        kind = "map_dyn"
    drv = build_drivers(ctx, {(kind, part_of(ar))})[(kind, part_of(ar))]
    sp, tp = os.path.join(ctx.work, "replay.script"), os.path.join(ctx.work, "replay.ndjson")
    write_script(sp, lines)
    run_driver(drv, sp, tp)
    r = core.validate_trace(ctx, "DispatchTrace", "DispatchTrace.cfg", tp)
    if r["accepted"]:
        print("replay accepted: the recorded calls now conform to Dispatch.tla")
        return 0
    print("VIOLATION property=C17 replay=%s" % path)
    print("  rejected at event %d; spec expected: %s" % (r["fail_line"] + 1, r.get("expected")))
    return 1


# ------------------------------------------------------------------- selftest (binding demonstration)
def selftest(ctx):
    """./verif selftest C17: corrupt one field of a recorded trace (or drop one event) and show that
    TLC rejects the trace at exactly that line."""
    import copy
    drv = build_drivers(ctx, {("fast_static", 12)})[("fast_static", 12)]
    script = [reset_ev({"kind": "fast_static", "ar": 2, "nx": 1, "k": 3}),
              {"op": "Insert", "a": {"t": [1, 2], "h": 1}},
              {"op": "Insert", "a": {"t": [2, 1], "h": 2}},
              {"op": "Dispatch", "a": {"os": [10, 21], "xs": [5]}},
              {"op": "Dispatch", "a": {"os": [30, 10], "xs": [9]}},
              {"op": "StaticSym", "a": {"lhs": [3, 1, 2], "rhs": [3, 1, 2], "cst": False, "os": [10, 30]}},
              {"op": "Static", "a": {"lhs": [2, 1], "rhs": [3, 2], "cst": False, "os": [30, 10]}},
              {"op": "Accept", "a": {"v": "crecording", "vis": [1, 2], "o": 51}},
              {"op": "Cyclic", "a": {"cst": True, "o": 50}},
              {"op": "Insert", "a": {"t": [1, 2], "h": 3}},
              {"op": "Dispatch", "a": {"os": [11, 20], "xs": [0]}}]
    sp, tp = os.path.join(ctx.work, "self.script"), os.path.join(ctx.work, "self.ndjson")
    write_script(sp, script)
    run_driver(drv, sp, tp)
    base = core.read_ndjson(tp)
    r = core.validate_trace(ctx, "DispatchTrace", "DispatchTrace.cfg", tp, explain=False)
    if not r["accepted"]:
        print("selftest: the uncorrupted trace is rejected at event %d" % (r["fail_line"] + 1))
        return 2

    def c_handler(t): t[3]["res"]["val"]["h"] = 2
    def c_order(t): t[3]["res"]["val"]["objs"] = [21, 10]
    def c_tag(t): t[3]["res"]["val"]["tg"] = [10, 20]
    def c_extra(t): t[3]["res"]["val"]["xv"] = [6]
    def c_ret(t): t[3]["res"]["val"]["ret"] = 106
    def c_error_ran(t): t[4]["res"]["val"]["calls"] = 1
    def c_cell(t): t[2]["st"]["tab"][0][0] = {"h": 1, "objs": [10, 10]}
    def c_sym(t): t[5]["res"]["val"]["ba"]["val"]["sig"] = [1, 3]
    def c_onerror(t): t[6]["res"] = {"exc": "none", "val": {"calls": 1, "ret": 1031, "rep": 0, "h": 0, "sig": [3, 1], "dyn": [3, 1], "objs": [30, 10], "tg": [30, 10], "xv": [], "xid": True}}
    def c_policy(t): t[7]["res"]["val"]["pobj"] = 50
    def c_cyclic(t): t[8]["res"]["val"]["sig"] = [1]
    def c_stale(t): t[10]["res"]["val"]["h"] = 1
    cases = [("handler id of a dispatch", c_handler, 3), ("order of the arguments the handler saw", c_order, 3),
             ("tag the handler read through its typed reference", c_tag, 3),
             ("value of the undispatched argument", c_extra, 3), ("returned value", c_ret, 3),
             ("a handler ran although an error was reported", c_error_ran, 4), ("one cell of the probed table", c_cell, 2),
             ("symmetric dispatch reaching two different handlers", c_sym, 5), ("on_error replaced by a handler call", c_onerror, 6),
             ("object handed to the catch-all policy", c_policy, 7), ("cyclic visitor visiting as another class", c_cyclic, 8),
             ("replaced handler still being called", c_stale, 10)]
    bad = 0
    for what, f, line in cases:
        t = copy.deepcopy(base)
        f(t)
        p = os.path.join(ctx.work, "self-corrupt.ndjson")
        write_script(p, t)
        r = core.validate_trace(ctx, "DispatchTrace", "DispatchTrace.cfg", p, explain=False)
        ok = (not r["accepted"]) and r["fail_line"] == line
        print("selftest: corrupted %-55s -> %s at event %d (expected %d)" % (what, "accepted" if r["accepted"] else "rejected", r.get("fail_line", -1) + 1, line + 1))
        bad += 0 if ok else 1
    t = copy.deepcopy(base)
    del t[1]          # drop the first registration: the next event's table no longer matches
    p = os.path.join(ctx.work, "self-removed.ndjson")
    write_script(p, t)
    r = core.validate_trace(ctx, "DispatchTrace", "DispatchTrace.cfg", p, explain=False)
    print("selftest: removed event 2 -> %s at event %d (expected 2)" % ("accepted" if r["accepted"] else "rejected", r.get("fail_line", -1) + 1))
    bad += 0 if (not r["accepted"] and r["fail_line"] == 1) else 1
    print("selftest %s" % ("ok" if not bad else "FAILED (%d cases)" % bad))
    return 0 if not bad else 2


# ------------------------------------------------------------------- the check
def run(ctx):
    q = ctx.quick
    rnd = random.Random(ctx.seed)
    findings = core.load_findings("C17")

    # ---- build the harnesses from the working tree (in the background, while TLC runs)
    want = {(k, 12) for k in KINDS}
    if not q:
        want |= {(k, 3) for k in KINDS}
    built = {}
    berr = []

    def bg_build():
        try:
            built.update(build_drivers(ctx, want))
        except Exception as ex:      # reported from the main thread
            berr.append(ex)
    bt = threading.Thread(target=bg_build)
    bt.start()

    try:
        # ---- 1. L1 model checking (the oracle's own theorems)
        actcov = {}

        def add_cov(r):
            for k, v in r.get("coverage", {}).items():
                if k.startswith("N"):
                    c = actcov.setdefault(k, [0, 0])
                    c[0] += v[0]
                    c[1] += v[1]
        for cfg, what in (("Dispatch_mc.cfg" if q else "Dispatch_mc_thorough.cfg", "L1 tables x every call: exactness, purity, one-cell updates"),
                          ("Dispatch_mc_hist.cfg" if q else "Dispatch_mc_hist_thorough.cfg", "L1 histories: table = last registration per tuple")):
            r = core.tlc_model_check(ctx, "DispatchMC", cfg, what, coverage=not q, workers=8)
            if r["violated"]:
                raise MachineryError("L1 spec Dispatch.tla violates its own theorem %s (oracle bug), see %s" % (r["violated"], r["outfile"]))
            add_cov(r)
        r = core.tlc(ctx, "DispatchMC", "Dispatch_stateless.cfg", name="stateless-enumerate", workers=4, coverage=not q)
        if r["violated"]:
            raise MachineryError("L1 spec Dispatch.tla violates its own theorem %s on the stateless calls, see %s" % (r["violated"], r["outfile"]))
        add_cov(r)
        stateless = {}
        for e in emitted(r["out"], "@E@"):
            stateless[json.dumps(e["l"], sort_keys=True)] = e["l"]
        stateless = [stateless[k] for k in sorted(stateless)]
        ctx.cov["states"] += r["distinct"]
        ctx.cov["transitions"] += r["generated"]
        ctx.notes["s2c_stateless_calls"] = len(stateless)
    finally:
        bt.join()
    if berr:
        raise berr[0]
    # what this tree's library offers is probed at compile time (SFINAE in the driver), not assumed:
    # basic_fast_dispatcher has no erase member today, so the fast dispatchers' histories contain no
    # Erase; if a later tree gains one, the insert+erase histories and the L2 erase configurations
    # are used automatically
    caps = caps_of(built[("fast_static", 12)])
    fast_erase = bool(caps.get("fast_erase"))
    ctx.notes["library_offers"] = caps
    ctx.log("library offers: %s" % caps)

    def can_erase(kind):
        return fast_erase if kind.startswith("fast") else True

    # ---- 2. L2 => L1 refinement of the fast dispatcher
    l2cfgs = ["FastDispatchImpl_mc%s.cfg" % ("_erase" if fast_erase else "")]
    if not q and not fast_erase:
        l2cfgs.append("FastDispatchImpl_mc_thorough.cfg")
    for l2cfg in l2cfgs:
        r2 = core.tlc_model_check(ctx, "FastDispatchImpl", l2cfg,
                                  "L2 (lazy class indices, nested vectors, check_size) refines L1; no cell aliasing", workers=8)
        if r2["violated"]:
            ctx.drift.append("FastDispatchImpl.tla does not refine Dispatch.tla (%s); see %s" % (r2["violated"], r2["outfile"]))
    if not q:
        r3 = core.tlc_model_check(ctx, "FastDispatchImpl", "FastDispatchImpl_mc3%s.cfg" % ("_erase" if fast_erase else ""),
                                  "L2 refines L1 at arity 3 and arity 1", workers=8)
        if r3["violated"]:
            ctx.drift.append("FastDispatchImpl.tla (arity 1/3) does not refine Dispatch.tla (%s); see %s" % (r3["violated"], r3["outfile"]))

    scripts = []      # (name, kind, arpart, lines, fresh_process)

    # ---- 3a. S->C: every registration history up to a length, per dispatcher kind
    plans = []        # (kind, ar, nx, k, ops, maxhist)
    ndisp = 1 if q else 2
    if q:
        plans += [("fast_dyn", 2, 0, 3, "ins", 4), ("fast_static", 2, 1, 3, "ins", 4),
                  ("map_dyn", 2, 2, 3, "inser", 3), ("map_static", 2, 0, 3, "inser", 2),
                  ("fast_static", 1, 1, 3, "ins", 3), ("map_dyn", 1, 0, 3, "inser", 3)]
        if fast_erase:
            plans += [("fast_dyn", 2, 1, 3, "inser", 3), ("fast_static", 2, 0, 3, "inser", 3)]
    else:
        plans += [("fast_static", 2, 1, 3, "ins", 5), ("fast_dyn", 2, 0, 3, "ins", 4),
                  ("fast_dyn", 2, 2, 4, "ins", 3), ("fast_static", 2, 0, 4, "ins", 3),
                  ("map_dyn", 2, 2, 3, "inser", 3), ("map_static", 2, 0, 3, "inser", 3),
                  ("map_dyn", 2, 0, 2, "inser", 4), ("map_static", 2, 1, 4, "ins", 3),
                  ("fast_static", 1, 1, 4, "ins", 4), ("fast_dyn", 1, 0, 4, "ins", 4),
                  ("map_dyn", 1, 0, 3, "inser", 4), ("map_static", 1, 1, 3, "inser", 4),
                  ("map_dyn", 3, 0, 3, "ins", 2), ("map_static", 3, 1, 2, "inser", 3),
                  ("fast_static", 3, 0, 3, "ins", 3), ("fast_dyn", 3, 1, 2, "ins", 4)]
        if fast_erase:
            plans += [("fast_dyn", 2, 1, 3, "inser", 4), ("fast_static", 2, 0, 3, "inser", 3),
                      ("fast_static", 3, 1, 2, "inser", 3), ("fast_dyn", 1, 1, 3, "inser", 4)]
    nhist = 0
    plan_notes = []

    def enum_hist(arg):
        i, (kind, ar, nx, k, ops, mh) = arg
        cfg = gen_cfg(ctx, "hist-%02d-%s" % (i, kind), kinds=MC_KIND[kind], ars=[ar], nxs=[nx], k=k, maxhist=mh,
                      ops="OpsHistIns" if ops == "ins" else "OpsHistInsEr", mode="ModeHist", view="histvars")
        r = core.tlc(ctx, "DispatchMC", cfg, name="s2c-hist-%02d-%s" % (i, kind), heap="6g", timeout=1500, workers=4,
                     coverage=(not q and i == 0))
        if r["violated"]:
            raise MachineryError("s2c history enumeration failed: %s" % r["outfile"])
        hs = emitted(r["out"], "@H@")
        r["out"] = ""
        return r, hs
    with ThreadPoolExecutor(max_workers=4) as ex:
        results = list(ex.map(enum_hist, list(enumerate(plans))))
    for (i, (kind, ar, nx, k, ops, mh)), (r, hs) in zip(enumerate(plans), results):
        hs.sort(key=lambda h: json.dumps(h, sort_keys=True))      # TLC's output order depends on its worker threads
        lines, n = hist_scripts(hs, rnd, ndisp if ar < 3 and mh < 5 else 1)
        plan_notes.append("%s arity %d, %d extras, %d classes, %s, length %d: %d histories" % (
            kind, ar, nx, k, "insert" if ops == "ins" else "insert+erase", mh, n))
        nhist += n
        ctx.cov["states"] += r["distinct"]
        ctx.cov["transitions"] += r["generated"]
        ctx.log("S->C: %s arity %d, %d extras, %d classes, %s: %d complete histories of length %d (%d states), %d script events"
                % (kind, ar, nx, k, "insert only" if ops == "ins" else "insert+erase", n, mh, r["distinct"], len(lines)))
        scripts.append(("hist-%02d-%s" % (i, kind), kind, part_of(ar), lines, False))
    ctx.notes["s2c_histories_replayed"] = nhist
    ctx.notes["s2c_history_plans"] = plan_notes
    if not q:
        add_cov(results[0][0])
        ctx.notes["l1_action_coverage"] = actcov
        ctx.notes["vacuous_actions"] = sorted(k for k in ("NInsert", "NInsert2", "NErase", "NDispatch", "NStatic", "NStaticSym", "NAccept", "NCyclic")
                                              if actcov.get(k, [0, 0])[1] == 0)

    # ---- 3b. S->C: every (table, call) transition for small tables
    nedges = ntaken = 0
    eplans = [("map_dyn", 2, 1, 3, 2), ("fast_static", 2, 1, 3, 2)] if q else \
             [("map_dyn", 2, 1, 3, 3), ("fast_static", 2, 1, 3, 3), ("map_static", 2, 2, 3, 2), ("fast_dyn", 2, 0, 3, 2),
              ("map_dyn", 1, 1, 4, 4), ("fast_dyn", 1, 1, 4, 4), ("map_static", 3, 0, 2, 2), ("fast_static", 3, 1, 2, 2)]
    def enum_edges(arg):
        i, (kind, ar, nx, k, mc) = arg
        ce = can_erase(kind)
        cfg = gen_cfg(ctx, "edges-%02d-%s" % (i, kind), kinds=MC_KIND[kind], ars=[ar], nxs=[nx], k=k, maxcells=mc,
                      ops="OpsTable" if ce else "OpsTableNoErase", mode="ModeEdges", view="absvars")
        r = core.tlc(ctx, "DispatchMC", cfg, name="s2c-edges-%02d-%s" % (i, kind), heap="6g", timeout=1500, workers=4)
        if r["violated"]:
            raise MachineryError("s2c transition enumeration failed: %s" % r["outfile"])
        es = emitted(r["out"], "@E@")
        r["out"] = ""
        return r, es
    with ThreadPoolExecutor(max_workers=4) as ex:
        results = list(ex.map(enum_edges, list(enumerate(eplans))))
    for (i, (kind, ar, nx, k, mc)), (r, es) in zip(enumerate(eplans), results):
        lines, taken = edge_scripts(es, rnd, can_erase(kind))
        nedges += len(es)
        ntaken += taken
        ctx.cov["states"] += r["distinct"]
        ctx.cov["transitions"] += r["generated"]
        scripts.append(("edges-%02d-%s" % (i, kind), kind, part_of(ar), lines, False))
    ctx.log("S->C: %d (table, call) transitions enumerated by TLC, %d replayed" % (nedges, ntaken))
    ctx.notes["s2c_transitions_enumerated"] = nedges
    ctx.notes["s2c_transitions_replayed"] = ntaken

    # ---- 3c. S->C: every call of the stateless components (static dispatcher, visitors)
    scripts.append(("stateless", "map_dyn", 12, [reset_ev({"kind": "none", "ar": 1, "nx": 0, "k": 1})] + stateless, False))

    # ---- 3d. TLC simulation walks over 5 classes (longer histories)
    nwalks = 0
    sim_ars = [1, 2] if q else [1, 2, 3]

    def run_sim(kind):
        simdir = ctx.sub("sim-" + kind)
        cfg = gen_cfg(ctx, "sim-" + kind, kinds=MC_KIND[kind], ars=sim_ars, nxs=[0, 1, 2], k=5,
                      ops="OpsSimInsEr" if can_erase(kind) else "OpsSimIns")
        core.tlc(ctx, "DispatchMC", cfg, name="s2c-simulate-" + kind,
                 simulate="file=%s/t,num=%d" % (simdir, 40 if q else 150),
                 extra=["-depth", "25" if q else "40", "-seed", str(ctx.seed)], workers=1)
        return sim_scripts(simdir)
    with ThreadPoolExecutor(max_workers=4) as ex:
        results = list(ex.map(run_sim, KINDS))
    for kind, (lines, n) in zip(KINDS, results):
        nwalks += n
        for part in sorted({part_of(a) for a in sim_ars}):
            sel = [l for ex_ in split_executions(lines) if part_of(ex_[0]["a"]["ar"]) == part for l in ex_]
            if sel:
                scripts.append(("sim-%s-%d" % (kind, part), kind, part, sel, False))
    ctx.notes["s2c_simulation_walks"] = nwalks
    ctx.log("S->C: %d TLC simulation walks over 5 classes" % nwalks)

    # ---- 4. C->S: seeded random histories, all kinds; a share of them one execution per process
    for kind in KINDS:
        r2_ = random.Random(ctx.seed * 7919 + KIND_NO[kind])
        lines = random_script(r2_, kind, can_erase(kind), 40 if q else 400, 40, stateless, [1, 2])
        scripts.append(("rnd-%s" % kind, kind, 12, lines, False))
        lines = random_script(r2_, kind, can_erase(kind), 12 if q else 60, 30, stateless, [1, 2])
        scripts.append(("rndproc-%s" % kind, kind, 12, lines, True))
        if not q:
            lines = random_script(r2_, kind, can_erase(kind), 80, 40, stateless, [3])
            scripts.append(("rnd3-%s" % kind, kind, 3, lines, False))

    # ---- probes for open known findings (tiny scripts that must still fail)
    for fnd in findings:
        if "probe" in fnd:
            scripts.append(("probe-" + fnd["id"], fnd["probe"].get("kind", "map_dyn"), 12, fnd["probe"]["script"], False))

    # ---- run the harness
    ctx.log("running %d scripts on the real dispatchers" % len(scripts))
    tdir = ctx.sub("traces")
    traces, fast_traces = [], []
    nevents = 0
    jobs = []
    for name, kind, part, lines, fresh in scripts:
        drv = built[(kind, part)]
        for ci, ch in enumerate(chunk_by_reset(lines, CHUNK)):
            sp = os.path.join(tdir, "%s-%d.script" % (name, ci))
            tp = os.path.join(tdir, "%s-%d.ndjson" % (name, ci))
            jobs.append((drv, sp, tp, ch, fresh, name, ci))
            traces.append(tp)
            if kind.startswith("fast"):
                fast_traces.append(tp)
            nevents += len(ch)
            ctx.cov["traces_validated_against_impl"] += sum(1 for l in ch if l["op"] == "Reset")

    def run_job(job):
        drv, sp, tp, ch, fresh, name, ci = job
        write_script(sp, ch)
        if fresh:
            open(tp, "w").close()
            for j, ex_ in enumerate(split_executions(ch)):
                spj = os.path.join(tdir, "%s-%d-x%d.script" % (name, ci, j))
                write_script(spj, ex_)
                run_driver(drv, spj, tp, mode="a")
        else:
            run_driver(drv, sp, tp)
    with ThreadPoolExecutor(max_workers=max(2, core.NCPU // 2)) as ex:
        list(ex.map(run_job, jobs))
    ctx.log("harness: %d script events in %d trace files" % (nevents, len(traces)))
    for nm in ("hist-00-fast_dyn", "stateless"):
        for name, kind, part, lines, fresh in scripts:
            if name == nm:
                ctx.sample({"script": [json.dumps(x) for x in lines[:8]]})

    # ---- validate every trace against L1
    def classify(ev, execution):
        for k in findings:
            m = k.get("match", {})
            if m and all(ev.get(x) == y or ev.get("a", {}).get(x) == y for x, y in m.items()):
                return "%s (%s)" % (k["key"], k["what"])
        return None
    core.validate_traces(ctx, "DispatchTrace", "DispatchTrace.cfg", traces, classify=classify)
    ctx.cov["evaluations"] = ctx.cov["events_validated"]
    ctx.log("validated %d events in %d traces (%d executions) against Dispatch.tla" % (
        ctx.cov["events_validated"], len(traces), ctx.cov["traces_validated_against_impl"]))

    # ---- advisory: class indices / exception types of the fast dispatcher against L2
    if not ctx.violations:
        sel = fast_traces[:3] if q else fast_traces[:15]        # advisory only: a sample is enough
        nd = 0

        def one(tp):
            return core.validate_trace(ctx, "FastDispatchImplTrace", "FastDispatchImplTrace.cfg", tp,
                                       name="l2-" + os.path.basename(tp), explain=False)
        with ThreadPoolExecutor(max_workers=max(1, core.NCPU // 2)) as ex:
            for tp, r in zip(sel, ex.map(one, sel)):
                nd += r["matched"]
                if not r["accepted"]:
                    ctx.drift.append("FastDispatchImpl.tla no longer describes the code: %s event %d (class indices / exception type differ)"
                                     % (os.path.basename(tp), r["fail_line"] + 1))
        ctx.notes["l2_events_validated"] = nd
        ctx.log("validated %d fast-dispatcher events against FastDispatchImpl.tla (advisory)" % nd)

    return core.finish(
        ctx, "model_checking",
        rule="TLC: L1 tables x calls exhaustive for %s; L2=>L1 for every registration history of the fast dispatcher up to length %d over "
             "3 classes at arity 2%s; every complete registration history inside the bounds listed under s2c_history_plans (per dispatcher "
             "kind: classes, arity, extras, insert-only or insert+erase, length) replayed on the real dispatchers with the full dispatch "
             "table probed after every call; every (table, call) transition for tables of <= %d registered tuples; every call of the "
             "static-dispatcher and visitor menus; TLC simulation walks and seeded random histories over 5 classes, arities 1..%d. "
             "A case is one call with its outcome and the probed table compared by TLC."
             % ("2 classes (arity 1, 2)" if q else "3 classes with <= 2 registered tuples (arity 1..3)", 4 if q else 5,
                "" if q else " (2 classes, length 4, at arity 1 and 3)", 2 if q else 3, 2 if q else 3),
        assumptions=["handlers, executors and visitors are test fixtures that record what they are given (harness/dispatch/driver.cpp)",
                     "one fast dispatcher per class hierarchy at a time (class indices are reset through the public accessor between executions; "
                     "a share of the random executions runs one per process)",
                     "static dispatcher: type lists name a class before its ancestors, and unlisted argument classes have no listed ancestor",
                     "the exception type used to report an unregistered tuple is not constrained by L1"],
        exhaustive=False)

"""C17, advisory stage: xhierarchy_generator.hpp.  For every type list of length <= n over three unit types a generated
program instantiates the real scatter / linear generators and prints what it observes (base classes, construction order,
chain walk, base_type, root, forwarded constructor argument); TLC evaluates specs/DispatchHierGen.tla on every record
and checks that the records are exactly the lists the specification enumerates.  The property statement of C17 does not
name the header: a deviation is reported as ADVISORY (MODEL-DRIFT), never as a violation."""
import itertools, os, re
from vlib import core

NT = 3


def lists_upto(n):
    out = []
    for k in range(n + 1):
        out.extend(itertools.product(range(1, NT + 1), repeat=k))
    return out


def run(ctx, maxlen, cxxs=("g++",)):
    d = ctx.sub("hiergen")
    ls = lists_upto(maxlen)
    src = os.path.join(d, "hiergen.cpp")
    with open(src, "w") as f:
        f.write('#include "hiergen_prelude.hpp"\nint main()\n{\n')
        for l in ls:
            f.write("    row<mpl::vector<%s>>(\"[%s]\");\n" % (", ".join("ty<%d>" % t for t in l), ",".join(map(str, l))))
        f.write("    return 0;\n}\n")
    ctx.notes["hiergen_lists"] = len(ls)
    nrows = 0
    for cxx in cxxs:
        exe = os.path.join(d, "hiergen_" + cxx.replace("+", "x"))
        rc, out = core.sh([cxx, "-std=c++14", "-O0", "-w", "-I", core.INCLUDE, "-I", os.path.join(core.HARNESS, "dispatch"), src, "-o", exe], timeout=900)
        if rc != 0:
            first = [l for l in out.splitlines() if "error" in l][:2]
            ctx.drift.append("ADVISORY xhierarchy_generator.hpp: the generated program over all type lists of length <= %d does not compile with %s: %s"
                             % (maxlen, cxx, " | ".join(first)[:400]))
            continue
        rc, out = core.sh([exe], timeout=300)
        tp = os.path.join(d, "rows_%s.ndjson" % cxx.replace("+", "x"))
        with open(tp, "w") as f:
            f.write(out)
        if rc != 0:
            ctx.drift.append("ADVISORY xhierarchy_generator.hpp: the generated program (%s) ended with status %d" % (cxx, rc))
            continue
        env = {"TRACE": tp, "JAVA_TOOL_OPTIONS": "-XX:TieredStopAtLevel=1 -XX:ParallelGCThreads=2"}
        r = core.tlc(ctx, "DispatchHierGen", "DispatchHierGen.cfg" if maxlen == 3 else "DispatchHierGen_thorough.cfg",
                     name="hiergen-" + cxx.replace("+", "x"), workers=1, env=env, timeout=600)
        m = re.search(r'<<\s*"@HG@",\s*(\d+),\s*(\d+),\s*(TRUE|FALSE),\s*(TRUE|FALSE),\s*(\{[^}]*\})\s*>>', r["out"])      # (TLC wraps long values)
        if not m:
            raise core.MachineryError("DispatchHierGen: TLC did not evaluate the table, see %s" % r["outfile"])
        n, nall, covered, laws, bad = int(m.group(1)), int(m.group(2)), m.group(3) == "TRUE", m.group(4) == "TRUE", m.group(5)
        if not laws:
            raise core.MachineryError("DispatchHierGen.tla violates its own laws (oracle bug), see %s" % r["outfile"])
        if not covered:
            raise core.MachineryError("the generated hierarchy-generator table (%d rows) is not the %d lists TLC enumerates" % (n, nall))
        nrows += n
        ctx.cov["evaluations"] += n
        if bad.replace(" ", "") != "{}":
            idx = [int(x) for x in re.findall(r"\d+", bad)]
            with open(tp) as f:
                rows = f.read().splitlines()
            ctx.drift.append("ADVISORY xhierarchy_generator.hpp (%s): %d of %d type lists deviate from DispatchHierGen.tla (the generated class derives from "
                             "exactly the units of the list, in list order); first: %s" % (cxx, len(idx), n, rows[idx[0] - 1][:400]))
    ctx.notes["hiergen_rows_checked"] = nrows
    return nrows

"""C05, compile-time contract of xtl::variant: tables enumerated by TLC from specs/VariantTraits.tla

  trait rows   which special members variant<S> has, which are noexcept, which are trivial, for ~80 alternative lists
  conv rows    which alternative the converting constructor / assignment selects for an argument type
               (FUN overload resolution; where C++17 as published and P0608 differ both answers are allowed)
  get rows     result types of get / get_if / xget for every value category, closure-aware xget included
  syn rows     the remaining signatures of [variant.syn] the conformance driver relies on (fixed list)

are turned into one translation unit of static_asserts (one per line, so that g++ reports every failing row and
goes on) and one small program that prints what the converting constructor / assignment selected.  Both are
compiled against the tree under test before the conformance driver is needed, so that a changed signature is a
VIOLATION with a replay and not a driver that does not build.
"""
import json, os, re
from vlib import core
from vlib.core import MachineryError

PRELUDE = r'''
#include <xtl/xvariant.hpp>
#include <xtl/xclosure.hpp>
#include <cstdio>
#include <cstddef>
#include <exception>
#include <functional>
#include <initializer_list>
#include <string>
#include <type_traits>
#include <utility>
#define RELOPS(X) \
    friend bool operator==(const X&, const X&) { return true; } friend bool operator!=(const X&, const X&) { return false; } \
    friend bool operator<(const X&, const X&) { return false; } friend bool operator>(const X&, const X&) { return false; } \
    friend bool operator<=(const X&, const X&) { return true; } friend bool operator>=(const X&, const X&) { return true; }
struct Triv { int v; RELOPS(Triv) };
struct NA { NA() noexcept; NA(const NA&) noexcept; NA(NA&&) noexcept; NA& operator=(const NA&) noexcept; NA& operator=(NA&&) noexcept; ~NA(); RELOPS(NA) };
struct TA { TA() noexcept; TA(const TA&) noexcept; TA(TA&&) noexcept; TA& operator=(const TA&) = default; TA& operator=(TA&&) = default; ~TA(); RELOPS(TA) };
struct NT { NT() noexcept; NT(const NT&); NT(NT&&) noexcept; NT& operator=(const NT&); NT& operator=(NT&&) noexcept; ~NT(); RELOPS(NT) };
struct TM { TM() noexcept; TM(const TM&); TM(TM&&); TM& operator=(const TM&); TM& operator=(TM&&); ~TM(); RELOPS(TM) };
struct MO { MO() noexcept; MO(const MO&) = delete; MO(MO&&) noexcept; MO& operator=(const MO&) = delete; MO& operator=(MO&&) noexcept; ~MO(); RELOPS(MO) };
struct NDC { NDC(int) noexcept; NDC(const NDC&) noexcept; NDC(NDC&&) noexcept; NDC& operator=(const NDC&) noexcept; NDC& operator=(NDC&&) noexcept; ~NDC(); RELOPS(NDC) };
struct TD { TD(); TD(const TD&) noexcept; TD(TD&&) noexcept; TD& operator=(const TD&) noexcept; TD& operator=(TD&&) noexcept; ~TD(); RELOPS(TD) };
struct SW { SW() noexcept; SW(const SW&); SW& operator=(const SW&); ~SW(); friend void swap(SW&, SW&) noexcept; RELOPS(SW) };
struct TS { TS() noexcept; TS(const TS&) noexcept; TS(TS&&) noexcept; TS& operator=(const TS&) noexcept; TS& operator=(TS&&) noexcept; ~TS(); friend void swap(TS&, TS&); RELOPS(TS) };
static_assert(!std::is_nothrow_move_constructible<SW>::value && std::is_move_constructible<SW>::value && std::is_nothrow_move_constructible<TS>::value, "fixtures SW / TS");
namespace c05_swapcheck { using std::swap; static_assert(noexcept(swap(std::declval<SW&>(), std::declval<SW&>())) && !noexcept(swap(std::declval<TS&>(), std::declval<TS&>())), "fixtures SW / TS: ADL swap"); }
struct MA { MA() noexcept; MA(const MA&) noexcept; MA(MA&&) noexcept; MA& operator=(const MA&) noexcept; MA& operator=(MA&&); ~MA(); RELOPS(MA) };
struct MC { MC() noexcept; MC(const MC&); MC(MC&&); MC& operator=(const MC&) noexcept; MC& operator=(MC&&) noexcept; ~MC(); RELOPS(MC) };
static_assert(std::is_nothrow_move_constructible<MA>::value && !std::is_nothrow_move_assignable<MA>::value
              && !std::is_nothrow_move_constructible<MC>::value && std::is_nothrow_move_assignable<MC>::value, "fixtures MA / MC");
namespace c05_swapcheck { static_assert(!noexcept(swap(std::declval<MA&>(), std::declval<MA&>())) && !noexcept(swap(std::declval<MC&>(), std::declval<MC&>())), "fixtures MA / MC: std::swap"); }
struct IL { IL(std::initializer_list<int>, int); IL(int, int); };
static_assert(std::is_trivially_copyable<Triv>::value && std::is_nothrow_move_constructible<NT>::value && !std::is_nothrow_copy_constructible<NT>::value
              && !std::is_nothrow_move_constructible<TM>::value && !std::is_copy_constructible<MO>::value && !std::is_default_constructible<NDC>::value
              && !std::is_nothrow_default_constructible<TD>::value && std::is_nothrow_move_assignable<NA>::value
              && std::is_trivially_copy_assignable<TA>::value && std::is_trivially_move_assignable<TA>::value
              && !std::is_trivially_copy_constructible<TA>::value && !std::is_trivially_destructible<TA>::value, "fixtures");
using V4 = xtl::variant<int, NT, TM, Triv>;
using VH = xtl::variant<int, long>;
using RV2 = xtl::variant<xtl::xclosure_wrapper<int&>, xtl::xclosure_wrapper<double&>>;
using RV3 = xtl::variant<xtl::xclosure_wrapper<int&>, xtl::xclosure_wrapper<const int&>, xtl::xclosure_wrapper<double&>>;
using RV4 = xtl::variant<xtl::xclosure_wrapper<const int&>, xtl::xclosure_wrapper<const double&>>;
struct IntVis { template <class... X> int operator()(X&&...) const; };
struct RefVis { template <class... X> const int& operator()(X&&...) const; };
template <class V> constexpr bool nothrow_swap() { return noexcept(std::declval<V&>().swap(std::declval<V&>())); }
template <class V> constexpr bool nothrow_free_swap() { using std::swap; return noexcept(swap(std::declval<V&>(), std::declval<V&>())); }
'''

CPP_KIND = {"int": "int", "long": "long", "char": "char", "float": "float", "double": "double", "bool": "bool",
            "cstr": "const char*", "string": "std::string", "Triv": "Triv", "NA": "NA", "TA": "TA", "NT": "NT", "TM": "TM", "MO": "MO",
            "NDC": "NDC", "TD": "TD", "SW": "SW", "TS": "TS", "MA": "MA", "MC": "MC"}
ARG_EXPR = {"int": "65", "long": "66L", "char": "'C'", "float": "1.5f", "double": "2.5", "bool": "true",
            "cstr": 'static_cast<const char*>("abc")', "string": 'std::string("abc")'}
TRAIT_EXPR = {
    "default_constructible": "std::is_default_constructible<{V}>::value",
    "nothrow_default_constructible": "std::is_nothrow_default_constructible<{V}>::value",
    "copy_constructible": "std::is_copy_constructible<{V}>::value",
    "move_constructible": "std::is_move_constructible<{V}>::value",
    "nothrow_move_constructible": "std::is_nothrow_move_constructible<{V}>::value",
    "copy_assignable": "std::is_copy_assignable<{V}>::value",
    "move_assignable": "std::is_move_assignable<{V}>::value",
    "nothrow_move_assignable": "std::is_nothrow_move_assignable<{V}>::value",
    "nothrow_swappable": "nothrow_swap<{V}>()",
    "nothrow_destructible": "std::is_nothrow_destructible<{V}>::value",
    "trivially_copy_constructible": "std::is_trivially_copy_constructible<{V}>::value",
    "trivially_move_constructible": "std::is_trivially_move_constructible<{V}>::value",
    "trivially_copy_assignable": "std::is_trivially_copy_assignable<{V}>::value",
    "trivially_move_assignable": "std::is_trivially_move_assignable<{V}>::value",
    "trivially_destructible": "std::is_trivially_destructible<{V}>::value",
}
V4_ALT = ["int", "NT", "TM", "Triv"]
FORM_DECL = {"l": "{V}&", "cl": "const {V}&", "r": "{V}&&", "cr": "const {V}&&"}

# [variant.syn] and friends: what the conformance driver (and any client) relies on; every row must hold ("must")
SYN_ROWS = [
    "std::is_same<decltype(std::declval<const V4&>().index()), std::size_t>::value && noexcept(std::declval<const V4&>().index())",
    "std::is_same<decltype(std::declval<const V4&>().valueless_by_exception()), bool>::value && noexcept(std::declval<const V4&>().valueless_by_exception())",
    "xtl::variant_npos == static_cast<std::size_t>(-1)",
    "xtl::variant_size<V4>::value == 4 && xtl::variant_size<const V4>::value == 4",
    "std::is_same<xtl::variant_alternative_t<1, V4>, NT>::value && std::is_same<xtl::variant_alternative_t<2, const V4>, const TM>::value",
    "std::is_base_of<std::exception, xtl::bad_variant_access>::value",
    "std::is_same<decltype(xtl::holds_alternative<0>(std::declval<const V4&>())), bool>::value && noexcept(xtl::holds_alternative<0>(std::declval<const V4&>()))",
    "std::is_same<decltype(xtl::holds_alternative<TM>(std::declval<const V4&>())), bool>::value && noexcept(xtl::holds_alternative<TM>(std::declval<const V4&>()))",
    "noexcept(xtl::get_if<1>(std::declval<V4*>())) && noexcept(xtl::get_if<NT>(std::declval<const V4*>()))",
    "std::is_same<decltype(std::declval<V4&>().emplace<1>()), NT&>::value && std::is_same<decltype(std::declval<V4&>().emplace<TM>()), TM&>::value",
    "std::is_same<decltype(std::declval<xtl::variant<int, IL>&>().emplace<1>({1, 2}, 3)), IL&>::value && std::is_same<decltype(std::declval<xtl::variant<int, IL>&>().emplace<IL>(1, 2)), IL&>::value",
    "std::is_same<decltype(std::declval<V4&>() = std::declval<const V4&>()), V4&>::value && std::is_same<decltype(std::declval<V4&>() = std::declval<V4&&>()), V4&>::value",
    "std::is_same<decltype(std::declval<V4&>() = 1), V4&>::value && std::is_same<decltype(std::declval<V4&>() = std::declval<const NT&>()), V4&>::value",
    "std::is_same<decltype(std::declval<const V4&>() == std::declval<const V4&>()), bool>::value && std::is_same<decltype(std::declval<const V4&>() != std::declval<const V4&>()), bool>::value",
    "std::is_same<decltype(std::declval<const V4&>() < std::declval<const V4&>()), bool>::value && std::is_same<decltype(std::declval<const V4&>() > std::declval<const V4&>()), bool>::value",
    "std::is_same<decltype(std::declval<const V4&>() <= std::declval<const V4&>()), bool>::value && std::is_same<decltype(std::declval<const V4&>() >= std::declval<const V4&>()), bool>::value",
    "std::is_same<decltype(xtl::visit(std::declval<IntVis>())), int>::value && std::is_same<decltype(xtl::visit(std::declval<IntVis>(), std::declval<V4&>(), std::declval<const V4&>())), int>::value",
    "std::is_same<decltype(xtl::visit(std::declval<RefVis>(), std::declval<V4&&>())), const int&>::value && std::is_same<decltype(xtl::visit(std::declval<IntVis>(), std::declval<V4&>(), std::declval<V4&&>(), std::declval<const V4&&>())), int>::value",
    "std::is_same<decltype(std::hash<VH>{}(std::declval<const VH&>())), std::size_t>::value && std::is_same<decltype(std::hash<xtl::monostate>{}(xtl::monostate{})), std::size_t>::value",
    "xtl::monostate{} == xtl::monostate{} && !(xtl::monostate{} != xtl::monostate{}) && !(xtl::monostate{} < xtl::monostate{}) && !(xtl::monostate{} > xtl::monostate{}) && xtl::monostate{} <= xtl::monostate{} && xtl::monostate{} >= xtl::monostate{}",
    "noexcept(xtl::monostate{} == xtl::monostate{}) && noexcept(xtl::monostate{} < xtl::monostate{})",
    "!std::is_convertible<mpark::in_place_index_t<1>, V4>::value && std::is_constructible<V4, mpark::in_place_index_t<1>>::value && std::is_constructible<V4, mpark::in_place_type_t<TM>, const TM&>::value",
    "std::is_constructible<xtl::variant<int, IL>, mpark::in_place_index_t<1>, std::initializer_list<int>, int>::value && std::is_constructible<xtl::variant<int, IL>, mpark::in_place_type_t<IL>, int, int>::value",
    "!std::is_constructible<V4, mpark::in_place_index_t<0>, NT>::value && !std::is_constructible<xtl::variant<int, int>, int>::value",
    "nothrow_free_swap<xtl::variant<int, NT>>() && !nothrow_free_swap<V4>() && nothrow_swap<xtl::variant<int, NT>>() == nothrow_free_swap<xtl::variant<int, NT>>()",
    "xtl::variant<int, long>().index() == 0 && xtl::variant<int, long>(5L).index() == 1 && xtl::get<1>(xtl::variant<int, long>(5L)) == 5L",
    "xtl::holds_alternative<long>(xtl::variant<int, long>(5L)) && !xtl::variant<int, long>(5).valueless_by_exception()",
    "std::is_same<xtl::variant<int, long>, mpark::variant<int, long>>::value && std::is_same<xtl::monostate, mpark::monostate>::value",
]


def enumerate_rows(ctx):
    r = core.tlc_model_check(ctx, "VariantTraits", "VariantTraits.cfg", "compile-time contract tables (traits, converting overload resolution, get types)",
                             workers=2, timeout=600)
    if r["violated"]:
        raise MachineryError("specs/VariantTraits.tla violates its own laws (%s), see %s" % (r["violated"], r["outfile"]))
    rows = [json.loads(json.loads(l)[3:]) for l in r["out"].splitlines() if l.startswith('"@R@')]
    rows.sort(key=lambda x: json.dumps(x, sort_keys=True))
    r["out"] = ""
    if not rows:
        raise MachineryError("VariantTraits: no rows enumerated")
    return rows


def vtype(S):
    return "xtl::variant<%s>" % ", ".join(CPP_KIND[k] for k in S)


def static_expr(row):
    """The boolean constant expression that must be true for a trait / get / syn row (None for conv rows)."""
    t = row["t"]
    if t == "trait":
        return "%s == %s" % (TRAIT_EXPR[row["trait"]].format(V=vtype(row["S"])), "true" if row["want"] else "false")
    if t == "syn":
        return row["expr"]
    if t == "get":
        T = V4_ALT[row["alt"]]
        sel = str(row["alt"]) if row["by"] == "index" else T
        return "std::is_same<decltype(xtl::get<%s>(std::declval<%s>())), %s>::value" % (sel, FORM_DECL[row["form"]].format(V="V4"), row["type"].replace("T", T))
    if t == "get_if":
        T = V4_ALT[row["alt"]]
        sel = str(row["alt"]) if row["by"] == "index" else T
        return "std::is_same<decltype(xtl::get_if<%s>(std::declval<%sV4*>())), %s>::value" % (sel, "const " if row["c"] else "", row["type"].replace("T", T))
    if t == "xget":
        T = V4_ALT[row["alt"]]
        return "std::is_same<decltype(xtl::xget<%s>(std::declval<%s>())), %s>::value" % (T, FORM_DECL[row["form"]].format(V="V4"), row["type"].replace("T", T))
    if t == "xgetref":
        if row["list"] == 4 and row["want"] == "ref":
            return None          # xget<int&> on a variant without closure<int&> is not a valid call
        return "std::is_same<decltype(xtl::xget<%s>(std::declval<%s>())), %s>::value" % (
            "int&" if row["want"] == "ref" else "const int&", FORM_DECL[row["form"]].format(V="RV%d" % row["list"]), row["type"])
    return None


def judge_static(row):
    """A failing static row: 'violation' or 'advisory' (see VariantTraits.tla, TraitRows)."""
    if row["t"] != "trait":
        return "violation"
    if row["dir"] == "must":
        return "violation" if row["want"] else "advisory"      # an operation the property quantifies over is missing
    if row["dir"] == "nothrow":
        return "advisory" if row["want"] else "violation"      # noexcept claimed although an alternative may throw
    if row["dir"] == "trivial":
        return "advisory" if row["want"] else "violation"      # trivial (byte-wise) although an alternative's own member is not
    return "advisory"


def compile_syntax(ctx, path):
    cmd = [core.CXX, "-std=c++14", "-fsyntax-only", "-w", "-fmax-errors=0", "-I", core.INCLUDE, path]
    return core.sh(cmd, timeout=900)


def write_static_tu(path, rows):
    lines, n = {}, PRELUDE.count("\n") + 1
    with open(path, "w") as f:
        f.write(PRELUDE + "\n")
        for i, row in rows:
            f.write('static_assert(%s, "C05ROW %d");\n' % (static_expr(row), i))
            n += 1
            lines[n] = i
        f.write("int main() { return 0; }\n")
    return lines


def failing_static(ctx, rows, tag="all", depth=0):
    """Row ids whose static_assert fails (or whose instantiation is ill-formed) against the tree."""
    d = ctx.sub("probe")
    p = os.path.join(d, "static_%s.cpp" % tag)
    lines = write_static_tu(p, rows)
    rc, out = compile_syntax(ctx, p)
    if rc == 0:
        return set(), ""
    if rc == 124:
        raise MachineryError("compiling the compile-time table timed out")
    ids = set(int(x) for x in re.findall(r"C05ROW (\d+)", out))
    for ln in re.findall(re.escape(os.path.basename(p)) + r":(\d+):\d+:", out):
        if int(ln) in lines:
            ids.add(lines[int(ln)])
    if ids or not rows:
        if not rows:
            raise MachineryError("the prologue of the compile-time table does not compile against %s:\n%s" % (core.INCLUDE, out[-3000:]))
        return ids, out
    if len(rows) == 1:
        return {rows[0][0]}, out
    if depth == 0:
        rc0, out0 = compile_syntax(ctx, _empty(ctx))
        if rc0 != 0:
            raise MachineryError("the prologue of the compile-time table does not compile against %s:\n%s" % (core.INCLUDE, out0[-3000:]))
    half = len(rows) // 2
    a, oa = failing_static(ctx, rows[:half], tag + "a", depth + 1)
    b, ob = failing_static(ctx, rows[half:], tag + "b", depth + 1)
    return a | b, oa + ob


def _empty(ctx):
    p = os.path.join(ctx.sub("probe"), "empty.cpp")
    write_static_tu(p, [])
    return p


CONV_HELPERS = r'''
template <class V, class A> int conv_ctor(A&& a, std::true_type) { V v(std::forward<A>(a)); return (int)v.index(); }
template <class V, class A> int conv_ctor(A&&, std::false_type) { return -1; }
template <class V, class A> int conv_assign(A&& a, std::true_type) { V v; v = std::forward<A>(a); return (int)v.index(); }
template <class V, class A> int conv_assign(A&&, std::false_type) { return -1; }
#define ROW(N, V, AT, AE) static void row##N() { std::printf("{\"row\":%d,", N); std::fflush(stdout); \
    int c = conv_ctor<V>(AE, std::is_constructible<V, AT>{}); int a = conv_assign<V>(AE, std::is_assignable<V&, AT>{}); \
    std::printf("\"ctor\":%d,\"assign\":%d}\n", c, a); std::fflush(stdout); }
'''
# fixtures declared but not defined in PRELUDE are never odr-used by the conversion program (arithmetic / string alternatives only)


def write_conv_program(path, rows):
    lines, n = {}, (PRELUDE + CONV_HELPERS).count("\n") + 1
    with open(path, "w") as f:
        f.write(PRELUDE + CONV_HELPERS + "\n")
        for i, row in rows:
            f.write("using CV%d = %s; ROW(%d, CV%d, %s, %s)\n" % (i, vtype(row["S"]), i, i, CPP_KIND[row["arg"]], ARG_EXPR[row["arg"]]))
            n += 1
            lines[n] = i
        f.write("#include <cstdlib>\nint main(int argc, char** argv) {\n  int from = argc > 1 ? std::atoi(argv[1]) : 0;\n"
                + "".join("  if (%d >= from) row%d();\n" % (i, i) for i, _ in rows) + "  return 0;\n}\n")
    return lines


def observe_conv(ctx, rows):
    """Compile and run the conversion program; returns ({row id: (ctor index, assign index)}, ids that do not compile)."""
    d = ctx.sub("probe")
    bad = set()
    for attempt in range(3):
        use = [(i, r) for i, r in rows if i not in bad]
        p = os.path.join(d, "conv_%d.cpp" % attempt)
        exe = os.path.join(d, "conv_%d" % attempt)
        lines = write_conv_program(p, use)
        rc, out = core.sh([core.CXX, "-std=c++14", "-O0", "-w", "-fmax-errors=0", "-I", core.INCLUDE, p, "-o", exe], timeout=900)
        if rc == 0:
            # a row whose evaluation crashes (or does not return) is recorded as such and the program restarted behind it
            obs, start = {}, 0
            for restart in range(8):
                rc2, txt = core.sh([exe, str(start)], timeout=120, env=core.ASAN_ENV)
                crashed = None
                for l in txt.splitlines():
                    m = re.match(r'\{"row":(\d+),"ctor":(-?\d+),"assign":(-?\d+)\}$', l)
                    if m:
                        obs[int(m.group(1))] = (int(m.group(2)), int(m.group(3)))
                    else:
                        m = re.match(r'\{"row":(\d+),', l)
                        if m:
                            crashed = int(m.group(1))
                if rc2 == 0 and crashed is None:
                    break
                if crashed is None:
                    raise MachineryError("the conversion probe program failed without naming a row (rc=%s): %s" % (rc2, txt[-800:]))
                obs[crashed] = ("crash", "crash")
                start = crashed + 1
            for i, _ in use:
                obs.setdefault(i, ("not evaluated", "not evaluated"))
            return obs, bad
        more = set()
        for ln in re.findall(re.escape(os.path.basename(p)) + r":(\d+):\d+:", out):
            if int(ln) in lines:
                more.add(lines[int(ln)])
        if not more:
            raise MachineryError("the conversion probe program does not compile against %s:\n%s" % (core.INCLUDE, out[-3000:]))
        bad |= more
    raise MachineryError("the conversion probe program does not compile against %s after dropping %d rows" % (core.INCLUDE, len(bad)))


MAX_PROBE_REPORTED = 4


def describe(row):
    t = row["t"]
    if t == "trait":
        return "%s must be %s for %s ([variant.ctor]/[variant.assign]/[variant.swap])" % (row["trait"], str(row["want"]).lower(), vtype(row["S"]))
    if t == "conv":
        return "converting constructor / assignment of %s from an argument of type %s must select alternative %s (-1: no such overload)" % (
            vtype(row["S"]), CPP_KIND[row["arg"]], " or ".join(str(x) for x in sorted({row["cxx17"], row["p0608"]})))
    if t == "syn":
        return "[variant.syn]: " + row["expr"]
    return "%s row %s: %s" % (t, json.dumps({k: v for k, v in row.items() if k not in ("t",)}, sort_keys=True), static_expr(row))


def run(ctx, only=None, register=True):
    """Evaluate the tables against the tree.  Violations are registered on ctx (at most a handful, each with a replay);
    advisory deviations become MODEL-DRIFT notes.  only: rows (as read from a replay file) to evaluate instead of all."""
    if only is None:
        rows = enumerate_rows(ctx) + [{"t": "syn", "expr": e} for e in SYN_ROWS]
    else:
        rows = only
    rows = list(enumerate(rows))
    static = [(i, r) for i, r in rows if r["t"] != "conv" and static_expr(r) is not None]
    conv = [(i, r) for i, r in rows if r["t"] == "conv"]
    failing, out = failing_static(ctx, static) if static else (set(), "")
    viol, adv = [], []
    for i, r in static:
        if i in failing:
            (viol if judge_static(r) == "violation" else adv).append((i, r, "static_assert(%s) fails" % static_expr(r)))
    nconv_checked = 0
    if conv:
        obs, bad = observe_conv(ctx, conv)
        for i, r in conv:
            allowed = {r["cxx17"], r["p0608"]}
            if i in bad:
                viol.append((i, r, "the converting constructor / assignment is ill-formed for this argument"))
                continue
            nconv_checked += 1
            c, a = obs[i]
            if c == "not evaluated":
                continue
            if c not in allowed or a not in allowed:
                viol.append((i, r, "observed: constructor selects %s, assignment selects %s" % (c, a)))
    ctx.notes["compile_time_table"] = {"rows": len(rows), "static_asserts": len(static), "conversion_rows_run": nconv_checked,
                                       "by_table": {t: sum(1 for _, r in rows if r["t"] == t) for t in sorted({r["t"] for _, r in rows})},
                                       "failing_violation": len(viol), "failing_advisory": len(adv)}
    ctx.cov["evaluations"] += len(static) + 2 * nconv_checked
    ctx.log("compile-time table: %d rows (%d static_asserts, %d conversion rows x {construct, assign}); %d violate, %d advisory"
            % (len(rows), len(static), nconv_checked, len(viol), len(adv)))
    for i, r, why in adv[:3]:
        ctx.drift.append("compile-time table (advisory, not demanded by the property): %s; %s" % (describe(r), why))
    # a handful of distinct violations (one per table / trait first)
    seen, chosen, rest = set(), [], []
    for v in viol:
        k = (v[1]["t"], v[1].get("trait"), v[1].get("form"), v[1].get("arg"))
        (chosen if k not in seen else rest).append(v)
        seen.add(k)
    report = (chosen + rest[:1])[:MAX_PROBE_REPORTED] if len(chosen) < MAX_PROBE_REPORTED else chosen[:MAX_PROBE_REPORTED]
    if len(viol) > len(report):
        ctx.notes["compile_time_table"]["violations_not_reported_individually"] = len(viol) - len(report)
    for n, (i, r, why) in enumerate(report):
        if register:
            ctx.violation("compile-time contract of xtl::variant: %s; %s" % (describe(r), why), replay_lines=[{"probe": r}])
    if ctx.sample and static:
        ctx.sample({"table_row": static[len(static) // 2][1], "static_assert": static_expr(static[len(static) // 2][1])})
    return viol, adv


def replay(ctx, rows, path):
    viol, adv = run(ctx, only=rows, register=False)
    if not viol:
        print("replay accepted: the recorded table rows now hold")
        return 0
    print("VIOLATION property=C05 replay=%s" % path)
    for i, r, why in viol:
        print("  %s; %s" % (describe(r), why))
    return 1

"""C01 - xbasic_fixed_string behaves as a std::basic_string bounded by its capacity N.

 0. Compile-time: the public interface as a table of static_asserts (harness/fixedstring/sig_probe.cpp, 283 rows:
    every overload exists and returns what std::basic_string returns); wchar_t / char32_t instantiate.
 1. TLC: FixedString.tla (L1) invariants, laws (independent scanning definitions of the search family,
    mirror laws, insert/erase/replace algebra), observer purity; both policies, packed and strlen rules,
    sources that lie inside the object itself included.
 2. TLC: FixedStringImpl.tla (L2, buffer-level transcription of the three storage layouts, aliasing sources
    read from the cells as they are when the copy runs) refines L1.
 3. S->C: TLC enumerates every (state, call, arguments) transition of L1 at N = 3 (all 40 strings over
    {NUL, 1, 2}, positions / counts 0..N+2 and npos, defaulted arguments, every overload family and source
    kind incl. the object itself / pointers / iterators into it); each call is replayed on real objects
    (packed char, strlen char, packed char16_t[, wchar_t]) reached through clean and dirty histories and the
    observed result / projection are compared with TLC's.  Thorough: N = 4 (121 strings), stratified sample.
 4. C->S: the upstream unit tests' own call sequences; seeded random scripts, boundary biased, for N in
    {1, 2, 15, 16, 128, 200, 255 (packed), 256, 300 (size field)}, strlen N = 16, char16_t, wchar_t (negative code
    units), char32_t, drivers built with g++ / clang++, -O0/-O1/-O2, NDEBUG, XTL_NO_EXCEPTIONS; every recorded step
    is validated by TLC against FixedStringTrace.tla, which also requires std::hash to be a function of the
    characters alone (C14 clause).
 5. The same scripts are run on std::basic_string: the specification must accept the standard library.
Within the capacity only (no call may exceed N); C02 covers the failing calls of the throwing policy.
"""
import json, os, random
from concurrent.futures import ThreadPoolExecutor
from vlib import core, fixedstring as fx, fixedstring_upstream as up, fixedstring_r3 as r3
from vlib.core import MachineryError

PID = "C01"


def replay(ctx, path):
    return fx.replay(ctx, path, PID)


def run(ctx):
    started = []        # background work (TLC enumerations) that must not outlive the run, whatever way it ends
    try:
        return _run(ctx, started)
    finally:
        for x in started:
            x.close()


def _run(ctx, started):
    q = ctx.quick
    findings = fx.effective_findings(PID)
    cls = fx.classify(findings)
    mk = fx.make_cfg

    s2c_targets = {
        "p3": [mk("char", 3, 0, 0), mk("char16_t", 3, 0, 0)],
        "s3": [mk("char", 3, 1, 0)],
    }
    # (the build flavours - compiler, optimisation level, NDEBUG - ride on configurations that are needed anyway)
    # p16t, s16t and p255t are also the configurations of the upstream tests (one driver build serves both)
    rnd_cfgs = [mk("char", 1, 0, 0), mk("char", 16, 0, 1), mk("char", 128, 0, 0, fl="o"), mk("char", 255, 0, 1), mk("char", 256, 0, 1, fl="co"),
                mk("char", 300, 0, 0, fl="c"), mk("char", 16, 1, 1), mk("char16_t", 16, 0, 0)]
    # capacities 3..7: the whole object is no larger than a size_t there (a hash of the object's bytes instead of its characters shows as two hashes
    # for one string; the recorded executions log std::hash after every call and reach equal strings through different, dirty histories)
    rnd_cfgs += [mk("char", 7, 0, 0), mk("char", 5, 1, 1), mk("char", 3, 0, 1)]
    ref_cfgs = [mk("char", 16, 0, 0, ref=1)]
    if not q:
        rnd_cfgs += [mk("char", 2, 0, 1), mk("char", 15, 0, 0, fl="co"), mk("char", 16, 0, 0, fl="z"), mk("char", 255, 0, 0, fl="o"), mk("char", 256, 0, 0),
                     mk("char", 300, 0, 1), mk("char", 1, 1, 1), mk("char", 2, 1, 0), mk("char", 16, 1, 0, fl="co"), mk("char16_t", 300, 0, 1), mk("char", 6, 0, 1), mk("char", 4, 1, 0),
                     mk("char", 8, 1, 1, fl="o"), mk("char", 200, 0, 0), mk("char", 129, 0, 1, fl="c"), mk("char", 16, 0, 0, fl="x"), mk("char", 16, 1, 0, fl="x")]
        ref_cfgs += [mk("char16_t", 16, 0, 0, ref=1), mk("wchar_t", 16, 0, 0, ref=1)]

    # ---- wchar_t / char32_t with the default storage: does it compile? (compile-time clause of the property)
    wide_ok, wide_out = fx.wide_probe(ctx)
    if wide_ok:
        rnd_cfgs.append(mk("wchar_t", 16, 0, 1))
        if not q:
            s2c_targets["p3"].append(mk("wchar_t", 3, 0, 0))
            rnd_cfgs += [mk("char32_t", 16, 0, 0), mk("wchar_t", 300, 0, 0, fl="o")]
    else:
        msg = [l for l in wide_out.splitlines() if "error" in l][:2]
        ctx.violation("xbasic_fixed_string<wchar_t, N> / <char32_t, N> with the default storage does not compile: %s" % " | ".join(msg),
                      replay_lines=[json.dumps({"_meta": {"kind": "compile", "src": "harness/fixedstring/wide_probe.cpp"}})])

    sim_cfgs = []
    if not q:
        s2c_targets["p4"] = [mk("char", 4, 0, 0)]
        s2c_targets["s4"] = [mk("char", 4, 1, 0)]
        # TLC -simulate walks (S->C, whole behaviours): N = 8 as before; round 3: N = 5 (many short walks: every string of 5 characters
        # is far beyond what BFS enumerates) and N = 7 (long walks)
        sim_cfgs = [("FixedString_sim_packed_silent.cfg", mk("char", 8, 0, 0), 500, 40), ("FixedString_sim_strlen_silent.cfg", mk("char", 8, 1, 0), 500, 40),
                    ("FixedString_sim5_packed_silent.cfg", mk("char", 5, 0, 0), 800, 30), ("FixedString_sim5_strlen_silent.cfg", mk("char", 5, 1, 0), 800, 30),
                    ("FixedString_sim7_packed_silent.cfg", mk("char", 7, 0, 0), 300, 80), ("FixedString_sim7_strlen_silent.cfg", mk("char", 7, 1, 0), 300, 80)]
    up_scripts = [(n, mk(**kw), ev) for n, kw, ev in up.scripts()]
    directed = fx.merge_by_cfg("directed", up_scripts + [("alias-%d" % i, mk(**kw), ev) for i, (kw, ev) in enumerate(fx.ALIAS_DIRECTED)])
    all_cfgs = [c for v in s2c_targets.values() for c in v] + rnd_cfgs + ref_cfgs + [x[1] for x in sim_cfgs] + [c for _, c, _ in directed]
    pool = ThreadPoolExecutor(max_workers=1)
    fut = pool.submit(fx.prepare, ctx, all_cfgs)
    # the S->C enumerations do not depend on the include tree: TLC starts on them now, the replays use them later
    S2C = (("p3", ["FixedString_s2c_p3_silent.cfg", "FixedString_s2c_p3_silent_pair.cfg"]),
           ("s3", ["FixedString_s2c_s3_silent.cfg", "FixedString_s2c_s3_silent_pair.cfg"]),
           ("p4", ["FixedString_s2c_p4_silent.cfg", "FixedString_s2c_p4_silent_pair.cfg"]),
           ("s4", ["FixedString_s2c_s4_silent.cfg", "FixedString_s2c_s4_silent_pair.cfg"]))
    enums = fx.Enumerations(ctx, [cfg for key, cfgs in S2C if key in s2c_targets for cfg in cfgs], ahead=3 if q else 2)
    started.append(enums)

    # ---- 1. L1 model checking
    with fx.stage(ctx, "l1_model_check"):
        r = {"violated": None} if fx.SKIP_MC else fx.retry_killed(lambda: core.tlc_model_check(ctx, "FixedStringMC", "FixedString_mc.cfg" if q else "FixedString_mc_thorough.cfg",
                               "L1 invariants, laws, observer purity, failed calls change nothing", coverage=not q, heap="3g", timeout=2400, workers=fx.WORKERS))
    if r["violated"]:
        raise MachineryError("L1 spec FixedString.tla violates its own theorem %s (oracle bug), see %s" % (r["violated"], r["outfile"]))
    if r.get("coverage"):
        # TLC's -coverage counts per next-state disjunct; the per-action counts proper are those of the S->C
        # enumerations below (notes s2c_calls_replayed_per_action, vacuous_actions)
        ctx.notes["l1_mc_coverage_distinct_generated"] = r["coverage"]

    # ---- 2. L2 => L1 refinement (advisory)
    with fx.stage(ctx, "l2_refinement"):
        fx.l2_model_check(ctx, ["FixedStringImpl_mc.cfg", "FixedStringImpl_mc_n3q.cfg"] if q else ["FixedStringImpl_mc.cfg", "FixedStringImpl_mc_n3q.cfg", "FixedStringImpl_mc_thorough.cfg"],
                        "L2 (buffer-level transcription of the storage layouts, aliasing sources included) refines L1")

    with fx.stage(ctx, "wait_for_driver_builds"):
        drivers = fut.result()
    pool.shutdown()
    have = lambda c: c["name"] in drivers
    # findings this check proposes (PROPOSED_OPEN): their probes decide whether the class is avoided / reported as pending
    fx.probe_pending(ctx, findings, drivers)

    # ---- 3./4. C->S: upstream test sequences, directed aliasing executions, random scripts (+ the same generator on std::basic_string)
    scripts = [x for x in directed if have(x[1])]
    ctx.notes["upstream_test_scripts"] = {"scripts": len(up_scripts), "events": sum(len(e) for _, _, e in up_scripts),
                                          "not_expressible": len(up.NOT_EXPRESSIBLE)}
    for c in rnd_cfgs:
        if not have(c):
            continue
        big = c["n"] >= 128
        nexec, nops = ((12, 50) if big else (40, 60)) if q else ((80, 80) if big else (250, 90))
        lines = fx.random_script(ctx.seed, c, nexec, nops, fail_bias=0.04)
        for i, ch in enumerate(fx.chunk_by_reset(lines, 1 if q else 2)):
            scripts.append(("rnd-%s-%d" % (c["name"], i), c, ch))
    for simcfg, c, num, depth in sim_cfgs:
        if not have(c):
            continue
        lines, nw = fx.sim_scripts(ctx, simcfg, c, num, depth, c["name"])
        ctx.notes.setdefault("simulation_walks", {})[c["name"]] = nw
        for i, ch in enumerate(fx.chunk_by_reset(lines, 2)):
            scripts.append(("sim-%s-%d" % (c["name"], i), c, ch))
    for c in ref_cfgs:
        if have(c):
            lines = fx.random_script(ctx.seed + 17, c, 40 if q else 300, 45, fail_bias=0.04, allow_known=True)
            scripts.append(("ref-" + c["name"], c, lines))
    for fnd in findings:
        if "probe" in fnd:
            pc = mk(**fnd["probe"]["cfg"])
            if pc["name"] not in drivers:
                drivers.update(fx.build_drivers(ctx, [pc], tolerate=True))
            if pc["name"] in drivers:
                scripts.append(("probe-" + fnd["id"], pc, fnd["probe"]["script"]))
    if scripts:
        rs = [x for x in scripts if x[0].startswith("rnd-")]
        if rs:
            ctx.sample({"script": [json.dumps(x) for x in rs[min(3, len(rs) - 1)][2][:10]]})
        ctx.sample({"script": [json.dumps(x) for x in scripts[-1][2][:6]]})
        with fx.stage(ctx, "c2s_run_and_validate"):
            fx.run_and_validate(ctx, scripts, drivers, findings)
    ctx.cov["evaluations"] += ctx.cov["events_validated"]
    ctx.log("C->S: validated %d events of %d executions with TLC" % (ctx.cov["events_validated"], ctx.cov["traces_validated_against_impl"]))

    # ---- round 3, ADVISORY: the compile-time table beyond the statement, and the operations the statement does not name
    ext_cfgs = [mk("char", 16, 0, 1, fl="ej"), mk("char", 16, 1, 0, fl="e")]
    if not q:
        ext_cfgs += [mk("char", 300, 0, 0, fl="e"), mk("char", 3, 0, 1, fl="ej"), mk("char16_t", 16, 0, 1, fl="e"), mk("char", 255, 0, 0, fl="e")] + (
            [mk("wchar_t", 16, 0, 0, fl="e")] if wide_ok else [])
    with fx.stage(ctx, "advisory_round3"):
        r3.advisory_table(ctx, all_cfgs)
        r3.ext_stage(ctx, ext_cfgs)

    # ---- 5. S->C: every L1 transition at N = 3, silent policy (within the capacity); N = 4: stratified sample
    opcount = {}
    tot_replayed = 0
    for key, tcfgs in S2C:
        if key not in s2c_targets:
            continue
        if (fx.FAILFAST and ctx.violations) or len(ctx.violations) >= fx.ENOUGH_VIOLATIONS:
            ctx.log("S->C %s skipped: %d violations are reported already" % (key, len(ctx.violations)))
            continue
        # N = 3: the first target replays everything, the other character types a stratified sample (quick: a tenth, thorough: a quarter);
        # N = 4 (thorough): a stratified sample of the ~5 million transitions (see fixedstring.s2c_worker)
        n4 = key in ("p4", "s4")
        targets = [(c, drivers[c["name"]], fx.KEEP_N4 if n4 else 1.0 if i == 0 else (0.1, 30) if q else (0.25, 60)) for i, c in enumerate(s2c_targets[key]) if have(c)]
        if not targets:
            continue
        with fx.stage(ctx, "s2c_" + key):
            res = fx.s2c(ctx, targets, tcfgs, enums=enums)
        for c, drv, _ in targets:
            tot, mism = res[c["name"]]
            tot_replayed += tot["replayed"]
            ctx.cov["evaluations"] += tot["events"]
            for op, n in tot["ops"].items():
                opcount[op] = opcount.get(op, 0) + n
            ctx.notes.setdefault("s2c", {})[c["name"]] = {k: tot[k] for k in ("tlc_generated", "transitions", "replayed", "events", "strata", "strata_sampled")}
            fx.confirm_mismatches(ctx, c, drv, mism, cls)
    enums.close()
    ctx.notes["s2c_calls_replayed_per_action"] = opcount
    fx.vacuity(ctx, opcount, scripts)
    ctx.cov["distinct_nontrivial"] = tot_replayed

    ctx.log("S->C: %d calls compared" % tot_replayed)

    return fx.conclude(
        ctx, "model_checking",
        rule="TLC: L1 (FixedString.tla) exhaustive for N=2, 3 characters, both policies, packed + strlen rules, two objects, all overload "
             "families incl. sources inside the object itself (invariants, laws); L2=>L1 refinement of the three storage layouts; S->C: every L1 "
             "transition at N=3 out of all 40 strings over {NUL,1,2} (positions/counts 0..N+2, npos, defaulted arguments; second object from "
             "representatives) replayed on real packed-char / strlen-char objects (and a stratified part on char16_t / wchar_t) through clean and "
             "dirty histories, result and projection compared with TLC's%s; C->S: the upstream tests' call sequences, seeded boundary-biased scripts "
             "at N in {1,16,128,255,256,300}, strlen 16, char16_t, wchar_t, drivers built by g++ and clang++ at -O1/-O2 with and without NDEBUG, "
             "every step validated by TLC incl. hash function-ness; the same scripts accepted on std::basic_string; a 283-row compile-time table "
             "of the overload set and return types. A case is one call with its result and the full projection of both objects." % (
                 "" if q else "; N=4: out of the 121 strings a stratified sample (every stratum (pre-state, operation) of at most %d calls completely, "
                 "larger ones with probability max(%.2f, %d/size) per call, seeded)" % (fx.STRATUM_MIN, fx.KEEP_N4, fx.STRATUM_MIN)),
        assumptions=["the harness projection (size/length/empty/max_size, data(), iterators, guards) is read through the public API",
                     "std::basic_string-taking overloads and C strings are fed NUL-free contents; counted overloads get embedded NULs",
                     "one-argument resize(n) that grows the string is excluded from generation (open finding: pads with ' ')",
                     "stream extraction (operator>>) is not in the statement's operation list: modelled for non-empty white-space-free input only "
                     "(on empty / all-blank input xtl clears the string where std::basic_string leaves it unchanged: not judged)",
                     "a moved-from object may hold any valid string (free in trace validation; 'unchanged' where TLC enumerates)",
                     "XTL_NO_EXCEPTIONS builds are exercised within the contract only (a failing check terminates the program there)",
                     "char16_t capacities >= 65536 (size-field layout for 2-byte characters) and the json conversion of xjson.hpp are not exercised"],
        exhaustive=False)

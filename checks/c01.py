"""C01 - xbasic_fixed_string behaves as a std::basic_string bounded by its capacity N.

 1. TLC: FixedString.tla (L1) invariants, laws (independent scanning definitions of the search family,
    mirror laws, insert/erase/replace algebra), observer purity; both policies, packed and strlen rules.
 2. TLC: FixedStringImpl.tla (L2, buffer-level transcription of the three storage layouts) refines L1.
 3. S->C: TLC enumerates every (state, call, arguments) transition of L1 at N = 3 (all 40 strings over
    {NUL, 1, 2}, positions / counts 0..N+2 and npos, defaulted arguments, every overload family and source
    kind); each call is replayed on real objects (packed char, strlen char, packed char16_t[, wchar_t])
    reached through clean and dirty histories and the observed result / projection are compared with TLC's.
 4. C->S: seeded random scripts, boundary biased, for N in {1, 2, 15, 16, 255 (packed), 256, 300 (size
    field)}, strlen N = 16, char16_t; every recorded step is validated by TLC against FixedStringTrace.tla,
    which also requires std::hash to be a function of the characters alone (C14 clause).
 5. The same scripts are run on std::basic_string: the specification must accept the standard library.
Within the capacity only (no call may exceed N); C02 covers the failing calls of the throwing policy.
"""
import json, os, random
from concurrent.futures import ThreadPoolExecutor
from vlib import core, fixedstring as fx
from vlib.core import MachineryError

PID = "C01"


def replay(ctx, path):
    return fx.replay(ctx, path, PID)


def run(ctx):
    q = ctx.quick
    findings = core.load_findings(PID)
    cls = fx.classify(findings)
    mk = fx.make_cfg

    s2c_targets = {
        "p3": [mk("char", 3, 0, 0), mk("char16_t", 3, 0, 0)],
        "s3": [mk("char", 3, 1, 0)],
    }
    rnd_cfgs = [mk("char", 1, 0, 0), mk("char", 2, 0, 1), mk("char", 15, 0, 0), mk("char", 16, 0, 1), mk("char", 255, 0, 0),
                mk("char", 256, 0, 1), mk("char", 300, 0, 0), mk("char", 16, 1, 0), mk("char16_t", 16, 0, 0)]
    ref_cfgs = [mk("char", 16, 0, 0, ref=1)]
    if not q:
        rnd_cfgs += [mk("char", 16, 0, 0), mk("char", 255, 0, 1), mk("char", 256, 0, 0), mk("char", 300, 0, 1), mk("char", 1, 1, 1),
                     mk("char", 2, 1, 0), mk("char", 16, 1, 1), mk("char16_t", 300, 0, 1), mk("char", 7, 0, 0), mk("char", 8, 1, 1)]
        ref_cfgs.append(mk("char16_t", 16, 0, 0, ref=1))

    # ---- wchar_t / char32_t with the default storage: does it compile? (compile-time clause of the property)
    wide_ok, wide_out = fx.wide_probe(ctx)
    if wide_ok:
        rnd_cfgs.append(mk("wchar_t", 16, 0, 1))
        if not q:
            s2c_targets["p3"].append(mk("wchar_t", 3, 0, 0))
            rnd_cfgs.append(mk("char32_t", 16, 0, 0))
    else:
        msg = [l for l in wide_out.splitlines() if "error" in l][:2]
        ctx.violation("xbasic_fixed_string<wchar_t, N> / <char32_t, N> with the default storage does not compile: %s" % " | ".join(msg),
                      replay_lines=[json.dumps({"_meta": {"kind": "compile", "src": "harness/fixedstring/wide_probe.cpp"}})])

    sim_cfgs = []
    if not q:
        s2c_targets["p4"] = [mk("char", 4, 0, 0)]
        s2c_targets["s4"] = [mk("char", 4, 1, 0)]
        sim_cfgs = [("packed", mk("char", 8, 0, 0)), ("strlen", mk("char", 8, 1, 0))]
    all_cfgs = [c for v in s2c_targets.values() for c in v] + rnd_cfgs + ref_cfgs + [c for _, c in sim_cfgs]
    pool = ThreadPoolExecutor(max_workers=1)
    fut = pool.submit(fx.build_drivers, ctx, all_cfgs)

    # ---- 1. L1 model checking
    r = {"violated": None} if fx.SKIP_MC else core.tlc_model_check(ctx, "FixedStringMC", "FixedString_mc.cfg" if q else "FixedString_mc_thorough.cfg",
                             "L1 invariants, laws, observer purity, failed calls change nothing", coverage=not q, heap="8g", timeout=2400, workers=fx.WORKERS)
    if r["violated"]:
        raise MachineryError("L1 spec FixedString.tla violates its own theorem %s (oracle bug), see %s" % (r["violated"], r["outfile"]))
    if r.get("coverage"):
        # TLC's -coverage counts per next-state disjunct; the per-action counts proper are those of the S->C
        # enumerations below (notes s2c_calls_replayed_per_action, vacuous_actions)
        ctx.notes["l1_mc_coverage_distinct_generated"] = r["coverage"]

    # ---- 2. L2 => L1 refinement (advisory)
    for cfg in [] if fx.SKIP_MC else (["FixedStringImpl_mc.cfg"] if q else ["FixedStringImpl_mc.cfg", "FixedStringImpl_mc_thorough.cfg"]):
        if os.path.exists(os.path.join(core.SPECS, cfg)):
            r2 = core.tlc_model_check(ctx, "FixedStringImplMC", cfg, "L2 (buffer-level transcription of the storage layouts) refines L1", heap="8g", timeout=2400, workers=fx.WORKERS)
            if r2["violated"]:
                ctx.drift.append("FixedStringImpl.tla does not refine FixedString.tla (%s); see %s" % (r2["violated"], r2["outfile"]))

    drivers = fut.result()
    pool.shutdown()

    # ---- 3./4. C->S random scripts (+ the same generator on std::basic_string)
    scripts = []
    for c in rnd_cfgs:
        big = c["n"] >= 255
        nexec, nops = ((12, 40) if big else (40, 45)) if q else ((60, 50) if big else (300, 60))
        lines = fx.random_script(ctx.seed, c, nexec, nops, fail_bias=0.04)
        for i, ch in enumerate(fx.chunk_by_reset(lines, 1 if q else 3)):
            scripts.append(("rnd-%s-%d" % (c["name"], i), c, ch))
    for lay, c in sim_cfgs:
        lines, nw = fx.sim_scripts(ctx, "FixedString_sim_%s_silent.cfg" % lay, c, 500, 40, c["name"])
        ctx.notes.setdefault("simulation_walks", {})[c["name"]] = nw
        for i, ch in enumerate(fx.chunk_by_reset(lines, 2)):
            scripts.append(("sim-%s-%d" % (c["name"], i), c, ch))
    for c in ref_cfgs:
        lines = fx.random_script(ctx.seed + 17, c, 40 if q else 300, 45, fail_bias=0.04, allow_known=True)
        scripts.append(("ref-" + c["name"], c, lines))
    for fnd in findings:
        if "probe" in fnd:
            pc = mk(**fnd["probe"]["cfg"])
            if pc["name"] not in drivers:
                drivers.update(fx.build_drivers(ctx, [pc]))
            scripts.append(("probe-" + fnd["id"], pc, fnd["probe"]["script"]))
    ctx.sample({"script": [json.dumps(x) for x in scripts[3][2][:10]]})
    ctx.sample({"script": [json.dumps(x) for x in scripts[-1][2][:6]]})
    fx.run_and_validate(ctx, scripts, drivers, findings)
    ctx.cov["evaluations"] += ctx.cov["events_validated"]
    ctx.log("C->S: validated %d events of %d executions with TLC" % (ctx.cov["events_validated"], ctx.cov["traces_validated_against_impl"]))

    # ---- 5. S->C: every L1 transition at N = 3, silent policy (within the capacity)
    opcount = {}
    tot_replayed = 0
    for key, tcfgs in (("p3", ["FixedString_s2c_p3_silent.cfg", "FixedString_s2c_p3_silent_pair.cfg"]),
                       ("s3", ["FixedString_s2c_s3_silent.cfg", "FixedString_s2c_s3_silent_pair.cfg"]),
                       ("p4", ["FixedString_s2c_p4_silent.cfg", "FixedString_s2c_p4_silent_pair.cfg"]),
                       ("s4", ["FixedString_s2c_s4_silent.cfg", "FixedString_s2c_s4_silent_pair.cfg"])):
        if key not in s2c_targets:
            continue
        if fx.FAILFAST and ctx.violations:
            break
        # the first target replays everything; other character types a seeded quarter in the quick tier
        targets = [(c, drivers[c["name"]], 1.0 if (i == 0 or not q) else 0.25) for i, c in enumerate(s2c_targets[key])]
        res = fx.s2c(ctx, targets, tcfgs)
        for c, drv, _ in targets:
            tot, mism = res[c["name"]]
            tot_replayed += tot["replayed"]
            ctx.cov["evaluations"] += tot["events"]
            for op, n in tot["ops"].items():
                opcount[op] = opcount.get(op, 0) + n
            ctx.notes.setdefault("s2c", {})[c["name"]] = {k: tot[k] for k in ("tlc_generated", "transitions", "replayed", "events")}
            fx.confirm_mismatches(ctx, c, drv, mism, cls)
    ctx.notes["s2c_calls_replayed_per_action"] = opcount
    fx.vacuity(ctx, opcount, scripts)
    ctx.cov["distinct_nontrivial"] = tot_replayed

    ctx.log("S->C: %d calls compared" % tot_replayed)

    return core.finish(
        ctx, "model_checking",
        rule="TLC: L1 (FixedString.tla) exhaustive for N=2, 3 characters, both policies, packed + strlen rules, two objects, all overload "
             "families (invariants, laws); L2=>L1 refinement of the three storage layouts; S->C: every L1 transition at N=3 out of all "
             "%s strings over {NUL,1,2} (positions/counts 0..N+2, npos, defaulted arguments; second object from representatives) replayed "
             "on real packed-char / strlen-char objects (and a seeded part on char16_t / wchar_t) through clean and dirty histories, result "
             "and projection compared with TLC's; C->S: seeded boundary-biased scripts at N in {1,2,15,16,255,256,300}, strlen 16, char16_t, "
             "every step validated by TLC incl. hash function-ness; the same scripts accepted on std::basic_string. A case is one call with "
             "its result and the full projection of both objects." % ("40" if q else "121"),
        assumptions=["the harness projection (size/length/empty/max_size, data(), iterators, guards) is read through the public API",
                     "aliasing sources (the object itself as argument) are outside the property",
                     "std::basic_string-taking overloads and C strings are fed NUL-free contents; counted overloads get embedded NULs",
                     "one-argument resize(n) that grows the string is excluded from generation (open finding: pads with ' ')"],
        exhaustive=False)

"""C02 - with the throwing policy a fixed string stays inside its buffer and failed operations change nothing.

 Same specifications and harness as C01, Policy = "throwing":
 0. Compile-time: the signature table (harness/fixedstring/sig_probe.cpp) - the overloads the calls below need exist and
    return what std::basic_string returns (a changed signature is a VIOLATION, not a driver that does not build).
 1. TLC: FixedString.tla (L1): every action has the failing outcomes the standard requires (length_error
    when the result would be longer than N, out_of_range when a position exceeds the relevant length / at(i)
    with i >= size()); action property FailedChangesNothing; laws of the specification itself.
 2. TLC: FixedStringImpl.tla (L2): no cell beyond index N is ever written, a failing call is a stutter on the
    buffer (the length is published only after the check); refinement of L1 (N = 2 all layouts; N = 3, where the
    direction of the overlapping copies matters); sources inside the object itself included.
 3. S->C: every L1 transition at N = 3 - all 40 strings (lengths 0..N) x every operation x positions and
    counts 0..N+2 and npos - replayed on real packed and strlen objects placed between guard bytes, sources in
    exact-size heap buffers under AddressSanitizer; the exception class and the complete state after the call
    (= the state before it, for a failing call) are compared with TLC's.  Thorough: N = 4, stratified sample.
 4. C->S: the upstream tests' call sequences (incl. their EXPECT_THROW calls) and seeded random scripts biased towards
    the capacity boundary and towards failing calls at N in {2, 16, 200, 255, 256} (packed, size field, strlen,
    char16_t; drivers built by g++ / clang++ at -O1 / -O2, with and without NDEBUG), validated by TLC.
"""
import json, os
from concurrent.futures import ThreadPoolExecutor
from vlib import core, fixedstring as fx, fixedstring_upstream as up, fixedstring_r3 as r3
from vlib.core import MachineryError

PID = "C02"


def replay(ctx, path):
    return fx.replay(ctx, path, PID)


def run(ctx):
    started = []        # background work (TLC enumerations) that must not outlive the run, whatever way it ends
    try:
        return _run(ctx, started)
    finally:
        for x in started:
            x.close()


def _run(ctx, started):
    q = ctx.quick
    findings = fx.effective_findings(PID)
    cls = fx.classify(findings)
    mk = fx.make_cfg

    s2c_targets = {"p3": [mk("char", 3, 0, 1)], "s3": [mk("char", 3, 1, 1)]}
    if not q:
        s2c_targets["p3"].append(mk("char16_t", 3, 0, 1))
    # (the build flavours - compiler, optimisation level, NDEBUG - ride on configurations that are needed anyway)
    # p16t, s16t and p255t are also the configurations of the upstream tests (one driver build serves both)
    rnd_cfgs = [mk("char", 2, 0, 1, fl="c"), mk("char", 16, 0, 1), mk("char", 200, 0, 1, fl="co"), mk("char", 255, 0, 1), mk("char", 256, 0, 1, fl="o"),
                mk("char", 16, 1, 1), mk("char16_t", 16, 0, 1)]
    if not q:
        rnd_cfgs += [mk("char", 1, 0, 1), mk("char", 15, 0, 1, fl="z"), mk("char", 300, 0, 1, fl="co"), mk("char", 1, 1, 1), mk("char", 4, 1, 1, fl="o"),
                     mk("char16_t", 300, 0, 1), mk("char", 128, 0, 1), mk("wchar_t", 16, 0, 1), mk("char32_t", 16, 0, 1, fl="c")]
    ref_cfgs = [mk("char", 16, 0, 0, ref=1)]

    sim_cfgs = []
    if not q:
        s2c_targets["p4"] = [mk("char", 4, 0, 1)]
        s2c_targets["s4"] = [mk("char", 4, 1, 1)]
        sim_cfgs = [("FixedString_sim_packed_throwing.cfg", mk("char", 8, 0, 1), 500, 40), ("FixedString_sim_strlen_throwing.cfg", mk("char", 8, 1, 1), 500, 40),
                    ("FixedString_sim5_packed_throwing.cfg", mk("char", 5, 0, 1), 800, 30), ("FixedString_sim5_strlen_throwing.cfg", mk("char", 5, 1, 1), 800, 30),
                    ("FixedString_sim7_packed_throwing.cfg", mk("char", 7, 0, 1), 300, 80), ("FixedString_sim7_strlen_throwing.cfg", mk("char", 7, 1, 1), 300, 80)]
        # round 3: the object directly against a PROT_NONE page (flavour g: behind it, h: before it), so that one stray READ is seen
        rnd_cfgs += [mk("char", 16, 1, 1, fl="g"), mk("char", 16, 0, 1, fl="g"), mk("char", 255, 0, 1, fl="h"), mk("char", 256, 0, 1, fl="g"), mk("char", 16, 1, 1, fl="h"),
                     mk("char16_t", 16, 0, 1, fl="g")]
        s2c_targets["p3"].append(mk("char", 3, 0, 1, fl="g"))
        s2c_targets["s3"].append(mk("char", 3, 1, 1, fl="g"))
    # (the one upstream call that is C01's open finding - resize(n) growing the string - is left to C01)
    up_scripts = [(n, mk(**kw), ev) for n, kw, ev in up.scripts() if kw["thr"] and not n.endswith("-resize1grow")]
    directed = fx.merge_by_cfg("directed", up_scripts + [("alias-%d" % i, mk(**kw), ev) for i, (kw, ev) in enumerate(fx.ALIAS_DIRECTED) if kw["thr"]])
    all_cfgs = [c for v in s2c_targets.values() for c in v] + rnd_cfgs + ref_cfgs + [x[1] for x in sim_cfgs] + [c for _, c, _ in directed]
    pool = ThreadPoolExecutor(max_workers=1)
    fut = pool.submit(fx.prepare, ctx, all_cfgs)
    # the S->C enumerations do not depend on the include tree: TLC starts on them now, the replays use them later
    S2C = (("p3", ["FixedString_s2c_p3_throwing.cfg", "FixedString_s2c_p3_throwing_pair.cfg"]),
           ("s3", ["FixedString_s2c_s3_throwing.cfg", "FixedString_s2c_s3_throwing_pair.cfg"]),
           ("p4", ["FixedString_s2c_p4_throwing.cfg", "FixedString_s2c_p4_throwing_pair.cfg"]),
           ("s4", ["FixedString_s2c_s4_throwing.cfg", "FixedString_s2c_s4_throwing_pair.cfg"]))
    enums = fx.Enumerations(ctx, [cfg for key, cfgs in S2C if key in s2c_targets for cfg in cfgs], ahead=3 if q else 2)
    started.append(enums)

    # ---- 1. L1 model checking, throwing policy
    with fx.stage(ctx, "l1_model_check"):
        r = {"violated": None} if fx.SKIP_MC else fx.retry_killed(lambda: core.tlc_model_check(ctx, "FixedStringMC", "FixedString_mc_c02.cfg" if q else "FixedString_mc_c02_thorough.cfg",
                               "L1 (throwing policy): failed calls change nothing, laws, observer purity", coverage=not q, heap="3g",
                               timeout=2400, workers=fx.WORKERS))
    if r["violated"]:
        raise MachineryError("L1 spec FixedString.tla violates its own theorem %s (oracle bug), see %s" % (r["violated"], r["outfile"]))
    if r.get("coverage"):
        # TLC's -coverage counts per next-state disjunct; the per-action counts proper are those of the S->C
        # enumerations below (notes s2c_calls_replayed_per_action, vacuous_actions)
        ctx.notes["l1_mc_coverage_distinct_generated"] = r["coverage"]

    # ---- 2. L2: writes stay inside the N+1 cells, failing calls are stutters on the buffer, refinement (advisory)
    with fx.stage(ctx, "l2_refinement"):
        fx.l2_model_check(ctx, ["FixedStringImpl_mc_c02.cfg", "FixedStringImpl_mc_n3q_c02.cfg"] if q else ["FixedStringImpl_mc_c02.cfg", "FixedStringImpl_mc_n3q_c02.cfg", "FixedStringImpl_mc_c02_thorough.cfg"],
                        "L2 (throwing policy): no write beyond cell N, failing calls stutter, refines L1")

    with fx.stage(ctx, "wait_for_driver_builds"):
        drivers = fut.result()
    pool.shutdown()
    have = lambda c: c["name"] in drivers
    # findings this check proposes (PROPOSED_OPEN): their probes decide whether the class is avoided / reported as pending
    fx.probe_pending(ctx, findings, drivers)

    # ---- 3. C->S: the upstream tests' call sequences (they include the suite's EXPECT_THROW calls), directed aliasing executions,
    #         random scripts with many failing calls
    scripts = [x for x in directed if have(x[1])]
    for c in rnd_cfgs:
        if not have(c):
            continue
        big = c["n"] >= 128
        nexec, nops = ((12, 50) if big else (40, 60)) if q else ((100, 80) if big else (300, 90))
        lines = fx.random_script(ctx.seed + 101, c, nexec, nops, fail_bias=0.3)
        for i, ch in enumerate(fx.chunk_by_reset(lines, 1 if q else 2)):
            scripts.append(("rnd-%s-%d" % (c["name"], i), c, ch))
    for simcfg, c, num, depth in sim_cfgs:
        if not have(c):
            continue
        lines, nw = fx.sim_scripts(ctx, simcfg, c, num, depth, c["name"])
        ctx.notes.setdefault("simulation_walks", {})[c["name"]] = nw
        for i, ch in enumerate(fx.chunk_by_reset(lines, 2)):
            scripts.append(("sim-%s-%d" % (c["name"], i), c, ch))
    for c in ref_cfgs:
        if have(c):
            scripts.append(("ref-" + c["name"], c, fx.random_script(ctx.seed + 117, c, 30 if q else 200, 45, fail_bias=0.3, allow_known=True)))
    for fnd in findings:
        if "probe" in fnd:
            pc = mk(**fnd["probe"]["cfg"])
            if pc["name"] not in drivers:
                drivers.update(fx.build_drivers(ctx, [pc], tolerate=True))
            if pc["name"] in drivers:
                scripts.append(("probe-" + fnd["id"], pc, fnd["probe"]["script"]))
    rs = [x for x in scripts if x[0].startswith("rnd-")]
    if rs:
        ctx.sample({"script": [json.dumps(x) for x in rs[min(1, len(rs) - 1)][2][:10]]})
    with fx.stage(ctx, "c2s_run_and_validate"):
        res = fx.run_and_validate(ctx, scripts, drivers, findings) if scripts else []
    nfail = 0
    for p, r in res:
        try:
            with open(p) as f:
                nfail += sum(1 for line in f if '"exc":"none"' not in line and '"res"' in line)
        except OSError:
            pass
    ctx.notes["c2s_failing_calls_validated"] = nfail
    ctx.cov["evaluations"] += ctx.cov["events_validated"]
    ctx.log("C->S: validated %d events (%d of them failing calls) of %d executions with TLC" % (ctx.cov["events_validated"], nfail, ctx.cov["traces_validated_against_impl"]))

    # ---- round 3: XTL_NO_EXCEPTIONS builds - a failing call ends the program (each in a process of its own); verdict: the guards
    nox_cfgs = [mk("char", 16, 0, 1), mk("char", 16, 1, 1)] + ([] if q else [mk("char", 255, 0, 1), mk("char16_t", 16, 0, 1), mk("char", 2, 0, 1, fl="c")])
    with fx.stage(ctx, "no_exceptions_builds"):
        r3.nox_stage(ctx, PID, [c for c in nox_cfgs if have(c)], drivers, 40 if q else 150)

    # ---- 4. S->C: every L1 transition at N = 3, throwing policy, including every failing call
    opcount, failcount = {}, 0
    tot_replayed = 0
    for key, tcfgs in S2C:
        if key not in s2c_targets:
            continue
        if (fx.FAILFAST and ctx.violations) or len(ctx.violations) >= fx.ENOUGH_VIOLATIONS:
            ctx.log("S->C %s skipped: %d violations are reported already" % (key, len(ctx.violations)))
            continue
        n4 = key in ("p4", "s4")
        targets = [(c, drivers[c["name"]], fx.KEEP_N4 if n4 else 1.0 if i == 0 else (0.25, 60)) for i, c in enumerate(s2c_targets[key]) if have(c)]
        if not targets:
            continue
        with fx.stage(ctx, "s2c_" + key):
            res = fx.s2c(ctx, targets, tcfgs, enums=enums)
        for c, drv, _ in targets:
            tot, mism = res[c["name"]]
            tot_replayed += tot["replayed"]
            failcount += tot.get("failing", 0)
            ctx.cov["evaluations"] += tot["events"]
            for op, n in tot["ops"].items():
                opcount[op] = opcount.get(op, 0) + n
            ctx.notes.setdefault("s2c", {})[c["name"]] = {k: tot.get(k, 0) for k in ("tlc_generated", "transitions", "replayed", "events", "failing", "strata", "strata_sampled")}
            fx.confirm_mismatches(ctx, c, drv, mism, cls)
    enums.close()
    ctx.notes["s2c_calls_replayed_per_action"] = opcount
    fx.vacuity(ctx, opcount, scripts)
    ctx.notes["s2c_failing_calls_replayed"] = failcount
    ctx.cov["distinct_nontrivial"] = tot_replayed

    ctx.log("S->C: %d calls compared (%d failing)" % (tot_replayed, failcount))

    return fx.conclude(
        ctx, "model_checking",
        rule="TLC: L1 with Policy=throwing exhaustive for N=2 (FailedChangesNothing, laws); L2: writes only to cells 0..N, failing calls "
             "stutter on the buffer; S->C: every L1 transition at N=3 out of all %s strings x every operation x positions/counts 0..N+2, npos "
             "(second object from representatives, sources inside the object itself included), i.e. every failing and every succeeding call%s, replayed on real packed and strlen objects "
             "between guard bytes under AddressSanitizer with exact-size source buffers; exception class, state after the call and guards "
             "compared with TLC's; C->S: the upstream tests' call sequences and seeded scripts biased to the boundary and to failing calls at N in "
             "{2,16,200,255,256}, strlen 16, char16_t, drivers built by g++ and clang++ at -O1/-O2 with and without NDEBUG, validated by TLC. A case is one "
             "call with its exception class / result and the full projection of both objects."
             % ("40" if q else "40 (N=4: 121, stratified sample: strata (pre-state, operation) of at most %d calls completely, larger ones with probability "
                "max(%.2f, %d/size) per call)" % (fx.STRATUM_MIN, fx.KEEP_N4, fx.STRATUM_MIN), ""),
        assumptions=["guards: 32 bytes on each side of the object inside one exact-size heap block (beyond them AddressSanitizer watches)",
                     "reads outside source ranges are observed by AddressSanitizer for pointer / iterator sources (exact-size heap buffers); "
                     "std::basic_string sources may live in the string's own small buffer",
                     "when a call has both a bad position and an over-long result the standard fixes no order: either exception is accepted",
                     "the silent policy performs no check (capacity is then a precondition); C02 says nothing about it",
                     "XTL_NO_EXCEPTIONS (a failing check terminates instead of throwing) is outside C02: the statement is about the exceptions"],
        exhaustive=False)

"""C02 - with the throwing policy a fixed string stays inside its buffer and failed operations change nothing.

 Same specifications and harness as C01, Policy = "throwing":
 1. TLC: FixedString.tla (L1): every action has the failing outcomes the standard requires (length_error
    when the result would be longer than N, out_of_range when a position exceeds the relevant length / at(i)
    with i >= size()); action property FailedChangesNothing; laws of the specification itself.
 2. TLC: FixedStringImpl.tla (L2): no cell beyond index N is ever written, a failing call is a stutter on the
    buffer (the length is published only after the check); refinement of L1.
 3. S->C: every L1 transition at N = 3 - all 40 strings (lengths 0..N) x every operation x positions and
    counts 0..N+2 and npos - replayed on real packed and strlen objects placed between guard bytes, sources in
    exact-size heap buffers under AddressSanitizer; the exception class and the complete state after the call
    (= the state before it, for a failing call) are compared with TLC's.
 4. C->S: seeded random scripts biased towards the capacity boundary and towards failing calls at
    N in {2, 16, 255, 256} (packed, size field, strlen, char16_t), validated by TLC.
"""
import json, os
from concurrent.futures import ThreadPoolExecutor
from vlib import core, fixedstring as fx
from vlib.core import MachineryError

PID = "C02"


def replay(ctx, path):
    return fx.replay(ctx, path, PID)


def run(ctx):
    q = ctx.quick
    findings = core.load_findings(PID)
    cls = fx.classify(findings)
    mk = fx.make_cfg

    s2c_targets = {"p3": [mk("char", 3, 0, 1)], "s3": [mk("char", 3, 1, 1)]}
    if not q:
        s2c_targets["p3"].append(mk("char16_t", 3, 0, 1))
    rnd_cfgs = [mk("char", 2, 0, 1), mk("char", 16, 0, 1), mk("char", 255, 0, 1), mk("char", 256, 0, 1), mk("char", 16, 1, 1), mk("char16_t", 16, 0, 1)]
    if not q:
        rnd_cfgs += [mk("char", 1, 0, 1), mk("char", 15, 0, 1), mk("char", 300, 0, 1), mk("char", 1, 1, 1), mk("char", 4, 1, 1), mk("char16_t", 300, 0, 1)]
    ref_cfgs = [mk("char", 16, 0, 0, ref=1)]

    sim_cfgs = []
    if not q:
        s2c_targets["p4"] = [mk("char", 4, 0, 1)]
        s2c_targets["s4"] = [mk("char", 4, 1, 1)]
        sim_cfgs = [("packed", mk("char", 8, 0, 1)), ("strlen", mk("char", 8, 1, 1))]
    all_cfgs = [c for v in s2c_targets.values() for c in v] + rnd_cfgs + ref_cfgs + [c for _, c in sim_cfgs]
    pool = ThreadPoolExecutor(max_workers=1)
    fut = pool.submit(fx.build_drivers, ctx, all_cfgs)

    # ---- 1. L1 model checking, throwing policy
    r = {"violated": None} if fx.SKIP_MC else core.tlc_model_check(ctx, "FixedStringMC", "FixedString_mc_c02.cfg" if q else "FixedString_mc_c02_thorough.cfg",
                             "L1 (throwing policy): failed calls change nothing, laws, observer purity", coverage=not q, heap="8g",
                             timeout=2400, workers=fx.WORKERS)
    if r["violated"]:
        raise MachineryError("L1 spec FixedString.tla violates its own theorem %s (oracle bug), see %s" % (r["violated"], r["outfile"]))
    if r.get("coverage"):
        # TLC's -coverage counts per next-state disjunct; the per-action counts proper are those of the S->C
        # enumerations below (notes s2c_calls_replayed_per_action, vacuous_actions)
        ctx.notes["l1_mc_coverage_distinct_generated"] = r["coverage"]

    # ---- 2. L2: writes stay inside the N+1 cells, failing calls are stutters on the buffer, refinement (advisory)
    for cfg in [] if fx.SKIP_MC else (["FixedStringImpl_mc_c02.cfg"] if q else ["FixedStringImpl_mc_c02.cfg", "FixedStringImpl_mc_c02_thorough.cfg"]):
        if os.path.exists(os.path.join(core.SPECS, cfg)):
            r2 = core.tlc_model_check(ctx, "FixedStringImplMC", cfg, "L2 (throwing policy): no write beyond cell N, failing calls stutter, refines L1",
                                      heap="8g", timeout=2400, workers=fx.WORKERS)
            if r2["violated"]:
                ctx.drift.append("FixedStringImpl.tla (throwing) does not refine FixedString.tla or breaks its buffer invariants (%s); see %s" % (r2["violated"], r2["outfile"]))

    drivers = fut.result()
    pool.shutdown()

    # ---- 3. C->S random scripts with many failing calls
    scripts = []
    for c in rnd_cfgs:
        big = c["n"] >= 255
        nexec, nops = ((12, 40) if big else (40, 45)) if q else ((80, 50) if big else (400, 60))
        lines = fx.random_script(ctx.seed + 101, c, nexec, nops, fail_bias=0.3)
        for i, ch in enumerate(fx.chunk_by_reset(lines, 1 if q else 3)):
            scripts.append(("rnd-%s-%d" % (c["name"], i), c, ch))
    for lay, c in sim_cfgs:
        lines, nw = fx.sim_scripts(ctx, "FixedString_sim_%s_throwing.cfg" % lay, c, 500, 40, c["name"])
        ctx.notes.setdefault("simulation_walks", {})[c["name"]] = nw
        for i, ch in enumerate(fx.chunk_by_reset(lines, 2)):
            scripts.append(("sim-%s-%d" % (c["name"], i), c, ch))
    for c in ref_cfgs:
        scripts.append(("ref-" + c["name"], c, fx.random_script(ctx.seed + 117, c, 30 if q else 200, 45, fail_bias=0.3, allow_known=True)))
    for fnd in findings:
        if "probe" in fnd:
            pc = mk(**fnd["probe"]["cfg"])
            if pc["name"] not in drivers:
                drivers.update(fx.build_drivers(ctx, [pc]))
            scripts.append(("probe-" + fnd["id"], pc, fnd["probe"]["script"]))
    ctx.sample({"script": [json.dumps(x) for x in scripts[1][2][:10]]})
    res = fx.run_and_validate(ctx, scripts, drivers, findings)
    nfail = 0
    for p, r in res:
        try:
            with open(p) as f:
                nfail += sum(1 for line in f if '"exc":"none"' not in line and '"res"' in line)
        except OSError:
            pass
    ctx.notes["c2s_failing_calls_validated"] = nfail
    ctx.cov["evaluations"] += ctx.cov["events_validated"]
    ctx.log("C->S: validated %d events (%d of them failing calls) of %d executions with TLC" % (ctx.cov["events_validated"], nfail, ctx.cov["traces_validated_against_impl"]))

    # ---- 4. S->C: every L1 transition at N = 3, throwing policy, including every failing call
    opcount, failcount = {}, 0
    tot_replayed = 0
    for key, tcfgs in (("p3", ["FixedString_s2c_p3_throwing.cfg", "FixedString_s2c_p3_throwing_pair.cfg"]),
                       ("s3", ["FixedString_s2c_s3_throwing.cfg", "FixedString_s2c_s3_throwing_pair.cfg"]),
                       ("p4", ["FixedString_s2c_p4_throwing.cfg", "FixedString_s2c_p4_throwing_pair.cfg"]),
                       ("s4", ["FixedString_s2c_s4_throwing.cfg", "FixedString_s2c_s4_throwing_pair.cfg"])):
        if key not in s2c_targets:
            continue
        if fx.FAILFAST and ctx.violations:
            break
        targets = [(c, drivers[c["name"]], 1.0) for c in s2c_targets[key]]
        res = fx.s2c(ctx, targets, tcfgs)
        for c, drv, _ in targets:
            tot, mism = res[c["name"]]
            tot_replayed += tot["replayed"]
            failcount += tot.get("failing", 0)
            ctx.cov["evaluations"] += tot["events"]
            for op, n in tot["ops"].items():
                opcount[op] = opcount.get(op, 0) + n
            ctx.notes.setdefault("s2c", {})[c["name"]] = {k: tot.get(k, 0) for k in ("tlc_generated", "transitions", "replayed", "events", "failing")}
            fx.confirm_mismatches(ctx, c, drv, mism, cls)
    ctx.notes["s2c_calls_replayed_per_action"] = opcount
    fx.vacuity(ctx, opcount, scripts)
    ctx.notes["s2c_failing_calls_replayed"] = failcount
    ctx.cov["distinct_nontrivial"] = tot_replayed

    ctx.log("S->C: %d calls compared (%d failing)" % (tot_replayed, failcount))

    return core.finish(
        ctx, "model_checking",
        rule="TLC: L1 with Policy=throwing exhaustive for N=2 (FailedChangesNothing, laws); L2: writes only to cells 0..N, failing calls "
             "stutter on the buffer; S->C: every L1 transition at N=3 out of all %s strings x every operation x positions/counts 0..N+2, npos "
             "(second object from representatives), i.e. every failing and every succeeding call, replayed on real packed and strlen objects "
             "between guard bytes under AddressSanitizer with exact-size source buffers; exception class, state after the call and guards "
             "compared with TLC's; C->S: seeded scripts biased to the boundary and to failing calls at N in {2,16,255,256}, strlen 16, char16_t, "
             "validated by TLC. A case is one call with its exception class / result and the full projection of both objects."
             % ("40" if q else "121"),
        assumptions=["guards: 32 bytes on each side of the object inside one exact-size heap block (beyond them AddressSanitizer watches)",
                     "reads outside source ranges are observed by AddressSanitizer for pointer / iterator sources (exact-size heap buffers); "
                     "std::basic_string sources may live in the string's own small buffer",
                     "when a call has both a bad position and an over-long result the standard fixes no order: either exception is accepted",
                     "the silent policy performs no check (capacity is then a precondition); C02 says nothing about it"],
        exhaustive=False)

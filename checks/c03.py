"""C03 - dynamic bitset and bitset view behave as a resizable sequence of bools.

 1. TLC: Bitset.tla (L1) invariants/laws, small widths, two objects (exhaustive in bounds).
 2. TLC: BitsetImpl.tla (L2, block-level transcription of the code) refines Bitset.tla.
 3. S->C: TLC enumerates every (state, operation, argument) transition of L1 at block width 8
    (sizes crossing the block boundary); the transition graph is walked and replayed on the real
    xdynamic_bitset<uint8_t> / view; TLC simulation walks add longer histories.
 4. C->S: seeded random scripts for uint8/16/32/64 blocks with boundary-biased sizes and shifts.
 Every recorded trace is validated by TLC against BitsetTrace.tla (L1 is the oracle).
"""
import json, os, random
from vlib import core, tlaval
from vlib.core import MachineryError

IL_LENS = list(range(0, 13)) + [17, 33, 65]


def limbs(val, W):
    lw = W if W < 16 else 16
    return [(val >> (i * lw)) & ((1 << lw) - 1) for i in range(W // lw)]


class Gen:
    """Random script generator.  Tracks only sizes and kinds (a shadow counter, to stay
    inside the C++ preconditions); it predicts no results."""

    def __init__(self, rnd, W):
        self.r, self.W = rnd, W
        self.size = [0, 0]
        self.view = [False, False]

    def sizes(self):
        W = self.W
        c = [0, 1, 2, W - 1, W, W + 1, 2 * W - 1, 2 * W, 2 * W + 1, 3 * W + 5]
        return c

    def pick_size(self):
        if self.r.random() < 0.8:
            return self.r.choice(self.sizes())
        return self.r.randrange(0, 3 * self.W + 6)

    def pick_shift(self, k):
        W, n = self.W, self.size[k]
        c = [0, 1, W - 1, W, W + 1, 2 * W, max(n - 1, 0), n, n + 7, n // 2]
        return self.r.choice(c)

    def rblocks(self, n):
        W = self.W
        out = []
        for _ in range(n):
            t = self.r.random()
            v = 0 if t < 0.15 else (1 << W) - 1 if t < 0.3 else self.r.getrandbits(W)
            out.append(limbs(v, W))
        return out

    def ev(self, op, k, **a):
        return {"op": op, "k": k + 1, "a": a or {"z": 0}}

    def step(self):
        r = self.r
        k = r.randrange(2)
        o = 1 - k
        n = self.size[k]
        own = not self.view[k]
        for _ in range(50):
            c = r.random()
            if c < 0.10:     # construction
                t = r.randrange(7)
                if t == 0:
                    self.size[k], self.view[k] = 0, False
                    return self.ev("CtorDefault", k)
                if t == 1:
                    m = self.pick_size(); self.size[k], self.view[k] = m, False
                    return self.ev("CtorN", k, n=m)
                if t == 2:
                    m = self.pick_size(); self.size[k], self.view[k] = m, False
                    return self.ev("CtorNV", k, n=m, v=r.randrange(2))
                if t == 3:
                    m = r.choice(IL_LENS); self.size[k], self.view[k] = m, False
                    return self.ev("CtorIL", k, bits=[r.randrange(2) for _ in range(m)])
                if t == 4:
                    m = r.randrange(0, 4); self.size[k], self.view[k] = m * self.W, False
                    return self.ev("CtorBlocks", k, blocks=self.rblocks(m))
                if t == 5:
                    self.size[k], self.view[k] = self.size[o], False
                    return self.ev("CtorCopy", k)
                m = self.pick_size()
                self.size[k], self.view[k] = m, True
                return self.ev("CtorView", k, blocks=self.rblocks((m + self.W - 1) // self.W), n=m)
            if c < 0.18 and own:
                t = r.randrange(4)
                if t == 0:
                    m = self.pick_size(); self.size[k] = m
                    return self.ev("AssignNV", k, n=m, v=r.randrange(2))
                if t == 1:
                    m = r.choice(IL_LENS); self.size[k] = m
                    return self.ev("AssignIL", k, bits=[r.randrange(2) for _ in range(m)])
                if t == 2:
                    m = r.randrange(0, 4); self.size[k] = m * self.W
                    return self.ev("AssignBlocks", k, blocks=self.rblocks(m))
                self.size[k] = self.size[o]
                return self.ev("CopyAssign", k)
            if c < 0.30 and own:
                t = r.randrange(5)
                if t == 0:
                    m = self.pick_size(); self.size[k] = m
                    return self.ev("Resize", k, n=m, v=r.randrange(2))
                if t == 1:
                    m = self.pick_size(); self.size[k] = m
                    return self.ev("Resize1", k, n=m)
                if t == 2:
                    self.size[k] += 1
                    return self.ev("PushBack", k, v=r.randrange(2))
                if t == 3 and n > 0:
                    self.size[k] -= 1
                    return self.ev("PopBack", k)
                if t == 4 and r.random() < 0.3:
                    self.size[k] = 0
                    return self.ev("Clear", k)
                continue
            if c < 0.33 and not own:
                return self.ev("ResizeView", k, n=r.choice([n, n, n + 1, 0, max(n - 1, 0)]))
            if c < 0.42:
                return self.ev(r.choice(["SetAll", "ResetAll", "FlipAll", "FlipAll", "Not"]), k)
            if c < 0.50 and n > 0:
                i = r.choice([0, n - 1, r.randrange(n), max(0, min(n - 1, self.W - 1)), min(n - 1, self.W)])
                t = r.randrange(4)
                if t == 0:
                    return self.ev("Set", k, i=i, v=r.randrange(2))
                return self.ev(["Set1", "ResetBit", "Flip"][t - 1], k, i=i)
            if c < 0.62:
                return self.ev(r.choice(["ShlEq", "ShrEq", "Shl", "Shr"]), k, p=self.pick_shift(k))
            if c < 0.74:
                if self.size[k] != self.size[o]:
                    # make the sizes equal first (a spec-visible step of its own)
                    if not self.view[o] and r.random() < 0.5:
                        self.size[o] = self.size[k]
                        return self.ev("Resize", o, n=self.size[k], v=r.randrange(2))
                    if own:
                        self.size[k] = self.size[o]
                        return self.ev("Resize", k, n=self.size[o], v=r.randrange(2))
                    continue
                return self.ev(r.choice(["AndEq", "OrEq", "XorEq", "And", "Or", "Xor"]), k)
            if c < 0.77 and own and not self.view[o]:
                self.size[k], self.size[o] = self.size[o], self.size[k]
                return self.ev("Swap", k)
            if c < 0.83:
                i = r.choice([0, max(n - 1, 0), n, n + 1, ((n + self.W - 1) // self.W) * self.W - 1 if n else 0,
                              ((n + self.W - 1) // self.W) * self.W, n + 3 * self.W, r.randrange(0, n + 2)])
                return self.ev("At", k, i=max(i, 0))
            if c < 0.90 and n > 0:
                path = r.choice(["cindex", "index", "at", "cat", "front", "cfront", "back", "cback", "iter", "citer", "riter", "criter", "neg"])
                i = 0 if "front" in path else n - 1 if "back" in path else r.choice([0, n - 1, r.randrange(n)])
                return self.ev("Read", k, path=path, i=i)
            if n > 0:
                path = r.choice(["index", "at", "front", "back", "iter", "riter"])
                i = 0 if path == "front" else n - 1 if path == "back" else r.choice([0, n - 1, r.randrange(n)])
                wk = r.choice(["assign", "and", "or", "xor", "flip", "aref"])
                v = 0 if wk in ("flip", "aref") else r.randrange(2)
                j = r.randrange(n) if wk == "aref" else 0
                return self.ev("RefWrite", k, path=path, i=i, wk=wk, v=v, j=j)
        return self.ev("FlipAll", k)


def random_script(seed, W, nexec, nops):
    rnd = random.Random(seed * 1000003 + W)
    lines = []
    for _ in range(nexec):
        g = Gen(rnd, W)
        lines.append({"op": "Reset", "k": 1, "a": {"W": W}})
        for _ in range(nops):
            lines.append(g.step())
    return lines


# ------------------------------------------------------------- TLC -> scripts
def event_of_last(last):
    a = last["a"]
    return {"op": last["op"], "k": last["k"], "a": a}


def setup_events(st, W):
    """Events that put the two real objects into abstract state st = {obj:[a,b], kind:[..]}."""
    evs = []
    for k in (0, 1):
        bits, kind = st["obj"][k], st["kind"][k]
        if kind == "own":
            evs.append({"op": "CtorDefault", "k": k + 1, "a": {"z": 0}})
            for b in bits:
                evs.append({"op": "PushBack", "k": k + 1, "a": {"v": b}})
        else:
            nb = (len(bits) + W - 1) // W
            blocks = []
            for j in range(nb):
                v = 0
                for i in range(W):
                    idx = j * W + i
                    # bits of caller memory beyond the view's size are set: the view must mask them itself
                    v |= ((bits[idx] if idx < len(bits) else 1) << i)
                blocks.append(limbs(v, W))
            evs.append({"op": "CtorView", "k": k + 1, "a": {"blocks": blocks, "n": len(bits)}})
    return evs


def emitted(out):
    """Transitions written by the Emit action constraint of Bitset.tla: one JSON line each."""
    res = []
    for line in out.splitlines():
        if line.startswith('"@E@'):
            res.append(json.loads(json.loads(line)[3:]))
    return res


def setup_events(st, W, rnd):
    """Events that put the two real objects into abstract state st = {obj:[a,b], kind:[..]}."""
    evs = []
    for k in (0, 1):
        bits, kind = st["obj"][k], st["kind"][k]
        if kind == "own":
            if len(bits) in IL_LENS and rnd.random() < 0.7:
                evs.append({"op": "CtorIL", "k": k + 1, "a": {"bits": bits}})
            elif rnd.random() < 0.5:
                evs.append({"op": "CtorDefault", "k": k + 1, "a": {"z": 0}})
                for b in bits:
                    evs.append({"op": "PushBack", "k": k + 1, "a": {"v": b}})
            else:   # all ones, longer, then shrink and clear the zeros: a "dirty" history
                evs.append({"op": "CtorNV", "k": k + 1, "a": {"n": len(bits) + 3, "v": 1}})
                evs.append({"op": "Resize", "k": k + 1, "a": {"n": len(bits), "v": 0}})
                for i, b in enumerate(bits):
                    if not b:
                        evs.append({"op": "ResetBit", "k": k + 1, "a": {"i": i}})
        else:
            nb = (len(bits) + W - 1) // W
            blocks = []
            for j in range(nb):
                v = 0
                for i in range(W):
                    idx = j * W + i
                    # caller memory beyond the view's size has ones: the view must mask them itself
                    v |= ((bits[idx] if idx < len(bits) else 1) << i)
                blocks.append(limbs(v, W))
            evs.append({"op": "CtorView", "k": k + 1, "a": {"blocks": blocks, "n": len(bits)}})
    return evs


def edge_scripts(edges, W, rnd, limit=None):
    """One execution per source state: Reset, setup, then for each transition out of that state
    the call, followed by re-establishing the source state when the call changed it."""
    by_src = {}
    for e in edges:
        key = json.dumps(e["p"], sort_keys=True)
        by_src.setdefault(key, []).append(e["l"])
    total = sum(len(v) for v in by_src.values())
    keep = 1.0 if not limit or total <= limit else limit / float(total)
    lines, taken = [], 0
    observers = {"At", "Read", "Not", "And", "Or", "Xor", "Shl", "Shr", "ResizeView"}
    for key in sorted(by_src):
        st = json.loads(key)
        calls = [c for c in by_src[key] if keep >= 1.0 or rnd.random() < keep] or by_src[key][:1]
        calls.sort(key=lambda c: c["op"] not in observers)      # observers first: no re-setup needed
        lines.append({"op": "Reset", "k": 1, "a": {"W": W}})
        lines.extend(setup_events(st, W, rnd))
        dirty = False
        for c in calls:
            if dirty:
                # the previous call changed the object(s): re-establish the source state by constructors
                lines.extend(setup_events(st, W, rnd))
            lines.append(c)
            taken += 1
            dirty = c["op"] not in observers
    return lines, taken


def sim_scripts(ctx, simdir, W):
    lines, n = [], 0
    for fn in sorted(os.listdir(simdir)):
        states = tlaval.parse_sim_trace(os.path.join(simdir, fn))
        if len(states) < 2:
            continue
        lines.append({"op": "Reset", "k": 1, "a": {"W": W}})
        for s in states[1:]:
            lines.append(event_of_last(s["last"]))
        n += 1
    return lines, n


def write_script(path, lines):
    with open(path, "w") as f:
        for l in lines:
            f.write(json.dumps(l, separators=(",", ":")) + "\n")


def chunk_by_reset(lines, nchunks):
    """Split a script into about nchunks files at Reset boundaries."""
    starts = [i for i, l in enumerate(lines) if l["op"] == "Reset"]
    if not starts:
        return [lines]
    per = max(1, len(starts) // nchunks)
    cuts = starts[::per]
    return [lines[a:b] for a, b in zip(cuts, cuts[1:] + [len(lines)])]


def classify(findings):
    def f(ev, execution):
        for k in findings:
            m = k.get("match", {})
            if all(ev.get(x) == y or ev.get("a", {}).get(x) == y for x, y in m.items()):
                return "%s (%s)" % (k["key"], k["what"])
        return None
    return f


def run_script(ctx, drv, W, script_path, trace_path):
    import subprocess
    env = dict(os.environ); env.update(core.ASAN_ENV)
    with open(script_path) as fin, open(trace_path, "w") as fout:
        p = subprocess.run([drv, str(W)], stdin=fin, stdout=fout, stderr=subprocess.PIPE, env=env, timeout=1200)
    if p.returncode == 3:
        raise MachineryError("harness rejected script %s: %s" % (script_path, p.stderr.decode()[-500:]))


def replay(ctx, path):
    """./verif replay C03 <file>: re-run the recorded calls on the current tree and validate."""
    lines = [l for l in core.read_ndjson(path) if "_meta" not in l]
    W = next((l["a"]["W"] for l in lines if l["op"] == "Reset"), 8)
    drv = os.path.join(ctx.work, "bitset_driver")
    core.build(ctx, os.path.join(core.HARNESS, "bitset", "driver.cpp"), drv)
    sp, tp = os.path.join(ctx.work, "replay.script"), os.path.join(ctx.work, "replay.ndjson")
    write_script(sp, lines)
    run_script(ctx, drv, W, sp, tp)
    r = core.validate_trace(ctx, "BitsetTrace", "BitsetTrace.cfg", tp)
    if r["accepted"]:
        print("replay accepted: the recorded calls now conform to Bitset.tla")
        return 0
    print("VIOLATION property=C03 replay=%s" % path)
    print("  rejected at event %d; spec expected: %s" % (r["fail_line"] + 1, r.get("expected")))
    return 1


def run(ctx):
    q = ctx.quick
    findings = core.load_findings("C03")

    # ---- 1. L1 model checking
    r = core.tlc_model_check(ctx, "BitsetMC", "Bitset_mc.cfg" if q else "Bitset_mc_thorough.cfg",
                             "L1 invariants, laws, observer purity", coverage=not q)
    if r["violated"]:
        raise MachineryError("L1 spec Bitset.tla violates its own theorem %s (oracle bug), see %s" % (r["violated"], r["outfile"]))
    if not q:
        ctx.notes["l1_action_coverage"] = {k: v for k, v in r.get("coverage", {}).items()}
        ctx.notes["vacuous_actions"] = sorted(k for k, v in r.get("coverage", {}).items() if v[1] == 0 and k[0].isupper())

    # ---- 2. L2 => L1 refinement
    for cfg2 in (["BitsetImpl_mc.cfg"] if q else ["BitsetImpl_mc_thorough.cfg", "BitsetImpl_mc_thorough2.cfg"]):
        r2 = core.tlc_model_check(ctx, "BitsetImpl", cfg2, "L2 (block-level transcription) refines L1; unused bits zero", timeout=1500)
        if r2["violated"]:
            ctx.drift.append("BitsetImpl.tla does not refine Bitset.tla (%s); see %s" % (r2["violated"], r2["outfile"]))

    # ---- build the harness from /repo's working tree
    drv = os.path.join(ctx.work, "bitset_driver")
    core.build(ctx, os.path.join(core.HARNESS, "bitset", "driver.cpp"), drv)

    scripts = []   # (name, W, lines)
    rnd = random.Random(ctx.seed)

    # ---- 3. S->C: all transitions of L1 at W=8
    edges = []
    for cfg in ("Bitset_s2c.cfg", "Bitset_s2c_bin_quick.cfg" if q else "Bitset_s2c_bin.cfg"):
        r3 = core.tlc(ctx, "BitsetMC", cfg, name="s2c-enumerate-" + cfg[:-4], heap="8g", timeout=1200)
        if r3["violated"]:
            raise MachineryError("s2c enumeration failed: %s" % r3["outfile"])
        edges.extend(emitted(r3["out"]))
        r3["out"] = ""
    lines, taken = edge_scripts(edges, 8, rnd, limit=25000 if q else None)
    ctx.log("S->C: %d L1 transitions enumerated by TLC at W=8, %d replayed (%d script events)" % (len(edges), taken, len(lines)))
    ctx.notes["s2c_transitions_enumerated"] = len(edges)
    ctx.notes["s2c_transitions_replayed"] = taken
    for i, ch in enumerate(chunk_by_reset(lines, 6 if q else 12)):
        scripts.append(("s2c-%02d" % i, 8, ch))

    # ---- 3b. TLC simulation walks (longer histories, both objects, W=8)
    simdir = ctx.sub("sim")
    nsim = 150 if q else 1500
    core.tlc(ctx, "BitsetMC", "Bitset_sim.cfg", name="s2c-simulate",
             simulate="file=%s/t,num=%d" % (simdir, nsim), extra=["-depth", "30", "-seed", str(ctx.seed)], workers=4)
    lines, nwalks = sim_scripts(ctx, simdir, 8)
    ctx.notes["s2c_simulation_walks"] = nwalks
    scripts.append(("sim", 8, lines))

    # ---- 4. C->S random scripts for every block type
    for W in (8, 16, 32, 64):
        nexec, nops = (60, 50) if q else (600, 60)
        if W == 64:
            nexec //= 2
        lines = random_script(ctx.seed, W, nexec, nops)
        for i, ch in enumerate(chunk_by_reset(lines, 1 if q else 4)):
            scripts.append(("rnd-w%d-%d" % (W, i), W, ch))

    # ---- probes for open known findings (each is a tiny script that must still fail)
    for fnd in findings:
        if "probe" in fnd:
            scripts.append(("probe-" + fnd["id"], fnd["probe"]["W"], fnd["probe"]["script"]))

    # ---- run the harness
    traces = []
    tdir = ctx.sub("traces")
    for name, W, lines in scripts:
        sp = os.path.join(tdir, name + ".script")
        tp = os.path.join(tdir, name + ".ndjson")
        write_script(sp, lines)
        run_script(ctx, drv, W, sp, tp)
        traces.append(tp)
        ctx.cov["traces_validated_against_impl"] += sum(1 for l in lines if l["op"] == "Reset")
    ctx.sample({"script": [json.dumps(x) for x in scripts[0][2][:12]]})
    ctx.sample({"script": [json.dumps(x) for x in scripts[-1][2][:8]]})

    # ---- validate every trace against L1
    res = core.validate_traces(ctx, "BitsetTrace", "BitsetTrace.cfg", traces, classify=classify(findings))
    ctx.cov["evaluations"] = ctx.cov["events_validated"]
    ctx.log("validated %d events in %d traces (%d executions)" % (ctx.cov["events_validated"], len(traces), ctx.cov["traces_validated_against_impl"]))

    return core.finish(
        ctx, "model_checking",
        rule="TLC: L1 exhaustive for widths {2,3}, <=4 bits (quick) or <=5 bits (thorough), two objects; L2=>L1 refinement at the same bounds; every L1 transition at W=8 "
             "(sizes 0..%d, one target object + representative operands) replayed on the real objects; TLC simulation walks; "
             "seeded random scripts for uint8/16/32/64 with boundary sizes/shifts. A case is one call with its full observable "
             "projection compared by TLC." % (9 if q else 10),
        assumptions=["the harness projection (operator[], iterators, data(), count/any/all/none) is read through the public API",
                     "moved-from bitsets and allocator behaviour are not modelled"],
        exhaustive=False)

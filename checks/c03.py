"""C03 - dynamic bitset and bitset view behave as a resizable sequence of bools.

 0. Signature table (harness/bitset/sigprobe.cpp): the types the property's wording depends on, as
    static_asserts; a failing row is a violation.  If the conformance driver then does not build,
    call probes (harness/bitset/callprobe.cpp) tell a call the property names that no longer
    compiles (violation) from a harness that needs maintenance (machinery error).
 1. TLC: Bitset.tla (L1) invariants/laws, small widths, two objects (exhaustive in bounds).
 2. TLC: BitsetImpl.tla (L2, block-level transcription of the code) refines Bitset.tla; deep
    single-target configurations (7 bits at W=3) in the thorough tier.
 3. S->C: TLC enumerates every (state, operation, argument) transition of L1 at block width 8
    (sizes crossing the block boundary); a sample stratified over actions and argument classes
    (25 000 transitions, 300 000 in the thorough tier) is replayed on the real xdynamic_bitset<uint8_t> / view;
    TLC simulation walks add longer histories.
 4. C->S: seeded random scripts for uint8/16/32/64 blocks with boundary-biased sizes and shifts,
    run on several builds of the driver (g++ -O1 ASan; g++ -O2 -DNDEBUG; thorough: clang++ ASan, g++ -O0).
 Every recorded trace is validated by TLC against BitsetTrace.tla (L1 is the oracle).  A driver
 that crashes, trips a sanitizer or exceeds its per-call CPU limit closes the trace with a Crash
 event (rejected by the spec) and is restarted at the next execution of the script.
"""
import json, os, random, re, subprocess, threading
from concurrent.futures import ThreadPoolExecutor
from vlib import core, tlaval, drvrun
from vlib.core import MachineryError

PID = "C03"
# development aid (mutation experiments): VERIF_DEV_FAST=1 skips the stages that do not depend on the include tree under
# test (TLC on L1/L2) and caches TLC's enumeration of the L1 transitions; never set by the registered commands
FAST = bool(os.environ.get("VERIF_DEV_FAST"))
# development aid: VERIF_DEV_STAGES=rnd runs only the primary driver build with the seeded random scripts, the upstream
# sequences and the probes (a subset of the check: what it rejects, the whole check rejects)
ONLY_RND = os.environ.get("VERIF_DEV_STAGES") == "rnd"
HDIR = os.path.join(core.HARNESS, "bitset")
IL_LENS = list(range(0, 13)) + [17, 33, 65]
SIG_ROWS = 30
# (n, named by the property?, what)
CALL_PROBES = [
    (1, True, "constructors xdynamic_bitset(), (n), (n, value)"),
    (2, True, "initializer-list constructor / assign(initializer_list)"),
    (3, True, "block-range constructor / assign(first, last)"),
    (4, True, "copy construction and copy assignment from an owning bitset and from a view"),
    (5, True, "xdynamic_bitset_view(ptr, size) and view.resize"),
    (6, True, "assign(n, v), resize(n), resize(n, v), clear, push_back, pop_back"),
    (7, True, "set/reset/flip of all bits and of one bit (owning and view)"),
    (8, True, "<<=, >>=, <<, >>"),
    (9, True, "&=, |=, ^= between owning bitsets and views"),
    (10, True, "~, &, |, ^ returning a new bitset"),
    (11, True, "swap: member (owning, views), std::swap, ADL swap"),
    (12, True, "at(i), const and non-const"),
    (13, True, "operator[], front, back, const and non-const"),
    (14, True, "iterators: begin/cbegin/rbegin/crbegin, +, ++, *, writes through *it"),
    (15, True, "element reference: = bool, = reference, &=, |=, ^=, flip, ~, address-of"),
    (16, True, "size, empty, count, any, all, none, block_count, data"),
    (17, True, "== and != between owning bitsets and views"),
    (18, False, "move construction / move assignment"),
    (19, False, "reserve, capacity, max_size, allocator constructor"),
    (20, False, "block_begin / block_end"),
    (21, False, "std::fill over the iterators"),
    (22, False, "std::reverse/rotate/iter_swap/copy/copy_backward/count/find/equal over the iterators"),
]
# driver builds: name -> (compiler, extra flags, ASan?)
FLAVOURS = {"asan": (None, [], True),
            "o2ndebug": (None, ["-O2", "-DNDEBUG"], False),
            "clang": ("clang++", [], True),
            "o0": (None, ["-O0"], False),
            # XTL_NO_EXCEPTIONS: at(i >= size()) and view.resize(other size) abort instead of throwing; the scripts for this
            # build stay inside the range (everything else must behave as in the throwing build)
            "noexc": (None, ["-DXTL_NO_EXCEPTIONS"], True)}
MAX_DRIVER_RESTARTS = 40          # per script; a tree that crashes more often has been reported often enough
MAX_REPORTED = 12                 # distinct violations reported with a replay


def limbs(val, W):
    lw = W if W < 16 else 16
    return [(val >> (i * lw)) & ((1 << lw) - 1) for i in range(W // lw)]


class Gen:
    """Random script generator.  Tracks only sizes and kinds (a shadow counter, to stay
    inside the C++ preconditions); it predicts no results."""

    def __init__(self, rnd, W, caps):
        self.r, self.W = rnd, W
        self.size = [0, 0]
        self.view = [False, False]
        self.caps = caps

    def sizes(self):
        W = self.W
        c = [0, 1, 2, W - 1, W, W + 1, 2 * W - 1, 2 * W, 2 * W + 1, 3 * W + 5]
        return c

    def pick_size(self):
        if self.r.random() < 0.8:
            return self.r.choice(self.sizes())
        return self.r.randrange(0, 3 * self.W + 6)

    def pick_shift(self, k):
        W, n = self.W, self.size[k]
        c = [0, 1, W - 1, W, W + 1, 2 * W, max(n - 1, 0), n, n + 7, n // 2]
        return self.r.choice(c)

    def rblocks(self, n):
        W = self.W
        out = []
        for _ in range(n):
            t = self.r.random()
            v = 0 if t < 0.15 else (1 << W) - 1 if t < 0.3 else self.r.getrandbits(W)
            out.append(limbs(v, W))
        return out

    def ev(me, op, k, **a):          # not `self`: "self" is an argument name of the scripts
        return {"op": op, "k": k + 1, "a": a or {"z": 0}}

    def step(self):
        r = self.r
        k = r.randrange(2)
        o = 1 - k
        n = self.size[k]
        own = not self.view[k]
        for _ in range(50):
            c = r.random()
            if c < 0.10:     # construction
                t = r.randrange(9)
                if t == 0:
                    self.size[k], self.view[k] = 0, False
                    return self.ev(r.choice(["CtorDefault", "CtorAlloc"]), k)
                if t == 1:
                    m = self.pick_size(); self.size[k], self.view[k] = m, False
                    return self.ev("CtorN", k, n=m)
                if t == 2:
                    m = self.pick_size(); self.size[k], self.view[k] = m, False
                    return self.ev("CtorNV", k, n=m, v=r.randrange(2))
                if t == 3:
                    m = r.choice(IL_LENS); self.size[k], self.view[k] = m, False
                    return self.ev("CtorIL", k, bits=[r.randrange(2) for _ in range(m)])
                if t == 4:
                    m = r.randrange(0, 4); self.size[k], self.view[k] = m * self.W, False
                    return self.ev("CtorBlocks", k, blocks=self.rblocks(m))
                if t == 5:
                    self.size[k], self.view[k] = self.size[o], False
                    return self.ev("CtorCopy", k)
                if t in (6, 7):
                    if own and not self.view[o]:
                        # move construction / assignment from the other owning bitset; the moved-from object is
                        # observed (re = 0) when the tree under test keeps it valid, else re-created at once
                        re_ = 0 if (self.caps["movedfrom"] and r.random() < 0.7) else 1
                        self.size[k] = self.size[o]
                        # whatever the source holds afterwards, it is a valid bitset: the shadow size is re-read
                        # from nothing - so only operations that do not need it follow until it is re-established
                        self.size[o] = 0 if re_ else None
                        return self.ev(r.choice(["CtorMove", "MoveAssign"]), k, re=re_)
                    continue
                m = self.pick_size()
                self.size[k], self.view[k] = m, True
                return self.ev("CtorView", k, blocks=self.rblocks((m + self.W - 1) // self.W), n=m)
            if c < 0.18 and own:
                t = r.randrange(5)
                if t == 0:
                    m = self.pick_size(); self.size[k] = m
                    return self.ev("AssignNV", k, n=m, v=r.randrange(2))
                if t == 1:
                    m = r.choice(IL_LENS); self.size[k] = m
                    return self.ev("AssignIL", k, bits=[r.randrange(2) for _ in range(m)])
                if t == 2:
                    m = r.randrange(0, 4); self.size[k] = m * self.W
                    return self.ev("AssignBlocks", k, blocks=self.rblocks(m))
                if t == 3:
                    return self.ev("CopyAssign", k, self=1)
                self.size[k] = self.size[o]
                return self.ev("CopyAssign", k, self=0)
            if c < 0.30 and own:
                t = r.randrange(7)
                if t == 0:
                    m = self.pick_size(); self.size[k] = m
                    return self.ev("Resize", k, n=m, v=r.randrange(2))
                if t == 1:
                    m = self.pick_size(); self.size[k] = m
                    return self.ev("Resize1", k, n=m)
                if t == 2:
                    self.size[k] += 1
                    return self.ev("PushBack", k, v=r.randrange(2))
                if t == 3 and n > 0:
                    self.size[k] -= 1
                    return self.ev("PopBack", k)
                if t == 4 and r.random() < 0.3:
                    self.size[k] = 0
                    return self.ev("Clear", k)
                if t == 5:
                    return self.ev("Reserve", k, n=r.choice([0, 1, n, n + 1, 3 * self.W + 7, 5 * self.W, 1000]))
                if t == 6 and r.random() < 0.3:
                    return self.ev("MaxSize", k)
                continue
            if c < 0.33 and not own:
                return self.ev("ResizeView", k, n=n if self.caps.get("noexc") else r.choice([n, n, n + 1, 0, max(n - 1, 0)]))
            if c < 0.42:
                return self.ev(r.choice(["SetAll", "ResetAll", "FlipAll", "FlipAll", "Not"]), k)
            if c < 0.50 and n > 0:
                i = r.choice([0, n - 1, r.randrange(n), max(0, min(n - 1, self.W - 1)), min(n - 1, self.W)])
                t = r.randrange(4)
                if t == 0:
                    return self.ev("Set", k, i=i, v=r.randrange(2))
                return self.ev(["Set1", "ResetBit", "Flip"][t - 1], k, i=i)
            if c < 0.62:
                return self.ev(r.choice(["ShlEq", "ShrEq", "Shl", "Shr"]), k, p=self.pick_shift(k))
            if c < 0.74:
                op = r.choice(["AndEq", "OrEq", "XorEq", "And", "Or", "Xor"])
                if r.random() < 0.12:
                    return self.ev(op, k, self=1)
                if self.size[k] != self.size[o]:
                    # make the sizes equal first (a spec-visible step of its own)
                    if not self.view[o] and r.random() < 0.5:
                        self.size[o] = self.size[k]
                        return self.ev("Resize", o, n=self.size[k], v=r.randrange(2))
                    if own:
                        self.size[k] = self.size[o]
                        return self.ev("Resize", k, n=self.size[o], v=r.randrange(2))
                    continue
                return self.ev(op, k, self=0)
            if c < 0.78 and self.view[k] == self.view[o]:
                if r.random() < 0.15:
                    return self.ev("Swap", k, how="member", self=1)
                self.size[k], self.size[o] = self.size[o], self.size[k]
                how = "member" if self.view[k] else r.choice(["member", "member", "std", "adl"])
                return self.ev("Swap", k, how=how, self=0)
            if c < 0.83:
                i = r.choice([0, max(n - 1, 0), n, n + 1, ((n + self.W - 1) // self.W) * self.W - 1 if n else 0,
                              ((n + self.W - 1) // self.W) * self.W, n + 3 * self.W, r.randrange(0, n + 2)])
                if self.caps.get("noexc"):
                    if n == 0:
                        continue
                    i = min(max(i, 0), n - 1)
                return self.ev("At", k, c=r.choice(["c", "m"]), i=max(i, 0))
            if c < 0.90 and n > 0:
                path = r.choice(["cindex", "index", "at", "cat", "front", "cfront", "back", "cback", "iter", "citer", "riter", "criter", "neg",
                                 "data", "cdata", "blockit"])
                i = 0 if "front" in path else n - 1 if "back" in path else r.choice([0, n - 1, r.randrange(n)])
                return self.ev("Read", k, path=path, i=i)
            if c < 0.915:
                i, j = sorted([r.choice([0, n, r.randrange(n + 1)]), r.choice([0, n, r.randrange(n + 1)])])
                return self.ev("Fill", k, i=i, j=j, v=r.randrange(2))
            if c < 0.95:
                ev = self.algo(k, n, self.size[o])
                if ev is None:
                    continue
                return ev
            if c >= 0.975:
                ev = self.refpair(k, n)
                if ev is None:
                    continue
                return ev
            if n > 0:
                path = r.choice(["index", "at", "front", "back", "iter", "riter"])
                i = 0 if path == "front" else n - 1 if path == "back" else r.choice([0, n - 1, r.randrange(n)])
                wk = r.choice(["assign", "and", "or", "xor", "flip", "aref", "ptr"])
                v = 0 if wk in ("flip", "aref") else r.randrange(2)
                j = r.randrange(n) if wk == "aref" else 0
                return self.ev("RefWrite", k, path=path, i=i, wk=wk, v=v, j=j)
        return self.ev("FlipAll", k)

    def refpair(self, k, n):
        """Two element references at once (action RefPair of Bitset.tla): the same bit, two bits of one block, of two
        blocks, of two objects; every path to a reference, every value category of the two proxies."""
        r, W = self.r, self.W
        sf = 1 if r.random() < 0.6 else 0
        o = k if sf else 1 - k
        no = self.size[o]
        if n == 0 or no == 0:
            return None
        pk = r.choice(["swap", "swap", "iterswap", "assign", "and", "or", "xor"])
        if pk in ("swap", "iterswap") and self.view[k] != self.view[o]:
            pk = r.choice(["assign", "and", "or", "xor"])
        paths = ["iter", "riter"] if pk == "iterswap" else ["index", "at", "front", "back", "iter", "riter"]
        p1, p2 = r.choice(paths), r.choice(paths)
        i = 0 if p1 == "front" else n - 1 if p1 == "back" else r.choice([0, n - 1, r.randrange(n), min(n - 1, W - 1), min(n - 1, W)])
        t = r.random()
        if p2 == "front":
            j = 0
        elif p2 == "back":
            j = no - 1
        elif t < 0.35 and i < no:
            j = i                                                   # the same position (the same bit when sf = 1)
        elif t < 0.6:
            j = min(no - 1, (i // W) * W + r.randrange(W))          # the same block
        else:
            j = r.choice([0, no - 1, r.randrange(no)])
        vc = "tmp" if pk == "iterswap" else r.choice(["tmp", "named", "copy"])
        return self.ev("RefPair", k, self=sf, p1=p1, i=i, p2=p2, j=j, pk=pk, vc=vc)

    def algo(self, k, n, no):
        """A standard algorithm over the bit iterators; positions biased to block boundaries."""
        r, W = self.r, self.W
        pos = lambda hi: r.choice([0, hi, r.randrange(hi + 1), min(hi, W - 1), min(hi, W), min(hi, W + 1), max(hi - 1, 0)])
        alg = r.choice(["reverse", "rotate", "iterswap", "copyfrom", "copybwd", "count", "find", "equal", "reverse", "rotate"])
        if alg == "iterswap":
            if n == 0:
                return None
            return self.ev("Algo", k, alg=alg, i=min(pos(n), n - 1), m=0, j=min(pos(n), n - 1))
        if alg == "rotate":
            i, m, j = sorted([pos(n), pos(n), pos(n)])
            return self.ev("Algo", k, alg=alg, i=i, m=m, j=j)
        if alg == "copyfrom":
            i, j = sorted([pos(no), pos(no)])
            if j - i > n:
                j = i + n
            return self.ev("Algo", k, alg=alg, i=i, m=r.choice([0, n - (j - i), r.randrange(n - (j - i) + 1)]), j=j)
        if alg == "copybwd":
            i, j = sorted([pos(n), pos(n)])
            return self.ev("Algo", k, alg=alg, i=i, m=r.choice([0, 1, n - j, r.randrange(n - j + 1)]) if n - j > 0 else 0, j=j)
        hi = min(n, no) if alg == "equal" else n
        i, j = sorted([pos(hi), pos(hi)])
        return self.ev("Algo", k, alg=alg, i=i, m=0, j=j)

    def next(self):
        """One event; after a move with an observed source the source's size is unknown to the generator: it is
        re-established by a constructor before anything else is asked of either object."""
        if None in self.size:
            k = self.size.index(None)
            r = self.r
            t = r.randrange(6)
            if t == 0:
                self.size[k] = 0
                return self.ev("Clear", k)
            if t == 1:
                self.size[k] = self.size[1 - k]
                return self.ev("CopyAssign", k, self=0)
            if t == 2:
                m = r.choice(IL_LENS); self.size[k] = m
                return self.ev("AssignIL", k, bits=[r.randrange(2) for _ in range(m)])
            m = self.pick_size()
            self.size[k] = m
            if t == 3:
                return self.ev("AssignNV", k, n=m, v=r.randrange(2))
            if t == 4:
                return self.ev("Resize", k, n=m, v=r.randrange(2))
            return self.ev("Resize1", k, n=m)
        return self.step()


def random_script(seed, W, nexec, nops, caps, build="asan"):
    rnd = random.Random("%d/%d/%s" % (seed, W, build))
    lines = []
    for _ in range(nexec):
        g = Gen(rnd, W, caps)
        lines.append({"op": "Reset", "k": 1, "a": {"W": W, "build": build}})
        for _ in range(nops):
            lines.append(g.next())
    return lines


def upstream_script():
    """The call sequences of /repo/test/test_xdynamic_bitset.cpp (uint64_t blocks, 80 bits), re-run through the logging
    harness: the same calls, but every observer compared after every call instead of one EXPECT at the end."""
    W = 64
    A = 0xAAAAAAAAAAAAAAAA
    L = [{"op": "Reset", "k": 1, "a": {"W": W, "build": "asan"}}]
    E = lambda op, k=1, **a: L.append({"op": op, "k": k, "a": a or {"z": 0}})
    E("CtorDefault"); E("CtorN", n=80); E("CtorNV", n=80, v=1); E("CtorBlocks", blocks=[limbs(A, W)] * 2); E("CtorIL", bits=[1, 1, 0, 1])
    E("CtorNV", n=40, v=0); E("AssignNV", n=80, v=1); E("CtorNV", n=40, v=0); E("AssignBlocks", blocks=[limbs(A, W)] * 2)
    E("CtorNV", n=40, v=1); E("AssignIL", bits=[1, 1, 0, 1])
    E("CtorNV", n=80, v=0); E("Resize", n=100, v=1); E("Resize1", n=40)
    E("CtorNV", n=80, v=0); E("Clear"); E("CtorDefault"); E("Reserve", n=80)
    E("CtorNV", n=80, v=0); E("PushBack", v=1); E("Read", path="back", i=80); E("PushBack", v=0); E("Read", path="back", i=81)
    E("PopBack"); E("Read", path="back", i=80); E("PopBack"); E("Read", path="back", i=79)
    E("RefWrite", path="at", i=4, wk="assign", v=1, j=0); E("Read", path="index", i=4)
    E("RefWrite", path="front", i=0, wk="assign", v=1, j=0); E("RefWrite", path="back", i=79, wk="assign", v=1, j=0)
    for view in (0, 1):
        E("CtorNV", n=80, v=0)
        if view:
            E("CtorView", blocks=[limbs(0, W), limbs(0, W)], n=80)
        for i in (3, 5, 70):
            E("Set1", i=i)
        E("Set", i=3, v=0); E("SetAll"); E("ResetBit", i=3); E("ResetAll"); E("Flip", i=3); E("FlipAll"); E("FlipAll")
        for i in (2, 77):
            E("RefWrite", path="iter", i=i, wk="assign", v=1, j=0); E("RefWrite", path="riter", i=i + 1, wk="assign", v=1, j=0)
        E("Not"); E("ShlEq", p=4); E("ShrEq", p=4); E("Shl", p=4); E("Shr", p=4)
        E("CtorNV", 2, n=80, v=0); E("Set1", 2, i=3); E("Set1", 2, i=72)
        E("And", self=0); E("Or", self=0); E("Xor", self=0); E("AndEq", self=0); E("OrEq", self=0); E("XorEq", self=0)
    return L


# ------------------------------------------------------------- TLC -> scripts
def event_of_last(last):
    a = last["a"]
    return {"op": last["op"], "k": last["k"], "a": a}


def emitted(out):
    """Transitions written by the Emit action constraint of Bitset.tla: one JSON line each."""
    res = []
    for line in out.splitlines():
        if line.startswith('"@E@'):
            res.append(json.loads(json.loads(line)[3:]))
    return res


def setup_events(st, W, rnd):
    """Events that put the two real objects into abstract state st = {obj:[a,b], kind:[..]}."""
    evs = []
    for k in (0, 1):
        bits, kind = st["obj"][k], st["kind"][k]
        if kind == "own":
            if len(bits) in IL_LENS and rnd.random() < 0.7:
                evs.append({"op": "CtorIL", "k": k + 1, "a": {"bits": bits}})
            elif rnd.random() < 0.5:
                evs.append({"op": "CtorDefault", "k": k + 1, "a": {"z": 0}})
                for b in bits:
                    evs.append({"op": "PushBack", "k": k + 1, "a": {"v": b}})
            else:   # all ones, longer, then shrink and clear the zeros: a "dirty" history
                evs.append({"op": "CtorNV", "k": k + 1, "a": {"n": len(bits) + 3, "v": 1}})
                evs.append({"op": "Resize", "k": k + 1, "a": {"n": len(bits), "v": 0}})
                for i, b in enumerate(bits):
                    if not b:
                        evs.append({"op": "ResetBit", "k": k + 1, "a": {"i": i}})
        else:
            nb = (len(bits) + W - 1) // W
            blocks = []
            for j in range(nb):
                v = 0
                for i in range(W):
                    idx = j * W + i
                    # caller memory beyond the view's size has ones: the view must mask them itself
                    v |= ((bits[idx] if idx < len(bits) else 1) << i)
                blocks.append(limbs(v, W))
            evs.append({"op": "CtorView", "k": k + 1, "a": {"blocks": blocks, "n": len(bits)}})
    return evs


stratified_sample = drvrun.stratified_sample


OBSERVERS = {"At", "Read", "Not", "And", "Or", "Xor", "Shl", "Shr", "ResizeView", "Reserve", "MaxSize"}       # (Algo: some kinds write)


def enumerate_edges(ctx, cfg):
    """TLC's enumeration of the L1 transitions of one configuration (tree-independent: cached under VERIF_DEV_FAST)."""
    cache = None
    if FAST:
        stamp = max(os.path.getmtime(os.path.join(core.SPECS, f)) for f in ("Bitset.tla", "BitsetMC.tla", cfg))
        cdir = os.path.join(core.ROOT, ".work", "C03-cache")
        os.makedirs(cdir, exist_ok=True)
        cache = os.path.join(cdir, "%s.%d.json" % (cfg, int(stamp)))
        if os.path.exists(cache):
            with open(cache) as f:
                return json.load(f)
    r3 = core.tlc(ctx, "BitsetMC", cfg, name="s2c-enumerate-" + cfg[:-4], heap="8g", timeout=2400)
    if r3["violated"]:
        raise MachineryError("s2c enumeration failed: %s" % r3["outfile"])
    es = emitted(r3["out"])
    r3["out"] = ""
    if cache:
        with open(cache, "w") as f:
            json.dump(es, f)
    return es


def edge_scripts(edges, W, rnd):
    """One execution per source state: Reset, setup, then for each transition out of that state
    the call, followed by re-establishing the source state when the call changed it."""
    by_src = {}
    for e in edges:
        key = json.dumps(e["p"], sort_keys=True)
        by_src.setdefault(key, []).append(e["l"])
    lines, taken = [], 0
    for key in sorted(by_src):
        st = json.loads(key)
        calls = by_src[key]
        calls.sort(key=lambda c: c["op"] not in OBSERVERS)      # observers first: no re-setup needed
        lines.append({"op": "Reset", "k": 1, "a": {"W": W, "build": "asan"}})
        lines.extend(setup_events(st, W, rnd))
        dirty = False
        for c in calls:
            if dirty:
                # the previous call changed the object(s): re-establish the source state by constructors
                lines.extend(setup_events(st, W, rnd))
            lines.append(c)
            taken += 1
            dirty = c["op"] not in OBSERVERS
    return lines, taken


def sim_scripts(ctx, simdir, W, caps):
    lines, n = [], 0
    for fn in sorted(os.listdir(simdir)):
        states = tlaval.parse_sim_trace(os.path.join(simdir, fn))
        if len(states) < 2:
            continue
        lines.append({"op": "Reset", "k": 1, "a": {"W": W, "build": "asan"}})
        for s in states[1:]:
            ev = event_of_last(s["last"])
            if ev["op"] in ("CtorMove", "MoveAssign") and ev["a"]["re"] == 0:
                # what the moved-from object holds is up to the implementation: the rest of the walk (which assumed one
                # particular outcome) cannot be followed; the move itself is replayed when this tree's moved-from
                # objects can be observed at all
                if caps["movedfrom"]:
                    lines.append(ev)
                break
            lines.append(ev)
        n += 1
    return lines, n


write_script = drvrun.write_script


def chunk_by_reset(lines, nchunks):
    """Split a script into about nchunks files at Reset boundaries."""
    starts = [i for i, l in enumerate(lines) if l["op"] == "Reset"]
    if not starts:
        return [lines]
    per = max(1, (len(starts) + nchunks - 1) // nchunks)
    cuts = starts[::per]
    return [lines[a:b] for a, b in zip(cuts, cuts[1:] + [len(lines)])]


signature_of = drvrun.signature_of


def classify(findings, ctx):
    def f(ev, execution):
        ctx.notes.setdefault("_sigs", {})[len(ctx.violations)] = signature_of(ev)
        if ev.get("res", {}).get("exc") == "desync":
            # the driver could not follow its script although every earlier step was accepted: the script is wrong
            raise MachineryError("C03 driver lost track of its script (desync) at an event whose predecessors all conform: %s" % json.dumps(ev)[:400])
        for k in findings:
            m = k.get("match", {})
            if all(ev.get(x) == y or ev.get("a", {}).get(x) == y for x, y in m.items()):
                return "%s (%s)" % (k["key"], k["what"])
        return None
    return f


# ------------------------------------------------------------- running the driver
def run_script(ctx, drv, W, lines, trace_path, name="script"):
    """A driver that dies (crash, sanitizer report, CPU limit) has written a Crash event; drvrun records the call it
    died in and starts the driver again at the next Reset."""
    return drvrun.run_script(ctx, [drv, str(W)], lines, trace_path, name, max_restarts=MAX_DRIVER_RESTARTS)


replay_lines = drvrun.replay_lines


def build_driver(ctx, flavour):
    cxx, flags, asan = FLAVOURS[flavour]
    drv = os.path.join(ctx.work, "bitset_driver_" + flavour)
    core.build(ctx, os.path.join(HDIR, "driver.cpp"), drv, flags=flags, asan=asan, cxx=cxx)
    return drv


def replay(ctx, path):
    """./verif replay C03 <file>: re-run the recorded calls on the current tree (same block width, same driver
    build) and validate."""
    raw = core.read_ndjson(path)
    meta = next((l["_meta"] for l in raw if "_meta" in l and "kind" in l["_meta"]), {})
    if meta.get("kind") in ("signature", "callprobe"):
        rc, out = compile_probe(meta["src"], meta["define"])
        if rc == 0:
            print("replay accepted: %s compiles again" % meta.get("what", meta["src"]))
            return 0
        print("VIOLATION property=C03 replay=%s" % path)
        print("  " + out[-1500:])
        return 1
    lines = replay_lines(raw)
    rs = next((l for l in lines if l["op"] == "Reset"), {"a": {"W": 8}})
    W = rs["a"].get("W", 8)
    flavour = rs["a"].get("build", "asan")
    if flavour not in FLAVOURS:
        flavour = "asan"
    drv = build_driver(ctx, flavour)
    tp = os.path.join(ctx.work, "replay.ndjson")
    run_script(ctx, drv, W, lines, tp, "replay")
    r = core.validate_trace(ctx, "BitsetTrace", "BitsetTrace.cfg", tp)
    if r["accepted"]:
        print("replay accepted: the recorded calls now conform to Bitset.tla")
        return 0
    print("VIOLATION property=C03 replay=%s" % path)
    print("  rejected at event %d; spec expected: %s" % (r["fail_line"] + 1, r.get("expected")))
    return 1


# ------------------------------------------------------------- compile-time stage
def compile_probe(src, define, cxx=None):
    cmd = [cxx or core.CXX, "-std=c++14", "-fsyntax-only", "-I", core.INCLUDE, "-I", os.path.join(core.HARNESS, "common"), "-D" + define, src]
    return core.sh(cmd, timeout=300)


def signature_stage(ctx):
    """The static_assert table; every failing row is a violation whose replay names the row."""
    src = os.path.join(HDIR, "sigprobe.cpp")
    rc, out = compile_probe(src, "C03_SEL=0")
    ctx.notes["signature_rows"] = SIG_ROWS
    if rc == 0:
        return 0
    text = open(src).read()

    def one(n):
        rc1, out1 = compile_probe(src, "C03_SEL=%d" % n)
        return n, rc1, out1
    bad = 0
    with ThreadPoolExecutor(max_workers=core.NCPU) as ex:
        for n, rc1, out1 in ex.map(one, range(1, SIG_ROWS + 1)):
            if rc1 == 0:
                continue
            bad += 1
            m = re.search(r"ROW\(%d,(.*?)\);\n" % n, text, re.S)
            row = re.sub(r"\s+", " ", m.group(1)).strip() if m else "?"
            first = next((l for l in out1.splitlines() if "error" in l), out1[:300])
            ctx.violation("signature row %d of harness/bitset/sigprobe.cpp does not hold for this tree: %s ; compiler: %s" % (n, row[:600], first[:400]),
                          replay_lines=[{"_meta": {"kind": "signature", "src": src, "define": "C03_SEL=%d" % n, "what": "signature row %d" % n}}])
    if bad == 0:
        raise MachineryError("sigprobe.cpp does not compile as a whole but every row does on its own:\n%s" % out[-2000:])
    return bad


def call_probe_stage(ctx, build_error):
    """The driver does not build: which families of calls do not compile?"""
    src = os.path.join(HDIR, "callprobe.cpp")

    def one(p):
        rc, out = compile_probe(src, "C03_PROBE=%d" % p[0])
        return p, rc, out
    named, extra = 0, []
    with ThreadPoolExecutor(max_workers=core.NCPU) as ex:
        for (n, is_named, what), rc, out in ex.map(one, CALL_PROBES):
            if rc == 0:
                continue
            first = next((l for l in out.splitlines() if "error" in l), out[:300])
            if is_named:
                named += 1
                ctx.violation("a call the property names no longer compiles against this tree: %s (harness/bitset/callprobe.cpp, probe %d); compiler: %s" % (what, n, first[:500]),
                              replay_lines=[{"_meta": {"kind": "callprobe", "src": src, "define": "C03_PROBE=%d" % n, "what": what}}])
            else:
                extra.append(what)
    return named, extra


def probe_moved_from(ctx, drv):
    """Is a moved-from xdynamic_bitset a valid bitset on this tree?  Two moves through the driver, validated by L1; a
    control script with copies instead of moves tells a tree that is broken anyway (reported by the other stages) from one
    whose moved-from objects are the problem.  Returns (observable?, script to report or None)."""
    verdicts = {}
    for what, ops in (("copy", ("CtorCopy", "CopyAssign")), ("move", ("CtorMove", "MoveAssign"))):
        ok, first_bad = True, None
        for W, n in ((8, 5), (64, 64)):
            a = {"re": 0} if what == "move" else {"z": 0}
            a2 = {"re": 0} if what == "move" else {"self": 0}
            lines = [{"op": "Reset", "k": 1, "a": {"W": W, "build": "asan"}},
                     {"op": "CtorNV", "k": 1, "a": {"n": n, "v": 1}},
                     {"op": ops[0], "k": 2, "a": a},
                     {"op": "CtorNV", "k": 1, "a": {"n": n + 3, "v": 1}},
                     {"op": ops[1], "k": 2, "a": a2}]
            tp = os.path.join(ctx.sub("probe"), "%s-w%d.ndjson" % (what, W))
            run_script(ctx, drv, W, lines, tp, "probe-" + what)
            r = core.validate_trace(ctx, "BitsetTrace", "BitsetTrace.cfg", tp, explain=False)
            if not r["accepted"] and first_bad is None:
                first_bad = lines
            ok = ok and r["accepted"]
        verdicts[what] = (ok, first_bad)
    ctx.notes.pop("driver_restarts", None)
    if verdicts["move"][0]:
        return True, None
    # moves fail: blame the moved-from state only if the same script with copies conforms
    return False, (verdicts["move"][1] if verdicts["copy"][0] else None)


def dedupe_violations(ctx):
    drvrun.dedupe_violations(ctx, MAX_REPORTED)


def finish(ctx, caps, q, rule_extra=""):
    dedupe_violations(ctx)
    return core.finish(
        ctx, "model_checking",
        rule="TLC: L1 exhaustive for widths {2,3}, <=4 bits (quick) or <=5 bits (thorough), two objects; L2=>L1 refinement at the same bounds%s; "
             "the factored relation NextSplit of BitsetImpl.tla covers every pair of contents of two objects (owning or view) x every call: W=2/5 bits "
             "(quick), W=3/7 bits all pairs and W=4/9 bits with representative second operands (thorough); "
             "L1 transitions at W=8 (sizes 0..%d, one target object + representative operands, owning and view) enumerated by TLC and %s replayed on the "
             "real objects; TLC simulation walks at 12 and at 20 bits (three blocks); the upstream test file's call sequences; seeded random scripts for "
             "uint8/16/32/64 with boundary sizes/shifts on %d driver builds (one of them with XTL_NO_EXCEPTIONS); std::reverse/rotate/iter_swap/copy/"
             "copy_backward/count/find/equal over the bit iterators are actions of L1; every step also compares end()-begin(), rend()-rbegin(), "
             "std::count over the iterators, == with exchanged operands and element-wise std::equal; two element references at once (same bit, same block, "
             "other block, other object; swap / iter_swap / = / &= / |= / ^=; temporaries, named proxies, copies) are the L1 action RefPair with its own law, "
             "enumerated at W=8, in the simulation walks and in the random scripts. A case is one call with its full observable projection compared by TLC.%s" % (
                 "" if q else " (unfactored relation)",
                 9 if q else 10, "a sample (25 000; thorough 300 000) stratified over actions and argument classes, a different one for every VERIF_SEED,", 3 if q else 5, rule_extra),
        assumptions=["the harness projection (operator[], iterators, data(), block iterators, count/any/all/none) is read through the public API",
                     "moved-from bitsets are %s" % ("observed like any other object (any valid value is accepted)" if caps.get("movedfrom") else
                                                    "NOT observed on this tree (they are invalid, proposed_fixes/C03-03): the source of a move is re-created at once"),
                     "capacity() is only required to be >= the reserved size and >= size(); allocator behaviour and copies / comparisons between "
                     "bitsets of different block types are not modelled; in the XTL_NO_EXCEPTIONS build the scripts stay in range (at(i >= size()) "
                     "terminating instead of returning is probed and reported as advisory only)",
                     "the std-algorithm actions (Algo) and the two-reference action (RefPair) have no counterpart in the L2 specs (they are compositions of proxy reads and writes)",
                     "aliasing views (two views over the same caller memory, as a view copy or move creates) are not modelled"],
        exhaustive=False)


def apalache_stage(ctx, out):
    """Stretch goal, recorded only: the representation invariant as an inductive invariant, checked symbolically by
    Apalache for real block widths (specs/BitsetInductive.tla).  Never changes the verdict."""
    import shutil
    spec = os.path.join(core.SPECS, "BitsetInductive.tla")
    if not shutil.which("apalache-mc"):
        out["status"] = "apalache-mc not available"
        return

    def verdict(rc, txt):
        if "EXITCODE: OK" in txt:
            return "holds"
        if "EXITCODE: ERROR (12)" in txt:
            return "VIOLATED"
        return "not decided (rc=%s)" % rc
    rc, txt = core.sh(["apalache-mc", "check", "--cinit=CInit8", "--init=Init", "--inv=Inv", "--length=0",
                       "--out-dir=" + ctx.sub("apalache-base"), spec], timeout=600, cwd=ctx.sub("apalache-base"))
    out["base case (Init => Inv)"] = verdict(rc, txt)
    for cinit, w in (("CInit8", 8), ("CInit64", 64)):
        d = ctx.sub("apalache-w%d" % w)
        rc, txt = core.sh(["apalache-mc", "check", "--cinit=" + cinit, "--init=IndInit", "--inv=Inv", "--length=1", "--out-dir=" + d, spec],
                          timeout=1200, cwd=d)
        out["inductive step (Inv /\\ Next => Inv'), W=%d, up to 3 blocks" % w] = verdict(rc, txt)


def run(ctx):
    q = ctx.quick
    findings = core.load_findings(PID)
    caps = {"movedfrom": False}
    apa, apa_thread = {}, None
    if not q and not FAST:
        apa_thread = threading.Thread(target=apalache_stage, args=(ctx, apa))
        apa_thread.start()

    # ---- 0. compile-time stage and driver builds (in the background while TLC runs)
    nsig = signature_stage(ctx)
    flavours = ["asan", "noexc"] if ONLY_RND else ["asan", "o2ndebug", "noexc"] + ([] if q else ["clang", "o0"])
    builds, build_err = {}, {}

    def do_builds():
        def one(fl):
            try:
                builds[fl] = build_driver(ctx, fl)
            except MachineryError as x:
                build_err[fl] = str(x)
        with ThreadPoolExecutor(max_workers=max(1, min(len(flavours), core.NCPU // 2))) as ex:
            list(ex.map(one, flavours))
    bt = threading.Thread(target=do_builds)
    bt.start()

    # ---- 1. L1 model checking
    try:
        r = {"violated": None} if FAST else \
            core.tlc_model_check(ctx, "BitsetMC", "Bitset_mc.cfg" if q else "Bitset_mc_thorough.cfg",
                                 "L1 invariants, laws, observer purity", coverage=not q, timeout=2400)
        if r["violated"]:
            raise MachineryError("L1 spec Bitset.tla violates its own theorem %s (oracle bug), see %s" % (r["violated"], r["outfile"]))
        if not FAST:
            # two element references at once (RefPair): its own laws, every (same bit / same block / other block / other object)
            # x path x value-category combination at W=2, 3 bits (thorough: all paths; quick: representative path pairs)
            rp = core.tlc_model_check(ctx, "BitsetMC", "Bitset_mc_refpair.cfg" if q else "Bitset_mc_refpair_thorough.cfg",
                                      "L1 two-reference action RefPair: RefPairLaw", coverage=True, timeout=1800)
            if rp["violated"]:
                raise MachineryError("L1 spec Bitset.tla violates its own theorem %s (oracle bug), see %s" % (rp["violated"], rp["outfile"]))
            cov_rp = {k: v for k, v in rp.get("coverage", {}).items() if k == "RefPair"}
            ctx.notes["l1_refpair_coverage"] = cov_rp
            if cov_rp and cov_rp["RefPair"][1] == 0:
                raise MachineryError("action RefPair has no TLC coverage in Bitset_mc_refpair*.cfg")
        if not q:
            ctx.notes["l1_action_coverage"] = {k: v for k, v in r.get("coverage", {}).items()}
            ctx.notes["vacuous_actions"] = sorted(k for k, v in r.get("coverage", {}).items() if v[1] == 0 and k[0].isupper())
    finally:
        bt.join()

    # ---- the driver must exist from here on
    if "asan" in build_err:
        named, extra = call_probe_stage(ctx, build_err["asan"])
        if named or nsig:
            ctx.log("the conformance driver does not build against this tree; %d signature rows and %d named call families fail" % (nsig, named))
            ctx.notes["driver_build_failed"] = build_err["asan"][-1500:]
            return finish(ctx, caps, q, " The run-time stages were skipped: the driver does not build against this tree.")
        raise MachineryError("the C03 driver does not build although every signature row and every call the property names compiles"
                             "%s:\n%s" % ((" (not named by the property, but used by the harness: %s)" % "; ".join(extra)) if extra else "", build_err["asan"]))
    for fl in list(build_err):
        # a secondary build that fails where the primary one works: compiler-specific, not a property matter
        raise MachineryError("driver build '%s' failed: %s" % (fl, build_err[fl]))
    drv = builds["asan"]

    caps["movedfrom"], mf_lines = probe_moved_from(ctx, drv)
    ctx.notes["moved_from_bitset_is_valid"] = caps["movedfrom"]
    if not caps["movedfrom"] and mf_lines is None:
        ctx.log("the moved-from probe fails, and so does the same script with copies: not a moved-from matter, left to the other stages")
    if not caps["movedfrom"] and mf_lines is not None:
        # (fix aa4c025 made the moved-from bitset empty; before it this was a NOTE)
        ctx.violation("a moved-from xdynamic_bitset is not a valid bitset on this tree: after move construction / move assignment the source's "
                      "observers do not describe one bit sequence (or the driver crashed observing it).  The other stages re-create the source "
                      "of every move at once.", replay_lines=mf_lines)

    # ---- 2. L2 => L1 refinement
    pref = "BitsetImpl_mc" if caps["movedfrom"] else "BitsetImpl_mcdm"
    # the *_split* configurations use the factored next-state relation of BitsetImpl.tla (NextSplit): every pair of contents
    # of two objects (owning or view) x every call, at a cost linear in the number of pairs
    if q:
        l2 = [pref + ".cfg"] + (["BitsetImpl_mc_split25.cfg"] if caps["movedfrom"] else [])
    elif caps["movedfrom"]:
        l2 = [pref + "_thorough.cfg", pref + "_thorough2.cfg", "BitsetImpl_mc_split37.cfg", "BitsetImpl_mc_split49.cfg"]
    else:
        l2 = [pref + "_thorough.cfg", pref + "_thorough2.cfg", "BitsetImpl_mc_deep3.cfg"]
    for cfg2 in ([] if FAST else l2):
        r2 = core.tlc_model_check(ctx, "BitsetImpl", cfg2, "L2 (block-level transcription) refines L1; unused bits zero", timeout=2400)
        if r2["violated"]:
            ctx.drift.append("BitsetImpl.tla does not refine Bitset.tla (%s, %s); see %s" % (cfg2, r2["violated"], r2["outfile"]))
    for cfgv in ([] if FAST else ["BitsetViewImpl_mc.cfg"] if q else ["BitsetViewImpl_mc_thorough.cfg", "BitsetViewImpl_mc_thorough2.cfg"]):
        rv = core.tlc_model_check(ctx, "BitsetViewImpl", cfgv, "L2 of the view (index-level transcription over caller memory): no access outside the span, "
                                  "guards intact, unused bits zero, refines L1", timeout=2400)
        if rv["violated"]:
            ctx.drift.append("BitsetViewImpl.tla: %s violated (%s); see %s" % (rv["violated"], cfgv, rv["outfile"]))
    if not q and not FAST:
        # the transcription of the defaulted move operations, with the moved-from object observed: TLC must find the
        # representation invariant broken (this is the model-level counterpart of the moved-from probe)
        r2 = core.tlc(ctx, "BitsetImpl", "BitsetImpl_defaulted_move.cfg", name="L2-defaulted-move", timeout=600)
        ctx.notes["l2_defaulted_move_breaks_RepInv"] = bool(r2["violated"])

    scripts = []   # (name, W, lines, flavour)
    rnd = random.Random(ctx.seed)

    # ---- 3. S->C: all transitions of L1 at W=8
    edges = []
    for cfg in (() if ONLY_RND else ("Bitset_s2c.cfg", "Bitset_s2c_bin_quick.cfg" if q else "Bitset_s2c_bin.cfg", "Bitset_s2c_binview.cfg")):
        edges.extend(enumerate_edges(ctx, cfg))
    if not caps["movedfrom"]:
        edges = [e for e in edges if not (e["l"]["op"] in ("CtorMove", "MoveAssign") and e["l"]["a"]["re"] == 0)]
    sample, per_op = stratified_sample(edges, 25000 if q else 300000, rnd)
    lines, taken = edge_scripts(sample, 8, rnd)
    ctx.log("S->C: %d L1 transitions enumerated by TLC at W=8, %d replayed (%d script events), %d actions" % (len(edges), taken, len(lines), len(per_op)))
    ctx.notes["s2c_transitions_enumerated"] = len(edges)
    ctx.notes["s2c_transitions_replayed"] = taken
    ctx.notes["s2c_per_action_enumerated_replayed"] = per_op
    for i, ch in enumerate(chunk_by_reset(lines, 6 if q else 12)):
        scripts.append(("s2c-%02d" % i, 8, ch, "asan"))

    # ---- 3b. TLC simulation walks (longer histories, both objects, W=8)
    simdir = ctx.sub("sim")
    nsim = 150 if q else 1500
    if not ONLY_RND:
        core.tlc(ctx, "BitsetMC", "Bitset_sim.cfg", name="s2c-simulate",
                 simulate="file=%s/t,num=%d" % (simdir, nsim), extra=["-depth", "30", "-seed", str(ctx.seed)], workers=min(4, core.NCPU))
    lines, nwalks = sim_scripts(ctx, simdir, 8, caps)
    ctx.notes["s2c_simulation_walks"] = nwalks
    scripts.append(("sim", 8, lines, "asan"))
    # ---- 3b'. walks at 20 bits (three blocks of width 8; BFS does not finish there)
    simdir20 = ctx.sub("sim20")
    nsim20 = 10 if q else 250
    if not ONLY_RND:
        core.tlc(ctx, "BitsetMC", "Bitset_sim20.cfg", name="s2c-simulate-20bits",
                 simulate="file=%s/t,num=%d" % (simdir20, nsim20), extra=["-depth", "40", "-seed", str(ctx.seed + 7)], workers=min(4, core.NCPU))
    lines, nwalks20 = sim_scripts(ctx, simdir20, 8, caps)
    ctx.notes["s2c_simulation_walks_20bits"] = nwalks20
    scripts.append(("sim20", 8, lines, "asan"))

    # ---- 3c. the upstream tests' own call sequences through the logging harness
    scripts.append(("upstream", 64, upstream_script(), "asan"))

    # ---- 4. C->S random scripts for every block type, on every driver build
    for fl in flavours:
        for W in (8, 16, 32, 64):
            nexec, nops = (60, 50) if q else (600, 60)
            if W == 64:
                nexec //= 2
            if fl != "asan":
                nexec = nexec // 3 if q else nexec // 4
            lines = random_script(ctx.seed, W, nexec, nops, dict(caps, noexc=(fl == "noexc")), build=fl)
            for i, ch in enumerate(chunk_by_reset(lines, 1 if (q or fl != "asan") else 4)):
                scripts.append(("rnd-%s-w%d-%d" % (fl, W, i), W, ch, fl))

    # ---- probes for open known findings (each is a tiny script that must still fail)
    for fnd in findings:
        if "probe" in fnd:
            scripts.append(("probe-" + fnd["id"], fnd["probe"]["W"], fnd["probe"]["script"], "asan"))

    # ---- XTL_NO_EXCEPTIONS: at(i >= size()) cannot throw; the documented replacement is to terminate.  Advisory: a build
    # in which the call returns normally (an unchecked access) is reported as drift, not as a violation
    if "noexc" in builds:
        for W in (8, 64):
            pl = [{"op": "Reset", "k": 1, "a": {"W": W, "build": "noexc"}}, {"op": "CtorNV", "k": 1, "a": {"n": W + 3, "v": 1}},
                  {"op": "At", "k": 1, "a": {"c": "c", "i": W + 3}}]
            tp = os.path.join(ctx.sub("probe"), "noexc-at-w%d.ndjson" % W)
            run_script(ctx, builds["noexc"], W, pl, tp, "probe-noexc")
            evs = core.read_ndjson(tp)
            ended = evs[-1].get("op") if evs else None
            ctx.notes.setdefault("noexc_at_out_of_range_ends_with", {})[str(W)] = ended
            if ended != "Crash":
                ctx.drift.append("ADVISORY C03: built with XTL_NO_EXCEPTIONS, at(size()) on a %d-bit-block bitset returned normally instead of terminating (%s)" % (W, json.dumps(evs[-1].get("res")) if evs else "no event"))
        ctx.notes.pop("driver_restarts", None)

    # ---- run the harness
    scripts = [x for x in scripts if x[2]]
    tdir = ctx.sub("traces")

    def one(item):
        name, W, lines, fl = item
        tp = os.path.join(tdir, name + ".ndjson")
        run_script(ctx, builds[fl], W, lines, tp, name)
        return tp
    with ThreadPoolExecutor(max_workers=max(2, core.NCPU // 2)) as ex:
        traces = list(ex.map(one, scripts))
    for name, W, lines, fl in scripts:
        ctx.cov["traces_validated_against_impl"] += sum(1 for l in lines if l["op"] == "Reset")
    ctx.sample({"script": [json.dumps(x) for x in scripts[0][2][:12]]})
    ctx.sample({"script": [json.dumps(x) for x in scripts[-1][2][:8]]})

    # ---- validate every trace against L1
    core.validate_traces(ctx, "BitsetTrace", "BitsetTrace.cfg", traces, classify=classify(findings, ctx), max_restarts=3)
    ctx.cov["evaluations"] = ctx.cov["events_validated"]
    ctx.log("validated %d events in %d traces (%d executions)" % (ctx.cov["events_validated"], len(traces), ctx.cov["traces_validated_against_impl"]))
    if apa_thread is not None:
        apa_thread.join()
        ctx.notes["apalache_inductive_invariant_recorded_only"] = apa
        ctx.log("Apalache (recorded only): %s" % apa)
    return finish(ctx, caps, q)

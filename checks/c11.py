"""C11 - optional/complex vectors and arrays keep their two parallel storages in lockstep.

 1. TLC: ParSeq.tla (L1: a container is ONE sequence of pairs; the two storages are projections)
    with its own laws, two objects, every operation (exhaustive in small bounds).
 2. S->C: TLC enumerates every (state, operation, argument) transition of L1 for sizes 0..3 (0..4 in
    the thorough tier) on the four container families; each is replayed on the real
    xoptional_vector<int>, xoptional_array<int,3>, xcomplex_vector<double>, xcomplex_array<double,3>;
    TLC simulation walks add longer two-object histories.
 3. C->S: seeded random scripts on six instantiations, sizes up to 200 (the flag storage is an
    xdynamic_bitset<size_t>: 64-bit block boundary at 64/128), extents 3, 66, 70 for the arrays.
 Every recorded step (result + size(), value().size(), has_value().size(), elements read from the
 underlying containers, through operator[] and by forward/reverse iteration, ==/!=) is validated by
 TLC against ParSeqTrace.tla (L1 is the oracle).
"""
import json, os, random, subprocess
from concurrent.futures import ThreadPoolExecutor
from vlib import core, tlaval
from vlib.core import MachineryError

PID = "C11"
HDIR = os.path.join(core.HARNESS, "parseq")
# type key -> (flavour, container, extent)
TYPES = {"ov": ("optional", "vector", 0), "oa3": ("optional", "array", 3), "oa70": ("optional", "array", 70),
         "cv": ("complex", "vector", 0), "ca3": ("complex", "array", 3), "ca66": ("complex", "array", 66)}
KEY_OF = {v: k for k, v in TYPES.items()}
ITER_PATHS = ("iter", "citer", "riter", "criter")
NAVS = ("plus", "minus", "inc", "dec", "sub", "arrow", "peq", "meq", "postinc")
READ_PATHS = ("index", "cindex", "at", "cat", "front", "cfront", "back", "cback") + ITER_PATHS
WRITE_PATHS = ("index", "at", "front", "back", "iter", "riter")
OBSERVERS = {"At", "Read", "Extract", "IterRel", "Feature"}
ALL_OPS = ["CtorDefault", "CtorN", "CtorNV", "CtorNO", "CtorIL", "CtorCopy", "CopyAssign", "CtorMove", "MoveAssign",
           "Resize", "ResizeV", "ResizeO", "At", "Read", "Write", "WriteUnder", "Extract", "IterRel"]
MOVES = {"CtorMove", "MoveAssign"}
BIG_SIZES = [0, 1, 2, 3, 5, 8, 63, 64, 65, 66, 127, 128, 129, 200]
SMALL_SIZES = [0, 1, 2, 3, 4, 5, 8]


# ------------------------------------------------------------------ build + features
def probe_features(ctx):
    """Which optional parts of the interface can be instantiated with the headers under test?
    (tiny programs compiled with the same compiler; the result only selects what the driver compiles
    and what the generators may use - whether a missing feature matters is decided by the spec)"""
    names = {"oaf": "probe_opt_array_iter.cpp", "caf": "probe_cplx_array_iter.cpp", "cas": "probe_cplx_assign.cpp"}

    def one(item):
        k, src = item
        rc, out = core.try_build(ctx, os.path.join(HDIR, src), os.path.join(ctx.work, "probe_" + k))
        return k, rc == 0, out
    feats = {}
    with ThreadPoolExecutor(max_workers=3) as ex:
        for k, ok, out in ex.map(one, names.items()):
            feats[k] = ok
            if not ok:
                with open(os.path.join(ctx.work, "probe_%s.log" % k), "w") as f:
                    f.write(out)
    return feats


def type_flags(feats, key):
    """(fwd, cas) of a type: what its Reset event announces and the driver was built with."""
    fl, ct, _ = TYPES[key]
    fwd = 1 if ct == "vector" else int(feats["oaf"] if fl == "optional" else feats["caf"])
    cas = 1 if fl == "optional" else int(feats["cas"])
    return fwd, cas


def build_driver(ctx, feats):
    flags = ["-fno-lifetime-dse"]
    if feats["oaf"]:
        flags.append("-DPARSEQ_OPT_ARRAY_FWD_ITER")
    if feats["caf"]:
        flags.append("-DPARSEQ_CPLX_ARRAY_FWD_ITER")
    if feats["cas"]:
        flags.append("-DPARSEQ_CPLX_ASSIGN")
    drv = os.path.join(ctx.work, "parseq_driver")
    core.build(ctx, os.path.join(HDIR, "driver.cpp"), drv, flags=flags)
    return drv


def reset_event(feats, key):
    fl, ct, n = TYPES[key]
    fwd, cas = type_flags(feats, key)
    return {"op": "Reset", "k": 1, "a": {"fl": fl, "ct": ct, "n": n, "fwd": fwd, "cas": cas}}


def supported(feats, key, ev):
    """May this call be issued to a driver built with `feats`?"""
    fwd, cas = type_flags(feats, key)
    a = ev.get("a", {})
    if not fwd and a.get("path") in ("iter", "citer"):
        return False
    if not cas and ev["op"] == "Write" and a.get("wk") in ("pair", "from"):
        return False
    return True


# ------------------------------------------------------------------ random scripts (C->S)
class Gen:
    """Random script generator.  Tracks only the two sizes (to stay inside the C++ preconditions:
    index < size, front/back on non-empty, constructor size == extent for arrays); predicts nothing."""

    def __init__(self, rnd, key, feats, big):
        self.r, self.key = rnd, key
        self.fl, self.ct, self.n = TYPES[key]
        self.fwd, self.cas = type_flags(feats, key)
        self.vec = self.ct == "vector"
        n0 = 0 if self.vec else self.n
        self.size = [n0, n0]
        self.sizes = BIG_SIZES if big else SMALL_SIZES

    def val(self):
        r = self.r
        t = r.random()
        if t < 0.2:
            return 0
        if t < 0.85:
            return r.randint(-9, 9)
        return r.choice([-1000000, 999999, 32767, -32768, 255, 65536, 123456])

    def small(self):
        return self.r.randint(-9, 9)

    def elem(self):
        if self.fl == "optional":
            return [self.val(), self.r.randrange(2)]
        return [self.val(), self.val()]

    def conv_elem(self):
        """for closure kind 'conv' (short / float): exactly representable components"""
        if self.fl == "optional":
            return [self.small() * 100, self.r.randrange(2)]
        return [self.small() * 100, self.small()]

    def value_arg(self):
        if self.fl == "optional":
            return [self.val(), 1]
        return [self.val(), self.val()]

    def pick_size(self, k):
        if not self.vec:
            return self.n
        r = self.r
        t = r.random()
        if t < 0.55:
            return r.choice(self.sizes)
        if t < 0.8:
            return max(0, self.size[k] + r.choice([-2, -1, 1, 1, 2]))
        return r.randrange(0, max(self.sizes) + 1)

    def ev(self, op, k, **a):
        return {"op": op, "k": k + 1, "a": a or {"z": 0}}

    def path_nav(self, paths, n):
        r = self.r
        ps = [p for p in paths if self.fwd or p not in ("iter", "citer")]
        path = r.choice(ps)
        i = 0 if "front" in path else n - 1 if "back" in path else r.choice([0, n - 1, r.randrange(n), min(n - 1, 63), min(n - 1, 64)])
        nav = "na"
        if path in ITER_PATHS:
            nav = r.choice(NAVS)
            if n > 24 and nav in ("inc", "dec", "postinc") and r.random() < 0.7:
                nav = r.choice(("plus", "minus", "sub", "arrow", "peq", "meq"))
        return path, nav, i

    def step(self):
        r = self.r
        for _ in range(60):
            k = r.randrange(2)
            o = 1 - k
            n = self.size[k]
            c = r.random()
            if c < 0.12:     # construction
                t = r.randrange(8)
                if t == 0:
                    self.size[k] = 0 if self.vec else self.n
                    return self.ev("CtorDefault", k, how=r.choice(["dinit", "vinit"]))
                if t == 1 and self.fl == "complex":
                    m = self.pick_size(k); self.size[k] = m
                    return self.ev("CtorN", k, n=m)
                if t == 2:
                    m = self.pick_size(k); self.size[k] = m
                    return self.ev("CtorNV", k, n=m, v=self.value_arg())
                if t == 3:
                    m = self.pick_size(k); self.size[k] = m
                    ck = r.choice(["val", "ref", "conv"])
                    return self.ev("CtorNO", k, n=m, e=self.conv_elem() if ck == "conv" else self.elem(), ck=ck)
                if t == 4 and self.fl == "complex" and self.vec:
                    m = r.randrange(0, 9); self.size[k] = m
                    return self.ev("CtorIL", k, es=[self.elem() for _ in range(m)])
                if t == 5:
                    self.size[k] = self.size[o]
                    return self.ev(r.choice(["CtorCopy", "CopyAssign"]), k)
                if t == 6 and r.random() < 0.5:
                    self.size[k] = self.size[o]
                    self.size[o] = 0 if self.vec else self.n
                    return self.ev(r.choice(["CtorMove", "MoveAssign"]), k)
                continue
            if c < 0.30 and self.vec:
                t = r.randrange(3)
                m = self.pick_size(k); self.size[k] = m
                if t == 0:
                    return self.ev("Resize", k, n=m)
                if t == 1:
                    return self.ev("ResizeV", k, n=m, v=self.value_arg())
                ck = r.choice(["val", "ref", "conv"])
                return self.ev("ResizeO", k, n=m, e=self.conv_elem() if ck == "conv" else self.elem(), ck=ck)
            if c < 0.38:
                i = r.choice([0, max(n - 1, 0), n, n + 1, r.randrange(0, n + 2), 64, 63])
                h = 1 if r.random() < 0.15 else 0
                return self.ev("At", k, c=r.choice(["m", "c"]), i=r.randrange(0, 3) if h else i, h=h)
            if c < 0.52 and n > 0:
                path, nav, i = self.path_nav(READ_PATHS, n)
                return self.ev("Read", k, path=path, nav=nav, i=i)
            if c < 0.84 and n > 0:
                path, nav, i = self.path_nav(WRITE_PATHS, n)
                kinds = ["a", "b", "scalar"] + (["pair", "pair", "from"] if self.cas else [])
                wk = r.choice(kinds)
                e = [0, 0] if wk == "from" else self.elem()
                j = r.randrange(n) if wk == "from" else 0
                return self.ev("Write", k, path=path, nav=nav, i=i, wk=wk, e=e, j=j)
            if c < 0.92 and n > 0:
                which = r.choice(["a", "b"])
                x = r.randrange(2) if (which == "b" and self.fl == "optional") else self.val()
                return self.ev("WriteUnder", k, which=which, i=r.choice([0, n - 1, r.randrange(n)]), x=x)
            if c < 0.95:
                return self.ev("Extract", k, which=r.choice(["a", "b"]))
            if c < 1.0:
                paths = [p for p in ITER_PATHS if self.fwd or p not in ("iter", "citer")]
                return self.ev("IterRel", k, path=r.choice(paths), i=r.choice([0, n, r.randrange(n + 1)]), j=r.choice([0, n, r.randrange(n + 1)]))
        return self.ev("Extract", 0, which="a")


def random_script(seed, key, feats, nexec, nops, big_share):
    rnd = random.Random("%d/%s" % (seed, key))
    lines = []
    for _ in range(nexec):
        g = Gen(rnd, key, feats, big=rnd.random() < big_share)
        lines.append(reset_event(feats, key))
        for _ in range(nops):
            lines.append(g.step())
    return lines


# ------------------------------------------------------------------ TLC -> scripts (S->C)
def emitted(out):
    res = []
    for line in out.splitlines():
        if line.startswith('"@E@'):
            res.append(json.loads(json.loads(line)[3:]))
    return res


def key_of_cfg(c):
    return KEY_OF[(c["fl"], c["ct"], c["n"])]


def setup_events(key, feats, k, seq, rnd):
    """Events that put real object k (0-based) into the abstract state `seq` (list of pairs),
    by a randomly chosen constructor followed by element writes."""
    fl, ct, n = TYPES[key]
    fwd, cas = type_flags(feats, key)
    evs = []
    m = len(seq)
    K = k + 1
    cur = None
    t = rnd.random()
    if fl == "complex" and ct == "vector" and m <= 8 and t < 0.35:
        evs.append({"op": "CtorIL", "k": K, "a": {"es": seq}})
        return evs
    if t < 0.55 or m == 0:
        evs.append({"op": "CtorDefault", "k": K, "a": {"how": rnd.choice(["dinit", "vinit"])}})
        if ct == "vector" and m > 0:
            evs.append({"op": "Resize", "k": K, "a": {"n": m}})
        cur = [[0, 0]] * m
    elif t < 0.8:
        e = seq[rnd.randrange(m)]
        v = [e[0], 1] if fl == "optional" else e
        evs.append({"op": "CtorNV", "k": K, "a": {"n": m, "v": v}})
        cur = [v] * m
    else:
        e = seq[rnd.randrange(m)]
        evs.append({"op": "CtorNO", "k": K, "a": {"n": m, "e": e, "ck": rnd.choice(["val", "ref", "conv"])}})
        cur = [e] * m
    for i in range(m):
        if cur[i] == seq[i]:
            continue
        paths = [p for p in WRITE_PATHS if (fwd or p != "iter") and ("front" != p or i == 0) and ("back" != p or i == m - 1)]
        path = rnd.choice(paths)
        nav = rnd.choice(NAVS) if path in ITER_PATHS else "na"
        if cas and rnd.random() < 0.7:
            evs.append({"op": "Write", "k": K, "a": {"path": path, "nav": nav, "i": i, "wk": "pair", "e": seq[i], "j": 0}})
        else:
            if cur[i][0] != seq[i][0]:
                evs.append({"op": "Write", "k": K, "a": {"path": path, "nav": nav, "i": i, "wk": "a", "e": [seq[i][0], 0], "j": 0}})
            if cur[i][1] != seq[i][1]:
                evs.append({"op": "WriteUnder", "k": K, "a": {"which": "b", "i": i, "x": seq[i][1]}})
    return evs


def edge_scripts(edges, feats, rnd, limit=None):
    """One execution per (type, source state): Reset, setup, then every transition out of that state;
    after a call that changed an object its source state is re-established by constructors/writes."""
    by_src = {}
    for e in edges:
        key = key_of_cfg(e["c"])
        if not supported(feats, key, e["l"]):
            continue
        by_src.setdefault((key, json.dumps(e["p"])), []).append(e["l"])
    total = sum(len(v) for v in by_src.values())
    keep = 1.0 if not limit or total <= limit else limit / float(total)
    out, taken = {}, 0
    for (key, pj) in sorted(by_src):
        st = json.loads(pj)
        calls = by_src[(key, pj)]
        if keep < 1.0:
            calls = [c for c in calls if rnd.random() < keep] or calls[:1]
        calls.sort(key=lambda c: c["op"] not in OBSERVERS)      # observers first: no re-setup needed
        lines = out.setdefault(key, [])
        lines.append(reset_event(feats, key))
        for k in (0, 1):
            lines.extend(setup_events(key, feats, k, st[k], rnd))
        dirty, prev = (), None
        for c in calls:
            if prev is not None and prev["op"] in ("Write", "WriteUnder"):
                # only element i of object k was touched: put the old pair back
                k, i = prev["k"] - 1, prev["a"]["i"]
                old = st[k][i]
                if type_flags(feats, key)[1]:
                    lines.append({"op": "Write", "k": k + 1, "a": {"path": "index", "nav": "na", "i": i, "wk": "pair", "e": old, "j": 0}})
                else:
                    lines.append({"op": "WriteUnder", "k": k + 1, "a": {"which": "a", "i": i, "x": old[0]}})
                    lines.append({"op": "WriteUnder", "k": k + 1, "a": {"which": "b", "i": i, "x": old[1]}})
            else:
                for k in dirty:
                    lines.extend(setup_events(key, feats, k, st[k], rnd))
            lines.append(c)
            taken += 1
            prev = c
            dirty = () if c["op"] in OBSERVERS else (0, 1) if c["op"] in MOVES else (c["k"] - 1,)
    return out, taken


def sim_scripts(simdir, feats):
    out, n = {}, 0
    for fn in sorted(os.listdir(simdir)):
        states = tlaval.parse_sim_trace(os.path.join(simdir, fn))
        if len(states) < 2:
            continue
        key = key_of_cfg(states[0]["cfg"])
        lines = out.setdefault(key, [])
        lines.append(reset_event(feats, key))
        for s in states[1:]:
            last = s["last"]
            ev = {"op": last["op"], "k": last["k"], "a": last["a"]}
            if ev["op"] == "Feature":        # asked once per array type, in its own script
                continue
            if not supported(feats, key, ev):
                break
            lines.append(ev)
        n += 1
    return out, n


def write_script(path, lines):
    with open(path, "w") as f:
        for l in lines:
            f.write(json.dumps(l, separators=(",", ":")) + "\n")


def chunk_by_reset(lines, nchunks):
    starts = [i for i, l in enumerate(lines) if l["op"] == "Reset"]
    if not starts:
        return [lines]
    per = max(1, (len(starts) + nchunks - 1) // nchunks)
    cuts = starts[::per]
    return [lines[a:b] for a, b in zip(cuts, cuts[1:] + [len(lines)])]


def run_script(ctx, drv, key, script_path, trace_path):
    env = dict(os.environ); env.update(core.ASAN_ENV)
    with open(script_path) as fin, open(trace_path, "w") as fout:
        p = subprocess.run([drv, key], stdin=fin, stdout=fout, stderr=subprocess.PIPE, env=env, timeout=1800)
    if p.returncode == 3:
        raise MachineryError("harness rejected script %s: %s" % (script_path, p.stderr.decode()[-500:]))


def classify(findings):
    def f(ev, execution):
        for k in findings:
            m = k.get("match", {})
            if m and all(ev.get(x) == y or ev.get("a", {}).get(x) == y for x, y in m.items()):
                return "%s (%s)" % (k["key"], k["what"])
        return None
    return f


def dedupe_violations(ctx):
    """The same failing call is usually met from many source states: report it once."""
    import re
    seen, keep = set(), []
    for path, text in ctx.violations:
        m = re.search(r'\{"op":"(\w+)".*?"a":(\{.*?\}),"res"', text)
        sig = (m.group(1), m.group(2)) if m else text[:200]
        if sig in seen:
            try:
                os.remove(path)
            except OSError:
                pass
            continue
        seen.add(sig)
        keep.append((path, text))
    ctx.notes["rejections_total"] = len(ctx.violations)
    ctx.violations[:] = keep


def replay(ctx, path):
    """./verif replay C11 <file>: re-run the recorded calls on the current tree and validate."""
    lines = [l for l in core.read_ndjson(path) if "_meta" not in l]
    rs = next((l for l in lines if l["op"] == "Reset"), None)
    if rs is None:
        raise MachineryError("replay file has no Reset event: %s" % path)
    key = KEY_OF[(rs["a"]["fl"], rs["a"]["ct"], rs["a"]["n"])]
    feats = probe_features(ctx)
    drv = build_driver(ctx, feats)
    for l in lines:
        if l["op"] == "Reset":
            l["a"] = reset_event(feats, key)["a"]      # the features of the tree under test now
    sp, tp = os.path.join(ctx.work, "replay.script"), os.path.join(ctx.work, "replay.ndjson")
    write_script(sp, lines)
    run_script(ctx, drv, key, sp, tp)
    r = core.validate_trace(ctx, "ParSeqTrace", "ParSeqTrace.cfg", tp)
    if r["accepted"]:
        print("replay accepted: the recorded calls now conform to ParSeq.tla")
        return 0
    print("VIOLATION property=C11 replay=%s" % path)
    print("  rejected at event %d; spec expected: %s" % (r["fail_line"] + 1, r.get("expected")))
    return 1


def selftest(ctx):
    """./verif selftest C11: a recorded trace is accepted; the same trace with one corrupted field is rejected
    at exactly that event; with one event removed it is rejected at the first event that no longer fits."""
    feats = probe_features(ctx)
    drv = build_driver(ctx, feats)
    ok = True
    for key in ("ov", "ca3"):
        lines = random_script(ctx.seed, key, feats, 1, 300, big_share=0.0)
        sp, tp = os.path.join(ctx.work, "st-%s.script" % key), os.path.join(ctx.work, "st-%s.ndjson" % key)
        write_script(sp, lines)
        run_script(ctx, drv, key, sp, tp)
        r = core.validate_trace(ctx, "ParSeqTrace", "ParSeqTrace.cfg", tp, explain=False)
        print("selftest %s: recorded trace of %d events accepted: %s" % (key, r["total"], r["accepted"]))
        ok = ok and r["accepted"]
        rec = [json.loads(l) for l in open(tp) if l.strip()]
        k = 150
        for what in ("size", "elem", "res", "drop"):
            mod = json.loads(json.dumps(rec))
            expect = k
            if what == "size":
                mod[k]["st"]["o"][0]["nB"] += 1
            elif what == "elem":
                cand = [i for i in range(k, len(mod)) if mod[i]["st"]["o"][0]["B"] or mod[i]["st"]["o"][1]["B"]]
                expect = cand[0]
                o = mod[expect]["st"]["o"][0] if mod[expect]["st"]["o"][0]["B"] else mod[expect]["st"]["o"][1]
                o["B"][-1] += 1
            elif what == "res":
                cand = [i for i in range(k, len(mod)) if mod[i]["op"] == "Read"]
                expect = cand[0]
                mod[expect]["res"]["val"][1] += 1
            else:
                cand = [i for i in range(k, len(mod) - 1) if mod[i]["op"] in ("Write", "WriteUnder", "Resize", "ResizeV", "ResizeO") and mod[i]["st"] != mod[i - 1]["st"] and mod[i + 1]["op"] in OBSERVERS]
                expect = cand[0]
                del mod[expect]
            cp = os.path.join(ctx.work, "st-%s-%s.ndjson" % (key, what))
            write_script(cp, mod)
            rr = core.validate_trace(ctx, "ParSeqTrace", "ParSeqTrace.cfg", cp, explain=False)
            fl = rr.get("fail_line")
            good = (not rr["accepted"]) and (fl == expect if what != "drop" else fl is not None and fl >= expect)
            print("selftest %s: corruption '%s' at event %d -> rejected at event %s: %s" % (key, what, expect + 1, None if fl is None else fl + 1, "ok" if good else "UNEXPECTED"))
            ok = ok and good
    return 0 if ok else 2


def run(ctx):
    q = ctx.quick
    findings = core.load_findings(PID)
    rnd = random.Random(ctx.seed)

    # ---- 1. L1 model checking (the spec's own theorems)
    mcs = [("ParSeq_mc.cfg", "two objects, sizes <= 2")]
    if not q:
        mcs.append(("ParSeq_mc_thorough.cfg", "one target object, sizes <= 4, representative second object, incl. builds without array iterators"))
    for cfg, what in mcs:
        r = core.tlc_model_check(ctx, "ParSeqMC", cfg, "L1 invariants (lockstep projections, array size fixed) and laws; " + what,
                                 coverage=not q, timeout=1500)
        if r["violated"]:
            raise MachineryError("L1 spec ParSeq.tla violates its own theorem %s (oracle bug), see %s" % (r["violated"], r["outfile"]))

    # ---- build the harness from the include tree under test
    feats = probe_features(ctx)
    ctx.notes["features"] = {"xoptional_array forward iterators compile": feats["oaf"],
                             "xcomplex_array forward iterators compile": feats["caf"],
                             "complex proxy = xcomplex<T> compiles": feats["cas"]}
    ctx.log("features: %s" % ctx.notes["features"])
    if not feats["cas"]:
        print("NOTE property=C11 `container[i] = xcomplex<T>(re, im)` does not compile with these headers "
              "(xcomplex::operator= reads private members of another instantiation); whole-element writes to complex "
              "containers are not exercised, component writes are (see proposed_fixes/C11-05)")
    drv = build_driver(ctx, feats)

    scripts = []   # (name, key, lines)

    # ---- 2. S->C: every L1 transition, sizes 0..3 (quick) / 0..4 (thorough), four container families
    edges = []
    for cfg in (["ParSeq_s2c_vec.cfg", "ParSeq_s2c_arr.cfg"] if q else ["ParSeq_s2c_vec_thorough.cfg", "ParSeq_s2c_arr.cfg"]):
        r3 = core.tlc(ctx, "ParSeqMC", cfg, name="s2c-enumerate-" + cfg[:-4], heap="8g", timeout=1500)
        if r3["violated"]:
            raise MachineryError("s2c enumeration failed: %s" % r3["outfile"])
        edges.extend(emitted(r3["out"]))
        r3["out"] = ""
    per_op = {}
    for e in edges:
        per_op[e["l"]["op"]] = per_op.get(e["l"]["op"], 0) + 1
    ctx.notes["s2c_transitions_per_action"] = per_op
    ctx.notes["actions_never_enumerated"] = sorted(set(ALL_OPS) - set(per_op))
    per_type, taken = edge_scripts(edges, feats, rnd, limit=40000 if q else None)
    nev = sum(len(v) for v in per_type.values())
    ctx.log("S->C: %d L1 transitions enumerated by TLC, %d replayed (%d script events)" % (len(edges), taken, nev))
    ctx.notes["s2c_transitions_enumerated"] = len(edges)
    ctx.notes["s2c_transitions_replayed"] = taken
    for key, lines in sorted(per_type.items()):
        for i, ch in enumerate(chunk_by_reset(lines, 3 if q else 6)):
            scripts.append(("s2c-%s-%02d" % (key, i), key, ch))

    # ---- 2b. TLC simulation walks (longer histories on both objects)
    simdir = ctx.sub("sim")
    nsim = 200 if q else 2000
    core.tlc(ctx, "ParSeqMC", "ParSeq_sim.cfg", name="s2c-simulate",
             simulate="file=%s/t,num=%d" % (simdir, nsim), extra=["-depth", "30", "-seed", str(ctx.seed)], workers=4)
    per_type, nwalks = sim_scripts(simdir, feats)
    ctx.notes["s2c_simulation_walks"] = nwalks
    for key, lines in sorted(per_type.items()):
        scripts.append(("sim-%s" % key, key, lines))

    # ---- 3. C->S random scripts for every instantiation, sizes up to 200
    for key in TYPES:
        nexec, nops = (40, 40) if q else (400, 50)
        lines = random_script(ctx.seed, key, feats, nexec, nops, big_share=0.3 if TYPES[key][1] == "vector" else 1.0)
        for i, ch in enumerate(chunk_by_reset(lines, 1 if q else 4)):
            scripts.append(("rnd-%s-%d" % (key, i), key, ch))

    # ---- the property demands forward iterators for every flavour: ask each array build
    for key in ("oa3", "ca3"):
        scripts.append(("feature-%s" % key, key, [reset_event(feats, key), {"op": "Feature", "k": 1, "a": {"name": "fwd_iter"}}]))

    # ---- probes for open known findings
    for fnd in findings:
        if "probe" in fnd:
            key = fnd["probe"]["type"]
            lines = [reset_event(feats, key)] + [l for l in fnd["probe"]["script"] if l["op"] != "Reset"]
            scripts.append(("probe-" + fnd["id"], key, lines))

    # ---- run the harness
    tdir = ctx.sub("traces")

    def one(item):
        name, key, lines = item
        sp = os.path.join(tdir, name + ".script")
        tp = os.path.join(tdir, name + ".ndjson")
        write_script(sp, lines)
        run_script(ctx, drv, key, sp, tp)
        return tp
    with ThreadPoolExecutor(max_workers=max(2, core.NCPU // 2)) as ex:
        traces = list(ex.map(one, scripts))
    for name, key, lines in scripts:
        ctx.cov["traces_validated_against_impl"] += sum(1 for l in lines if l["op"] == "Reset")
    ctx.sample({"script": [json.dumps(x) for x in scripts[0][2][:12]]})
    rs = [s for s in scripts if s[0].startswith("rnd-")]
    if rs:
        ctx.sample({"script": [json.dumps(x) for x in rs[0][2][:8]]})

    # ---- validate every trace against L1
    core.validate_traces(ctx, "ParSeqTrace", "ParSeqTrace.cfg", traces, classify=classify(findings))
    dedupe_violations(ctx)
    ctx.cov["evaluations"] = ctx.cov["events_validated"]
    ctx.log("validated %d events in %d traces (%d executions)" % (ctx.cov["events_validated"], len(traces), ctx.cov["traces_validated_against_impl"]))

    return core.finish(
        ctx, "model_checking",
        rule="TLC: L1 (one sequence of pairs, two objects, every operation) exhaustive for two objects of sizes <= 2%s with its laws; every L1 "
             "transition for sizes 0..%d x components {0,1} x all access paths and iterator navigations on the vector flavours, "
             "extent 3 on the array flavours, replayed on the real objects%s; TLC simulation walks; seeded random scripts on six "
             "instantiations with sizes up to 200 and extents 3/66/70.  A case is one call whose result and full projection "
             "(size(), both storage sizes, elements from the underlying containers, operator[], forward and reverse iteration, "
             "==, !=) are compared by TLC." % ("" if q else " and one object of sizes <= 4", 3 if q else 4, " (sampled to 40 000, a different sample for every VERIF_SEED)" if q else ""),
        assumptions=["objects are constructed by placement-new over memory pre-filled with 0xAA (harness built with -fno-lifetime-dse)",
                     "moved-from objects are destroyed and re-created at once; max_size(), allocators and the relational operators "
                     "of xoptional_sequence (<, <=, >, >=) are not modelled",
                     "constructors taking a size are only called with the container's own size for the array flavours"],
        exhaustive=False)

"""C11 - optional/complex vectors and arrays keep their two parallel storages in lockstep.

 0. Signature table (harness/parseq/sigprobe.cpp): every access path yields the same proxy type, the proxy's components
    are references into the two underlying containers, the containers are reachable - as static_asserts; a failing row is
    a violation.  If the conformance driver then does not build, call probes (harness/parseq/callprobe.cpp) tell a call
    the property names that no longer compiles (violation) from a harness that needs maintenance (machinery error).
 1. TLC: ParSeq.tla (L1: a container is ONE sequence of pairs; the two storages are projections)
    with its own laws, two objects, every operation (exhaustive in small bounds).
 1b. TLC: ParSeqImpl.tla (L2: two separately sized storages, transcribed from the headers) keeps them in lockstep and
    refines L1.
 2. S->C: TLC enumerates every (state, operation, argument) transition of L1 for sizes 0..3 (0..4 in
    the thorough tier) on the four container families (and the extent-0 arrays); a sample stratified over container
    type x action x argument class (thorough: all of them) is replayed on the real xoptional_vector<int>,
    xoptional_array<int,3>, xcomplex_vector<double>, xcomplex_array<double,3> and, a smaller sample, on
    xoptional_vector<double>, optional containers with std::vector<bool> / std::array<bool,3> flags, ieee_compliant
    complex containers; TLC simulation walks add longer two-object histories.
 3. C->S: seeded random scripts on thirteen instantiations, sizes up to 200 (the flag storage is an
    xdynamic_bitset<size_t>: 64-bit block boundary at 64/128), extents 0, 3, 66, 70 for the arrays, on several builds
    of the driver (g++ -O1 ASan; g++ -O2 -DNDEBUG; thorough: clang++ ASan, g++ -O0).
 Every recorded step (result + size(), value().size(), has_value().size(), elements read from the
 underlying containers, through operator[] and by forward/reverse iteration, ==/!=) is validated by
 TLC against ParSeqTrace.tla (L1 is the oracle).  A driver that crashes, trips a sanitizer or exceeds its per-call CPU
 limit closes the trace with a Crash event (rejected by the spec) and is restarted at the next execution of the script.
"""
import json, os, random, re, subprocess, threading
from concurrent.futures import ThreadPoolExecutor
from vlib import core, tlaval, drvrun
from vlib.core import MachineryError

PID = "C11"
# development aid (mutation experiments): VERIF_DEV_FAST=1 skips the stages that do not depend on the include tree under
# test (TLC on L1/L2) and caches TLC's enumeration of the L1 transitions; never set by the registered commands
FAST = bool(os.environ.get("VERIF_DEV_FAST"))
# development aid: VERIF_DEV_STAGES=rnd runs only the primary driver build with the seeded random scripts, the upstream
# sequences and the probes (a subset of the check: what it rejects, the whole check rejects)
ONLY_RND = os.environ.get("VERIF_DEV_STAGES") == "rnd"
HDIR = os.path.join(core.HARNESS, "parseq")
# type key -> (flavour, container, extent, driver group, the key whose TLC configuration it shares)
TYPES = {"ov": ("optional", "vector", 0, 1, "ov"), "oa3": ("optional", "array", 3, 1, "oa3"), "oa70": ("optional", "array", 70, 1, None),
         "cv": ("complex", "vector", 0, 1, "cv"), "ca3": ("complex", "array", 3, 1, "ca3"), "ca66": ("complex", "array", 66, 1, None),
         "ovd": ("optional", "vector", 0, 2, "ov"), "ovb": ("optional", "vector", 0, 2, "ov"), "ovn": ("optional", "vector", 0, 2, "ov"), "oab3": ("optional", "array", 3, 2, "oa3"),
         "oa0": ("optional", "array", 0, 2, "oa0"), "ca0": ("complex", "array", 0, 2, "ca0"),
         "cvi": ("complex", "vector", 0, 2, "cv"), "cai3": ("complex", "array", 3, 2, "ca3"),
         # round 3 (driver group 3): other flag containers, another element type
         "ovw": ("optional", "vector", 0, 3, "ov"), "ovq": ("optional", "vector", 0, 3, "ov"), "ovc": ("optional", "vector", 0, 3, "ov"),
         "cvf": ("complex", "vector", 0, 3, "cv")}
WHAT = {"ov": "xoptional_vector<int>", "oa3": "xoptional_array<int,3>", "oa70": "xoptional_array<int,70>", "cv": "xcomplex_vector<double>",
        "ca3": "xcomplex_array<double,3>", "ca66": "xcomplex_array<double,66>", "ovd": "xoptional_vector<double>",
        "ovb": "xoptional_vector<int, std::allocator<int>, std::vector<bool>>", "oab3": "xoptional_array<int,3,std::array<bool,3>>",
        "ovn": "xoptional_vector<int, std::allocator<int>, xdynamic_bitset<uint8_t>> (narrow flag blocks)",
        "ovw": "xoptional_vector<int, std::allocator<int>, xdynamic_bitset<uint16_t>>", "ovq": "xoptional_vector<int, std::allocator<int>, xdynamic_bitset<uint32_t>>",
        "ovc": "xoptional_vector<int, std::allocator<int>, std::vector<char>>", "cvf": "xcomplex_vector<float>",
        "oa0": "xoptional_array<int,0>", "ca0": "xcomplex_array<double,0>", "cvi": "xcomplex_vector<double,true>", "cai3": "xcomplex_array<double,3,true>"}
PRIMARY = {(v[0], v[1], v[2]): k for k, v in TYPES.items() if v[4] == k}          # TLC configuration -> the type it is replayed on first
ALIASES = {}                                                                    # primary key -> other types of the same configuration
for _k, _v in TYPES.items():
    if _v[4] and _v[4] != _k:
        ALIASES.setdefault(_v[4], []).append(_k)
ITER_PATHS = ("iter", "citer", "riter", "criter")
NAVS = ("plus", "minus", "inc", "dec", "sub", "arrow", "peq", "meq", "postinc")
READ_PATHS = ("index", "cindex", "at", "cat", "front", "cfront", "back", "cback") + ITER_PATHS
WRITE_PATHS = ("index", "at", "front", "back", "iter", "riter")
OBSERVERS = {"At", "Read", "Extract", "IterRel", "Feature", "MaxSize", "Rel"}         # (Algo writes)
ALL_OPS = ["CtorDefault", "CtorN", "CtorNV", "CtorNO", "CtorIL", "CtorCopy", "CopyAssign", "CtorMove", "MoveAssign",
           "Resize", "ResizeV", "ResizeO", "At", "Read", "Write", "WriteUnder", "Extract", "IterRel", "ProxySwap", "MaxSize", "Rel", "Algo",
           # round 4: arguments that are element proxies (aliasing the container under modification), cross-container assignment
           "ResizeFrom", "CtorFrom", "XAssign", "XCopy"]
XOPS = ("XAssign", "XCopy")
XPADS = [0, 0, 0, 1, 7, 8, 9, 63, 64, 65, 130]
# standard algorithms over the iterators: which compile-probe bit each needs (harness/parseq/probe_algo.cpp)
ALGO_BIT = {"copy": 1, "copybwd": 8, "reverse": 2, "rotate": 2, "sort": 4}
ALGO_WHAT = {1: "std::copy from const iterators (proxy = const proxy)", 8: "std::copy_backward (proxy = proxy of the same type)",
             2: "std::reverse / std::rotate (swap of two proxies)", 4: "std::sort (proxy moved into a value_type temporary and back)"}
MOVES = {"CtorMove", "MoveAssign"}
BIG_SIZES = [0, 1, 2, 3, 5, 8, 63, 64, 65, 66, 127, 128, 129, 200]
SMALL_SIZES = [0, 1, 2, 3, 4, 5, 8]
SIG_ROWS = 22
CALL_PROBES = [
    (1, True, "optional containers: default, (n, value), (n, optional) constructors"),
    (2, True, "complex containers: default, (n), (n, value), (n, xcomplex), initializer-list constructors"),
    (3, True, "copy construction / copy assignment"),
    (4, True, "resize(n), resize(n, value), resize(n, optional / xcomplex)"),
    (5, True, "at, operator[], front, back, const and non-const"),
    (6, True, "forward and const iterators (begin/end/cbegin/cend, ++, --, +=, -=, +, [], ->, ==, -)"),
    (7, True, "reverse iterators"),
    (8, True, "writes through optional proxies (value(), has_value(), = scalar, = xoptional)"),
    (9, True, "writes through complex proxies (real(), imag(), = scalar)"),
    (10, True, "value() / has_value() / real() / imag() on lvalue, const and rvalue containers"),
    (11, True, "== and !="),
    (12, True, "complex proxy = xcomplex<T>"),
    (13, False, "move construction / move assignment"),
    (14, False, "compound assignment through proxies, proxy swap, <,<=,>,>=, max_size"),
    (15, False, "other instantiations (double values, std::vector<bool>/std::array<bool> flags, extent 0, ieee_compliant)"),
]
GROUPS = (1, 2, 3)
FLAVOURS = {"asan": (None, [], True), "o2ndebug": (None, ["-O2", "-DNDEBUG"], False), "clang": ("clang++", [], True), "o0": (None, ["-O0"], False)}
# instantiations whose moved-from objects are known not to be valid containers on the current tree (proposed_fixes/C11-06,
# outside the property's operations): a failing probe is a NOTE for these and a violation for every other instantiation
MOVED_FROM_INVALID_OK = set()   # fix be9fbb5: moving an xoptional_array copies it
MAX_DRIVER_RESTARTS = 40
MAX_REPORTED = 12


# ------------------------------------------------------------------ build + features
def probe_features(ctx):
    """Which optional parts of the interface can be instantiated with the headers under test?
    (tiny programs compiled with the same compiler; the result only selects what the driver compiles
    and what the generators may use - whether a missing feature matters is decided by the spec)"""
    names = {"oaf": "probe_opt_array_iter.cpp", "caf": "probe_cplx_array_iter.cpp", "cas": "probe_cplx_assign.cpp"}

    def one(item):
        k, src = item
        rc, out = core.try_build(ctx, os.path.join(HDIR, src), os.path.join(ctx.work, "probe_" + k))
        return k, rc == 0, out
    feats = {}
    with ThreadPoolExecutor(max_workers=3) as ex:
        for k, ok, out in ex.map(one, names.items()):
            feats[k] = ok
            if not ok:
                with open(os.path.join(ctx.work, "probe_%s.log" % k), "w") as f:
                    f.write(out)

    # which standard algorithms accept the iterators of each flavour (bit masks, see ALGO_BIT)
    def algo(item):
        flav, bit = item
        rc, out = compile_probe(os.path.join(HDIR, "probe_algo.cpp"), "FLAV=%d" % flav, extra=["-DALG=%d" % bit])
        return flav, bit, rc == 0
    masks = {1: 0, 2: 0}
    with ThreadPoolExecutor(max_workers=4) as ex:
        for flav, bit, ok in ex.map(algo, [(f, b) for f in (1, 2) for b in (1, 8, 2, 4)]):
            if ok:
                masks[flav] |= bit
    feats["algo_opt"], feats["algo_cplx"] = masks[1], masks[2]

    # is `proxy = proxy of the sibling container type` (XAssign / XCopy) well-formed?
    def xas(flav):
        rc, out = compile_probe(os.path.join(HDIR, "probe_xassign.cpp"), "FLAV=%d" % flav)
        return flav, rc == 0
    with ThreadPoolExecutor(max_workers=2) as ex:
        for flav, ok in ex.map(xas, (1, 2)):
            feats["xas_opt" if flav == 1 else "xas_cplx"] = int(ok)
    return feats


def algo_mask(feats, key):
    return feats["algo_opt"] if TYPES[key][0] == "optional" else feats["algo_cplx"]


def xassign_ok(feats, key):
    return bool(feats.get("xas_opt") if TYPES[key][0] == "optional" else feats.get("xas_cplx"))


def type_flags(feats, key):
    """(fwd, cas) of a type: what its Reset event announces and the driver was built with."""
    fl, ct = TYPES[key][0], TYPES[key][1]
    fwd = 1 if ct == "vector" else int(feats["oaf"] if fl == "optional" else feats["caf"])
    cas = 1 if fl == "optional" else int(feats["cas"])
    return fwd, cas


def build_driver(ctx, feats, flavour="asan", group=1):
    cxx, fflags, asan = FLAVOURS[flavour]
    # -fno-lifetime-dse: keep the 0xAA pre-fill of the raw storage visible to the constructors (a g++ option; clang has no
    # such pass and does not know the flag)
    flags = (["-fno-lifetime-dse"] if cxx in (None, "g++") else []) + ["-DPARSEQ_GROUP=%d" % group] + list(fflags)
    if feats["oaf"]:
        flags.append("-DPARSEQ_OPT_ARRAY_FWD_ITER")
    if feats["caf"]:
        flags.append("-DPARSEQ_CPLX_ARRAY_FWD_ITER")
    if feats["cas"]:
        flags.append("-DPARSEQ_CPLX_ASSIGN")
    flags += ["-DPARSEQ_ALGO_OPT=%d" % feats.get("algo_opt", 0), "-DPARSEQ_ALGO_CPLX=%d" % feats.get("algo_cplx", 0)]
    flags += ["-DPARSEQ_XASSIGN_OPT=%d" % feats.get("xas_opt", 0), "-DPARSEQ_XASSIGN_CPLX=%d" % (feats.get("xas_cplx", 0) if feats["cas"] else 0)]
    drv = os.path.join(ctx.work, "parseq_driver_%s_g%d" % (flavour, group))
    core.build(ctx, os.path.join(HDIR, "driver.cpp"), drv, flags=flags, asan=asan, cxx=cxx)
    return drv


def reset_event(feats, key, build="asan"):
    fl, ct, n = TYPES[key][:3]
    fwd, cas = type_flags(feats, key)
    return {"op": "Reset", "k": 1, "a": {"fl": fl, "ct": ct, "n": n, "fwd": fwd, "cas": cas, "ty": key, "build": build}}


def supported(feats, key, ev):
    """May this call be issued to a driver built with `feats`?"""
    fwd, cas = type_flags(feats, key)
    a = ev.get("a", {})
    if not fwd and a.get("path") in ("iter", "citer"):
        return False
    if not cas and ev["op"] == "Write" and a.get("wk") in ("pair", "from", "addpair"):
        return False
    if ev["op"] == "Algo" and not (fwd and cas and (algo_mask(feats, key) & ALGO_BIT[a["alg"]])):
        return False
    if not fwd and a.get("spath") in ("iter", "citer"):
        return False
    if ev["op"] in XOPS and not (cas and xassign_ok(feats, key) and (fwd or ev["op"] != "XCopy")):
        return False
    return True


# ------------------------------------------------------------------ random scripts (C->S)
class Gen:
    """Random script generator.  Tracks only the two sizes (to stay inside the C++ preconditions:
    index < size, front/back on non-empty, constructor size == extent for arrays); predicts nothing."""

    def __init__(self, rnd, key, feats, big, caps):
        self.r, self.key = rnd, key
        self.fl, self.ct, self.n = TYPES[key][:3]
        self.fwd, self.cas = type_flags(feats, key)
        self.vec = self.ct == "vector"
        n0 = 0 if self.vec else self.n
        self.size = [n0, n0]
        self.sizes = BIG_SIZES if big else SMALL_SIZES
        self.moved_ok = bool(caps.get("movedfrom", {}).get(key))
        self.nmul = 0
        m = algo_mask(feats, key) if (self.fwd and self.cas) else 0
        self.algs = [a for a, b in sorted(ALGO_BIT.items()) if m & b]
        self.xas = bool(self.cas and xassign_ok(feats, key))

    def val(self):
        r = self.r
        t = r.random()
        if t < 0.2:
            return 0
        if t < 0.85:
            return r.randint(-9, 9)
        return r.choice([-1000000, 999999, 32767, -32768, 255, 65536, 123456])

    def small(self):
        return self.r.randint(-9, 9)

    def elem(self):
        if self.fl == "optional":
            return [self.val(), self.r.randrange(2)]
        return [self.val(), self.val()]

    def conv_elem(self):
        """for closure kind 'conv' (short / float): exactly representable components"""
        if self.fl == "optional":
            return [self.small() * 100, self.r.randrange(2)]
        return [self.small() * 100, self.small()]

    def value_arg(self):
        if self.fl == "optional":
            return [self.val(), 1]
        return [self.val(), self.val()]

    def pick_size(self, k):
        if not self.vec:
            return self.n
        r = self.r
        t = r.random()
        if t < 0.55:
            return r.choice(self.sizes)
        if t < 0.8 and self.size[k] is not None:
            return max(0, self.size[k] + r.choice([-2, -1, 1, 1, 2]))
        return r.randrange(0, max(self.sizes) + 1)

    def ev(me, op, k, **a):
        return {"op": op, "k": k + 1, "a": a or {"z": 0}}

    def path_nav(self, paths, n):
        r = self.r
        ps = [p for p in paths if self.fwd or p not in ("iter", "citer")]
        path = r.choice(ps)
        i = 0 if "front" in path else n - 1 if "back" in path else r.choice([0, n - 1, r.randrange(n), min(n - 1, 63), min(n - 1, 64)])
        nav = "na"
        if path in ITER_PATHS:
            nav = r.choice(NAVS)
            if n > 24 and nav in ("inc", "dec", "postinc") and r.random() < 0.7:
                nav = r.choice(("plus", "minus", "sub", "arrow", "peq", "meq"))
        return path, nav, i

    def step(self):
        r = self.r
        for _ in range(60):
            k = r.randrange(2)
            o = 1 - k
            n = self.size[k]
            c = r.random()
            if c < 0.12:     # construction
                t = r.randrange(8)
                if t == 0:
                    self.size[k] = 0 if self.vec else self.n
                    return self.ev("CtorDefault", k, how=r.choice(["dinit", "vinit"]))
                if t == 1 and self.fl == "complex":
                    m = self.pick_size(k); self.size[k] = m
                    return self.ev("CtorN", k, n=m)
                if t == 2:
                    m = self.pick_size(k); self.size[k] = m
                    return self.ev("CtorNV", k, n=m, v=self.value_arg())
                if t == 3:
                    m = self.pick_size(k); self.size[k] = m
                    ck = r.choice(["val", "ref", "conv"])
                    return self.ev("CtorNO", k, n=m, e=self.conv_elem() if ck == "conv" else self.elem(), ck=ck)
                if t == 4 and self.fl == "complex" and self.vec:
                    m = r.randrange(0, 9); self.size[k] = m
                    return self.ev("CtorIL", k, es=[self.elem() for _ in range(m)])
                if t == 5:
                    self.size[k] = self.size[o]
                    return self.ev(r.choice(["CtorCopy", "CopyAssign"]), k)
                if t == 6 and r.random() < 0.6:
                    # the moved-from object is observed (re = 0) where this tree keeps it a valid container
                    re_ = 0 if (self.moved_ok and r.random() < 0.7) else 1
                    self.size[k] = self.size[o]
                    self.size[o] = (0 if self.vec else self.n) if re_ else None
                    return self.ev(r.choice(["CtorMove", "MoveAssign"]), k, re=re_)
                continue
            if c < 0.30 and self.vec:
                t = r.randrange(3)
                m = self.pick_size(k); self.size[k] = m
                if t == 0:
                    return self.ev("Resize", k, n=m)
                if t == 1:
                    return self.ev("ResizeV", k, n=m, v=self.value_arg())
                ck = r.choice(["val", "ref", "conv"])
                return self.ev("ResizeO", k, n=m, e=self.conv_elem() if ck == "conv" else self.elem(), ck=ck)
            if 0.30 <= c < 0.33 and self.vec:
                # resize(m, <element proxy>): of the vector itself (aliasing) or of the other object
                s = k if r.random() < 0.7 else o
                if self.size[s] > 0:
                    path, nav, j = self.path_nav(READ_PATHS, self.size[s])
                    m = self.pick_size(k); self.size[k] = m
                    return self.ev("ResizeFrom", k, n=m, s=s + 1, path=path, nav=nav, j=j)
                continue
            if 0.33 <= c < 0.34:
                if self.size[o] > 0:
                    path, nav, j = self.path_nav(READ_PATHS, self.size[o])
                    m = self.pick_size(k); self.size[k] = m
                    return self.ev("CtorFrom", k, n=m, path=path, nav=nav, j=j)
                continue
            if 0.34 <= c < 0.38 and self.xas:
                no = self.size[o]
                pad = r.choice(XPADS) if self.vec else 0
                if r.random() < 0.6:
                    if n > 0 and no > 0:
                        path, nav, i = self.path_nav(WRITE_PATHS, n)
                        ps = [p for p in READ_PATHS if (self.fwd or p not in ("iter", "citer")) and not (pad and "front" in p)]
                        spath = r.choice(ps)
                        j = 0 if "front" in spath else no - 1 if "back" in spath else r.choice([0, no - 1, r.randrange(no), min(no - 1, 63), min(no - 1, 64)])
                        snav = r.choice(NAVS) if spath in ITER_PATHS else "na"
                        if pad + no > 24 and snav in ("inc", "dec", "postinc"):
                            snav = r.choice(("plus", "minus", "sub", "arrow", "peq", "meq"))
                        return self.ev("XAssign", k, path=path, nav=nav, i=i, pad=pad, spath=spath, snav=snav, j=j, mv=r.randrange(2))
                elif self.fwd:
                    pos = lambda hi: r.choice([0, hi, r.randrange(hi + 1), min(hi, 63), min(hi, 64), min(hi, 65), max(hi - 1, 0)])
                    i, j = sorted([pos(no), pos(no)])
                    if j - i > n:
                        j = i + n
                    return self.ev("XCopy", k, pad=pad, i=i, j=j, m=r.choice([0, n - (j - i), r.randrange(n - (j - i) + 1)]), dir=r.choice(["fwd", "rev"]))
                continue
            if c < 0.43:
                i = r.choice([0, max(n - 1, 0), n, n + 1, r.randrange(0, n + 2), 64, 63])
                h = 1 if r.random() < 0.15 else 0
                return self.ev("At", k, c=r.choice(["m", "c"]), i=r.randrange(0, 3) if h else i, h=h)
            if c < 0.50 and n > 0:
                path, nav, i = self.path_nav(READ_PATHS, n)
                return self.ev("Read", k, path=path, nav=nav, i=i)
            if c < 0.82 and n > 0:
                path, nav, i = self.path_nav(WRITE_PATHS, n)
                kinds = ["a", "b", "scalar", "addeq"] + (["pair", "pair", "from", "addpair"] if self.cas else [])
                if self.nmul < 8:
                    kinds.append("muleq")
                wk = r.choice(kinds)
                e = [0, 0] if wk == "from" else self.elem()
                if wk in ("addeq", "addpair"):
                    e = [self.small(), e[1] if self.fl == "optional" else self.small()]       # small steps: no overflow in 50 calls
                if wk == "muleq":
                    self.nmul += 1
                    e = [r.choice([-1, 0, 1, 1, 2]), 0]           # at most 8 doublings per execution
                j = r.randrange(n) if wk == "from" else 0
                return self.ev("Write", k, path=path, nav=nav, i=i, wk=wk, e=e, j=j)
            if c < 0.90 and n > 0:
                which = r.choice(["a", "b"])
                x = r.randrange(2) if (which == "b" and self.fl == "optional") else self.val()
                return self.ev("WriteUnder", k, which=which, i=r.choice([0, n - 1, r.randrange(n)]), x=x)
            if c < 0.915:
                return self.ev("Extract", k, which=r.choice(["a", "b"]))
            if c < 0.93:
                if not self.algs:
                    return self.ev("Extract", k, which=r.choice(["a", "b"]))
                alg = r.choice(self.algs)
                no = self.size[o]
                pos = lambda hi: r.choice([0, hi, r.randrange(hi + 1), min(hi, 63), min(hi, 64), min(hi, 65), max(hi - 1, 0)])
                if alg == "copy":
                    i, j = sorted([pos(no), pos(no)])
                    if j - i > n:
                        j = i + n
                    return self.ev("Algo", k, alg=alg, i=i, m=r.choice([0, n - (j - i), r.randrange(n - (j - i) + 1)]), j=j)
                if alg == "copybwd":
                    i, j = sorted([pos(n), pos(n)])
                    return self.ev("Algo", k, alg=alg, i=i, m=r.choice([0, 1, n - j, r.randrange(n - j + 1)]) if n - j > 0 else 0, j=j)
                if alg == "rotate":
                    i, m, j = sorted([pos(n), pos(n), pos(n)])
                    return self.ev("Algo", k, alg=alg, i=i, m=m, j=j)
                i, j = sorted([pos(n), pos(n)])
                return self.ev("Algo", k, alg=alg, i=i, m=0, j=j)
            if c < 0.95:
                if self.fl == "optional" and r.random() < 0.6:
                    return self.ev("Rel", k)
                return self.ev("MaxSize", k)
            if c < 0.97 and n > 1 and self.fl == "optional":
                i = r.choice([0, n - 1, r.randrange(n), min(n - 1, 63)])
                j = r.choice([x for x in (0, n - 1, r.randrange(n), min(n - 1, 64)) if x != i] or [(i + 1) % n])
                return self.ev("ProxySwap", k, i=i, j=j)
            if c < 1.0:
                paths = [p for p in ITER_PATHS if self.fwd or p not in ("iter", "citer")]
                return self.ev("IterRel", k, path=r.choice(paths), i=r.choice([0, n, r.randrange(n + 1)]), j=r.choice([0, n, r.randrange(n + 1)]))
        return self.ev("Extract", 0, which="a")

    def next(self):
        """After a move whose source is observed the generator does not know the source's size: it is given one by a
        call that sets the size whatever the object held (arrays keep their extent: nothing to do)."""
        if None in self.size:
            k = self.size.index(None)
            if not self.vec:
                self.size[k] = self.n
                return self.ev("Extract", k, which=self.r.choice(["a", "b"]))
            r = self.r
            t = r.randrange(4)
            if t == 0:
                self.size[k] = self.size[1 - k]
                return self.ev("CopyAssign", k)
            m = self.pick_size(k)
            self.size[k] = m
            if t == 1:
                return self.ev("Resize", k, n=m)
            if t == 2:
                return self.ev("ResizeV", k, n=m, v=self.value_arg())
            return self.ev("CtorNV", k, n=m, v=self.value_arg())
        return self.step()


def random_script(seed, key, feats, nexec, nops, big_share, caps, build="asan"):
    rnd = random.Random("%d/%s/%s" % (seed, key, build))
    lines = []
    for _ in range(nexec):
        g = Gen(rnd, key, feats, big=rnd.random() < big_share, caps=caps)
        lines.append(reset_event(feats, key, build))
        for _ in range(nops):
            lines.append(g.next())
    return lines


# ------------------------------------------------------------------ TLC -> scripts (S->C)
def emitted(out):
    res = []
    for line in out.splitlines():
        if line.startswith('"@E@'):
            res.append(json.loads(json.loads(line)[3:]))
    return res


def enumerate_edges(ctx, cfg):
    """TLC's enumeration of the L1 transitions of one configuration (tree-independent: cached under VERIF_DEV_FAST)."""
    cache = None
    if FAST:
        stamp = max(os.path.getmtime(os.path.join(core.SPECS, f)) for f in ("ParSeq.tla", "ParSeqMC.tla", cfg))
        cdir = os.path.join(core.ROOT, ".work", "C11-cache")
        os.makedirs(cdir, exist_ok=True)
        cache = os.path.join(cdir, "%s.%d.json" % (cfg, int(stamp)))
        if os.path.exists(cache):
            with open(cache) as f:
                return json.load(f)
    r3 = core.tlc(ctx, "ParSeqMC", cfg, name="s2c-enumerate-" + cfg[:-4], heap="8g", timeout=2400)
    if r3["violated"]:
        raise MachineryError("s2c enumeration failed: %s" % r3["outfile"])
    es = emitted(r3["out"])
    r3["out"] = ""
    if cache:
        with open(cache, "w") as f:
            json.dump(es, f)
    return es


def key_of_cfg(c):
    return PRIMARY[(c["fl"], c["ct"], c["n"])]


def setup_events(key, feats, k, seq, rnd):
    """Events that put real object k (0-based) into the abstract state `seq` (list of pairs),
    by a randomly chosen constructor followed by element writes."""
    fl, ct, n = TYPES[key][:3]
    fwd, cas = type_flags(feats, key)
    evs = []
    m = len(seq)
    K = k + 1
    cur = None
    t = rnd.random()
    if fl == "complex" and ct == "vector" and m <= 8 and t < 0.35:
        evs.append({"op": "CtorIL", "k": K, "a": {"es": seq}})
        return evs
    if t < 0.55 or m == 0:
        evs.append({"op": "CtorDefault", "k": K, "a": {"how": rnd.choice(["dinit", "vinit"])}})
        if ct == "vector" and m > 0:
            evs.append({"op": "Resize", "k": K, "a": {"n": m}})
        cur = [[0, 0]] * m
    elif t < 0.8:
        e = seq[rnd.randrange(m)]
        v = [e[0], 1] if fl == "optional" else e
        evs.append({"op": "CtorNV", "k": K, "a": {"n": m, "v": v}})
        cur = [v] * m
    else:
        e = seq[rnd.randrange(m)]
        evs.append({"op": "CtorNO", "k": K, "a": {"n": m, "e": e, "ck": rnd.choice(["val", "ref", "conv"])}})
        cur = [e] * m
    for i in range(m):
        if cur[i] == seq[i]:
            continue
        paths = [p for p in WRITE_PATHS if (fwd or p != "iter") and ("front" != p or i == 0) and ("back" != p or i == m - 1)]
        path = rnd.choice(paths)
        nav = rnd.choice(NAVS) if path in ITER_PATHS else "na"
        if cas and rnd.random() < 0.7:
            evs.append({"op": "Write", "k": K, "a": {"path": path, "nav": nav, "i": i, "wk": "pair", "e": seq[i], "j": 0}})
        else:
            if cur[i][0] != seq[i][0]:
                evs.append({"op": "Write", "k": K, "a": {"path": path, "nav": nav, "i": i, "wk": "a", "e": [seq[i][0], 0], "j": 0}})
            if cur[i][1] != seq[i][1]:
                evs.append({"op": "WriteUnder", "k": K, "a": {"which": "b", "i": i, "x": seq[i][1]}})
    return evs


def edge_scripts(edges, feats, rnd, as_key=None):
    """One execution per (type, source state): Reset, setup, then every chosen transition out of that state;
    after a call that changed an object its source state is re-established by constructors/writes.
    as_key: replay the edges of configuration X on another type of the same configuration."""
    by_src = {}
    for e in edges:
        key = as_key or key_of_cfg(e["c"])
        if not supported(feats, key, e["l"]):
            continue
        by_src.setdefault((key, json.dumps(e["p"])), []).append(e["l"])
    out, taken = {}, 0
    for (key, pj) in sorted(by_src):
        st = json.loads(pj)
        calls = by_src[(key, pj)]
        calls.sort(key=lambda c: c["op"] not in OBSERVERS)      # observers first: no re-setup needed
        lines = out.setdefault(key, [])
        lines.append(reset_event(feats, key))
        for k in (0, 1):
            lines.extend(setup_events(key, feats, k, st[k], rnd))
        dirty, prev = (), None
        for c in calls:
            if prev is not None and prev["op"] in ("Write", "WriteUnder"):
                # only element i of object k was touched: put the old pair back
                k, i = prev["k"] - 1, prev["a"]["i"]
                old = st[k][i]
                if type_flags(feats, key)[1]:
                    lines.append({"op": "Write", "k": k + 1, "a": {"path": "index", "nav": "na", "i": i, "wk": "pair", "e": old, "j": 0}})
                else:
                    lines.append({"op": "WriteUnder", "k": k + 1, "a": {"which": "a", "i": i, "x": old[0]}})
                    lines.append({"op": "WriteUnder", "k": k + 1, "a": {"which": "b", "i": i, "x": old[1]}})
            else:
                for k in dirty:
                    lines.extend(setup_events(key, feats, k, st[k], rnd))
            lines.append(c)
            taken += 1
            prev = c
            dirty = () if c["op"] in OBSERVERS else (0, 1) if c["op"] in MOVES else (c["k"] - 1,)
    return out, taken


def sim_scripts(simdir, feats, caps):
    out, n = {}, 0
    for fn in sorted(os.listdir(simdir)):
        states = tlaval.parse_sim_trace(os.path.join(simdir, fn))
        if len(states) < 2:
            continue
        key = key_of_cfg(states[0]["cfg"])
        lines = out.setdefault(key, [])
        lines.append(reset_event(feats, key))
        for s in states[1:]:
            last = s["last"]
            ev = {"op": last["op"], "k": last["k"], "a": last["a"]}
            if ev["op"] == "Feature":        # asked once per array type, in its own script
                continue
            if not supported(feats, key, ev):
                break
            if ev["op"] in MOVES and ev["a"].get("re") == 0:
                # what the moved-from object holds is up to the implementation: the rest of the walk (which assumed one
                # particular outcome) cannot be followed; the move itself is replayed where moved-from objects are observable
                if caps["movedfrom"].get(key):
                    lines.append(ev)
                break
            lines.append(ev)
        n += 1
    return out, n


def upstream_scripts(feats):
    """The call sequences of /repo/test/test_xcomplex_sequence.cpp and of the xoptional_vector cases of test_xoptional.cpp,
    re-run through the logging harness: the same calls, every observer compared after every call."""
    out = []
    L = [reset_event(feats, "cv")]
    E = lambda op, k=1, **a: L.append({"op": op, "k": k, "a": a or {"z": 0}})
    E("CtorDefault", how="vinit"); E("CtorN", n=10); E("CtorNV", n=10, v=[1, 1])
    E("CtorN", n=2); E("Resize", n=4); E("ResizeV", n=8, v=[1, 1])
    E("CtorIL", es=[[1, 2], [2, 3]])
    for i in (0, 1):
        E("Read", path="index", nav="na", i=i); E("Read", path="at", nav="na", i=i)
    E("Read", path="front", nav="na", i=0); E("Read", path="back", nav="na", i=1)
    E("CtorIL", es=[[1, 2], [2, 3], [4, 6], [8, 12]])
    for i in range(4):
        E("Read", path="iter", nav="inc", i=i); E("Read", path="citer", nav="inc", i=i)
    E("IterRel", path="iter", i=4, j=4); E("IterRel", path="citer", i=4, j=4)
    for i in (3, 2, 1, 0):
        E("Read", path="riter", nav="inc", i=i); E("Read", path="criter", nav="inc", i=i)
    E("IterRel", path="riter", i=4, j=4); E("IterRel", path="criter", i=4, j=4)
    E("Extract", which="a"); E("Extract", which="b")
    out.append(("upstream-cv", "cv", L))
    L = [reset_event(feats, "ovd")]
    E("CtorNV", n=3, v=[2, 1]); E("Read", path="front", nav="na", i=0); E("Read", path="index", nav="na", i=0)
    E("Write", path="index", nav="na", i=1, wk="pair", e=[0, 0], j=0); E("Read", path="index", nav="na", i=1); E("Extract", which="b")
    E("CtorNV", n=4, v=[2, 1]); E("Write", path="index", nav="na", i=0, wk="pair", e=[0, 0], j=0)
    for i in range(4):
        E("Read", path="citer", nav="arrow", i=i)
    E("CtorNV", 2, n=4, v=[1, 1]); E("Write", 2, path="index", nav="na", i=0, wk="pair", e=[0, 0], j=0)
    E("Rel", 1); E("Rel", 2)
    out.append(("upstream-ovd", "ovd", L))
    return out


write_script = drvrun.write_script


def chunk_by_reset(lines, nchunks):
    starts = [i for i, l in enumerate(lines) if l["op"] == "Reset"]
    if not starts:
        return [lines]
    per = max(1, (len(starts) + nchunks - 1) // nchunks)
    cuts = starts[::per]
    return [lines[a:b] for a, b in zip(cuts, cuts[1:] + [len(lines)])]


def run_script(ctx, drv, key, lines, trace_path, name="script"):
    """drv: {group: binary}.  A driver that dies has written a Crash event; drvrun records the call it died in and starts
    the driver again at the next Reset."""
    return drvrun.run_script(ctx, [drv[TYPES[key][3]], key], lines, trace_path, name, max_restarts=MAX_DRIVER_RESTARTS)


def classify(findings, ctx):
    def f(ev, execution):
        ctx.notes.setdefault("_sigs", {})[len(ctx.violations)] = drvrun.signature_of(ev)
        for k in findings:
            m = k.get("match", {})
            if m and all(ev.get(x) == y or ev.get("a", {}).get(x) == y for x, y in m.items()):
                return "%s (%s)" % (k["key"], k["what"])
        return None
    return f


def key_of_reset(rs):
    a = rs["a"]
    return a.get("ty") or PRIMARY.get((a["fl"], a["ct"], a["n"])) or next(k for k, v in TYPES.items() if v[:3] == (a["fl"], a["ct"], a["n"]))


def compile_probe(src, define, cxx=None, extra=()):
    cmd = [cxx or core.CXX, "-std=c++14", "-fsyntax-only", "-I", core.INCLUDE, "-I", os.path.join(core.HARNESS, "common"), "-D" + define] + list(extra) + [src]
    return core.sh(cmd, timeout=300)


def replay(ctx, path):
    """./verif replay C11 <file>: re-run the recorded calls on the current tree (same type, same driver build) and validate."""
    raw = core.read_ndjson(path)
    meta = next((l["_meta"] for l in raw if "_meta" in l and "kind" in l["_meta"]), {})
    if meta.get("kind") in ("signature", "callprobe"):
        rc, out = compile_probe(meta["src"], meta["define"])
        if rc == 0:
            print("replay accepted: %s compiles again" % meta.get("what", meta["src"]))
            return 0
        print("VIOLATION property=C11 replay=%s" % path)
        print("  " + out[-1500:])
        return 1
    lines = drvrun.replay_lines(raw)
    rs = next((l for l in lines if l["op"] == "Reset"), None)
    if rs is None:
        raise MachineryError("replay file has no Reset event: %s" % path)
    key = key_of_reset(rs)
    flavour = rs["a"].get("build", "asan")
    if flavour not in FLAVOURS:
        flavour = "asan"
    feats = probe_features(ctx)
    g = TYPES[key][3]
    drv = {g: build_driver(ctx, feats, flavour, g)}
    for l in lines:
        if l["op"] == "Reset":
            l["a"] = reset_event(feats, key, flavour)["a"]      # the features of the tree under test now
    tp = os.path.join(ctx.work, "replay.ndjson")
    run_script(ctx, drv, key, lines, tp, "replay")
    r = core.validate_trace(ctx, "ParSeqTrace", "ParSeqTrace.cfg", tp)
    if r["accepted"]:
        print("replay accepted: the recorded calls now conform to ParSeq.tla")
        return 0
    print("VIOLATION property=C11 replay=%s" % path)
    print("  rejected at event %d; spec expected: %s" % (r["fail_line"] + 1, r.get("expected")))
    return 1


def selftest(ctx):
    """./verif selftest C11: a recorded trace is accepted; the same trace with one corrupted field is rejected
    at exactly that event; with one event removed it is rejected at the first event that no longer fits."""
    feats = probe_features(ctx)
    drv = {1: build_driver(ctx, feats, "asan", 1)}
    caps = {"movedfrom": {}}
    ok = True
    for key in ("ov", "ca3"):
        lines = random_script(ctx.seed, key, feats, 1, 300, 0.0, caps)
        tp = os.path.join(ctx.work, "st-%s.ndjson" % key)
        run_script(ctx, drv, key, lines, tp, "selftest")
        r = core.validate_trace(ctx, "ParSeqTrace", "ParSeqTrace.cfg", tp, explain=False)
        print("selftest %s: recorded trace of %d events accepted: %s" % (key, r["total"], r["accepted"]))
        ok = ok and r["accepted"]
        rec = [json.loads(l) for l in open(tp) if l.strip()]
        k = 150
        for what in ("size", "elem", "res", "drop"):
            mod = json.loads(json.dumps(rec))
            expect = k
            if what == "size":
                mod[k]["st"]["o"][0]["nB"] += 1
            elif what == "elem":
                cand = [i for i in range(k, len(mod)) if mod[i]["st"]["o"][0]["B"] or mod[i]["st"]["o"][1]["B"]]
                expect = cand[0]
                o = mod[expect]["st"]["o"][0] if mod[expect]["st"]["o"][0]["B"] else mod[expect]["st"]["o"][1]
                o["B"][-1] += 1
            elif what == "res":
                cand = [i for i in range(k, len(mod)) if mod[i]["op"] == "Read"]
                expect = cand[0]
                mod[expect]["res"]["val"][1] += 1
            else:
                cand = [i for i in range(k, len(mod) - 1) if mod[i]["op"] in ("Write", "WriteUnder", "Resize", "ResizeV", "ResizeO") and mod[i]["st"] != mod[i - 1]["st"] and mod[i + 1]["op"] in OBSERVERS]
                expect = cand[0]
                del mod[expect]
            cp = os.path.join(ctx.work, "st-%s-%s.ndjson" % (key, what))
            write_script(cp, mod)
            rr = core.validate_trace(ctx, "ParSeqTrace", "ParSeqTrace.cfg", cp, explain=False)
            fl = rr.get("fail_line")
            good = (not rr["accepted"]) and (fl == expect if what != "drop" else fl is not None and fl >= expect)
            print("selftest %s: corruption '%s' at event %d -> rejected at event %s: %s" % (key, what, expect + 1, None if fl is None else fl + 1, "ok" if good else "UNEXPECTED"))
            ok = ok and good
    return 0 if ok else 2


# ------------------------------------------------------------------ compile-time stage
def signature_stage(ctx):
    src = os.path.join(HDIR, "sigprobe.cpp")
    rc, out = compile_probe(src, "C11_SEL=0")
    ctx.notes["signature_rows"] = SIG_ROWS
    if rc == 0:
        return 0
    text = open(src).read()

    def one(n):
        rc1, out1 = compile_probe(src, "C11_SEL=%d" % n)
        return n, rc1, out1
    bad = 0
    with ThreadPoolExecutor(max_workers=core.NCPU) as ex:
        for n, rc1, out1 in ex.map(one, range(1, SIG_ROWS + 1)):
            if rc1 == 0:
                continue
            bad += 1
            m = re.search(r"ROW\(%d,(.*?)\);\n" % n, text, re.S)
            row = re.sub(r"\s+", " ", m.group(1)).strip() if m else "?"
            first = next((l for l in out1.splitlines() if "error" in l), out1[:300])
            ctx.violation("signature row %d of harness/parseq/sigprobe.cpp does not hold for this tree: %s ; compiler: %s" % (n, row[:600], first[:400]),
                          replay_lines=[{"_meta": {"kind": "signature", "src": src, "define": "C11_SEL=%d" % n, "what": "signature row %d" % n}}])
    if bad == 0:
        raise MachineryError("sigprobe.cpp does not compile as a whole but every row does on its own:\n%s" % out[-2000:])
    return bad


def call_probe_stage(ctx):
    src = os.path.join(HDIR, "callprobe.cpp")

    def one(p):
        rc, out = compile_probe(src, "C11_PROBE=%d" % p[0])
        return p, rc, out
    named, extra = 0, []
    with ThreadPoolExecutor(max_workers=core.NCPU) as ex:
        for (n, is_named, what), rc, out in ex.map(one, CALL_PROBES):
            if rc == 0:
                continue
            first = next((l for l in out.splitlines() if "error" in l), out[:300])
            if is_named:
                named += 1
                ctx.violation("a call the property names no longer compiles against this tree: %s (harness/parseq/callprobe.cpp, probe %d); compiler: %s" % (what, n, first[:500]),
                              replay_lines=[{"_meta": {"kind": "callprobe", "src": src, "define": "C11_PROBE=%d" % n, "what": what}}])
            else:
                extra.append(what)
    return named, extra


def probe_moved_from(ctx, drv, feats):
    """For every instantiation: is a moved-from container still a valid container of its type (both storages in
    lockstep) on this tree?  A short script per type through the driver, validated by L1; the same script with copies
    instead of moves is the control (a tree that fails it is broken anyway and is reported by the other stages).
    Returns ({type: observable?}, {type: script to report})."""
    ok, blame = {}, {}
    pdir = ctx.sub("probe")
    for key in TYPES:
        fl, ct, n = TYPES[key][:3]
        m = n if ct == "array" else 3
        v = [7, 1] if fl == "optional" else [7, 2]
        res = {}
        for what, ops, a in (("move", ("CtorMove", "MoveAssign"), {"re": 0}), ("copy", ("CtorCopy", "CopyAssign"), {"z": 0})):
            lines = [reset_event(feats, key),
                     {"op": "CtorNV", "k": 1, "a": {"n": m, "v": v}},
                     {"op": ops[0], "k": 2, "a": a},
                     {"op": "CtorNV", "k": 1, "a": {"n": m, "v": v}},
                     {"op": ops[1], "k": 2, "a": a}]
            tp = os.path.join(pdir, "%s-%s.ndjson" % (what, key))
            run_script(ctx, drv, key, lines, tp, "probe-" + what)
            r = core.validate_trace(ctx, "ParSeqTrace", "ParSeqTrace.cfg", tp, explain=False)
            res[what] = (bool(r["accepted"]), lines)
            if what == "move" and res["move"][0]:
                break           # no control needed
        ok[key] = res["move"][0]
        if not ok[key] and res["copy"][0]:
            blame[key] = res["move"][1]
    ctx.notes.pop("driver_restarts", None)
    return ok, blame


def advisory(ctx, traces):
    """Operations the property does not name: what they do is recorded, never judged.
    ProxySwap: does xoptional::swap on two element proxies exchange the two pairs?  Rel: do <,<=,>,>= of
    xoptional_sequence behave like 'values compare lexicographically and the flags are equal'?"""
    swaps = [0, 0]
    rels = [0, 0, 0]
    for tp in traces:
        prev = None
        try:
            f = open(tp)
        except OSError:
            continue
        with f:
            for line in f:
                if '"op":"ProxySwap"' not in line and '"op":"Rel"' not in line:
                    if '"st":' in line:
                        prev = line
                    continue
                try:
                    ev = json.loads(line)
                    if ev["op"] == "ProxySwap" and prev:
                        pv = json.loads(prev)
                        k, i, j = ev["k"] - 1, ev["a"]["i"], ev["a"]["j"]
                        before, after = pv["st"]["o"][k]["idx"], ev["st"]["o"][k]["idx"]
                        swaps[0] += 1
                        swaps[1] += int(after[i] == before[j] and after[j] == before[i])
                    elif ev["op"] == "Rel" and ev["res"]["exc"] == "none":
                        k = ev["k"] - 1
                        x, y = ev["st"]["o"][k], ev["st"]["o"][1 - k]
                        same = x["B"] == y["B"]
                        ref = [int(x["A"] < y["A"] and same), int(x["A"] <= y["A"] and same), int(x["A"] > y["A"] and same), int(x["A"] >= y["A"] and same)]
                        rels[0] += 1
                        rels[1] += int(ev["res"]["val"] == ref)
                        # order-consistency laws (advisory): the four answers and == of the same two objects must fit together
                        lt, le, gt, ge = ev["res"]["val"]
                        eq = int(bool(ev["st"]["eq"]))
                        lawful = (le == int(lt or eq)) and (ge == int(gt or eq)) and not (lt and gt) and not (lt and eq) and not (gt and eq)
                        rels[2] += int(not lawful)
                except Exception:
                    pass
                prev = line
    if rels[2]:
        ctx.drift.append("ADVISORY C11: the relational operators of xoptional_sequence are not mutually consistent in %d of %d calls "
                         "(expected for any ordering: (a <= b) == (a < b or a == b), (a >= b) == (a > b or a == b), not (a < b and a > b), a < b implies a != b)" % (rels[2], rels[0]))
    ctx.notes["advisory_not_judged"] = {
        "relational_calls_violating_the_order_consistency_laws": rels[2],
        "proxy_swap_calls": swaps[0], "proxy_swap_exchanged_both_pairs": swaps[1],
        "relational_calls": rels[0], "relational_like_lexicographic_values_and_equal_flags": rels[1]}


def finish(ctx, q, caps, extra=""):
    drvrun.dedupe_violations(ctx, MAX_REPORTED)
    mf = caps.get("movedfrom", {})
    return core.finish(
        ctx, "model_checking",
        rule="TLC: L1 (one sequence of pairs, two objects, every operation) exhaustive for two objects of sizes <= 2%s with its laws; L2 (two "
             "separately sized storages transcribed from the headers) keeps them in lockstep and refines L1; L1 transitions for sizes 0..%d x "
             "components {0,1} x all access paths and iterator navigations on the vector flavours, extents 3 and 0 on the array flavours, "
             "enumerated by TLC and %s replayed on the real objects; TLC simulation walks; seeded random scripts on seventeen instantiations (flag containers "
             "xdynamic_bitset<size_t/uint8_t/uint16_t/uint32_t>, std::vector<bool>, std::vector<char>, std::array<bool,3>; int, double, float elements) with "
             "sizes up to 200 and extents 0/3/66/70 on %d driver builds.  A case is one call whose result and full projection (size(), both "
             "storage sizes, elements from the underlying containers, operator[], forward and reverse iteration, ==, !=) are compared by TLC.%s" % (
                 "" if q else " and one object of sizes <= 4", 3 if q else 4,
                 "a sample (32 000; thorough 300 000) stratified over container type, action and argument class, a different one for every VERIF_SEED,", 2 if q else 4, extra),
        assumptions=["objects are constructed by placement-new over memory pre-filled with 0xAA (harness built with -fno-lifetime-dse)",
                     "moved-from containers are observed like any other object where this tree keeps them valid (%s); elsewhere (%s) the source of a "
                     "move is destroyed and re-created at once" % (", ".join(k for k in TYPES if mf.get(k)) or "none", ", ".join(k for k in TYPES if not mf.get(k)) or "none"),
                     "the relational operators of xoptional_sequence (<, <=, >, >=) and proxy swap are exercised but not judged (outside the property): "
                     "only that they leave everything else alone; allocators are not modelled",
                     "constructors taking a size are only called with the container's own size for the array flavours (a foreign size is probed, advisory)",
                     "standard algorithms over the iterators (Algo: copy, copy_backward exact; reverse, rotate, sort as permutations of whole pairs) are "
                     "actions of L1 and model-checked; only those that compile with the headers under test are bound to the code (see "
                     "std_algorithms_not_accepting_the_iterators)",
                     "round 4: value arguments that are element proxies (ResizeFrom: of the vector being resized - aliasing - or of the other object; CtorFrom) "
                     "and element assignment across containers (XAssign / XCopy: the source is a sibling container of another value type built by the harness "
                     "from the other object behind `pad` default elements, storage by storage) are L1 actions; XAssign / XCopy are bound to the tree only where "
                     "`proxy = proxy of the sibling type` compiles (probe_xassign.cpp)"],
        exhaustive=False)


def run(ctx):
    q = ctx.quick
    findings = core.load_findings(PID)
    rnd = random.Random(ctx.seed)
    caps = {"movedfrom": {}}

    # ---- 0. compile-time stage; driver builds in the background while TLC runs
    nsig = signature_stage(ctx)
    feats = probe_features(ctx)
    ctx.notes["features"] = {"xoptional_array forward iterators compile": feats["oaf"],
                             "xcomplex_array forward iterators compile": feats["caf"],
                             "complex proxy = xcomplex<T> compiles": feats["cas"]}
    ctx.log("features: %s" % ctx.notes["features"])
    if not feats["cas"]:
        print("NOTE property=C11 `container[i] = xcomplex<T>(re, im)` does not compile with these headers "
              "(xcomplex::operator= reads private members of another instantiation); whole-element writes to complex "
              "containers are not exercised, component writes are (see proposed_fixes/C11-05)")
    missing = {fl: [ALGO_WHAT[b] for b in (1, 8, 2, 4) if not (feats[k] & b)] for fl, k in (("optional", "algo_opt"), ("complex", "algo_cplx"))}
    ctx.notes["std_algorithms_not_accepting_the_iterators"] = missing
    for fl, lst in sorted(missing.items()):
        if lst:
            print("NOTE property=C11 the iterators of the %s sequences cannot be handed to: %s (does not compile with these headers: the proxy "
                  "references have no swap for rvalues / no assignment from a proxy of the same type / no conversion to value_type); the "
                  "corresponding Algo actions of ParSeq.tla are model-checked but not bound to this tree" % (fl, "; ".join(lst)))
    ctx.notes["features"]["proxy = proxy of the sibling container type compiles (optional, complex)"] = [feats["xas_opt"], feats["xas_cplx"]]
    for fl, kx in (("optional", "xas_opt"), ("complex", "xas_cplx")):
        if not feats[kx]:
            print("NOTE property=C11 `dst[i] = src[j]` with src an element of a %s sequence of another value type does not compile with these "
                  "headers; the XAssign / XCopy actions of ParSeq.tla are model-checked but not bound to this tree for that flavour" % fl)
    flavours = ["asan"] if ONLY_RND else ["asan", "o2ndebug"] + ([] if q else ["clang", "o0"])
    # (flavour, group): the secondary builds of the quick tier only cover the six original instantiations
    jobs = [(fl, g) for fl in flavours for g in GROUPS if not (q and fl != "asan" and g >= 2) and not (g == 3 and fl not in ("asan", "o2ndebug"))]
    builds, build_err = {}, {}

    def do_builds():
        def one(j):
            try:
                builds[j] = build_driver(ctx, feats, j[0], j[1])
            except MachineryError as x:
                build_err[j] = str(x)
        with ThreadPoolExecutor(max_workers=max(1, min(len(jobs), core.NCPU // 2))) as ex:
            list(ex.map(one, jobs))
    bt = threading.Thread(target=do_builds)
    bt.start()

    try:
        # ---- 1. L1 model checking (the spec's own theorems)
        mcs = [("ParSeq_mc.cfg", "two objects, sizes <= 2")]
        if not q:
            mcs.append(("ParSeq_mc_thorough.cfg", "one target object, sizes <= 4, representative second object, incl. builds without array iterators"))
        for cfg, what in ([] if FAST else mcs):
            r = core.tlc_model_check(ctx, "ParSeqMC", cfg, "L1 invariants (lockstep projections, array size fixed) and laws; " + what,
                                     coverage=not q, timeout=2400)
            if r["violated"]:
                raise MachineryError("L1 spec ParSeq.tla violates its own theorem %s (oracle bug), see %s" % (r["violated"], r["outfile"]))
            if not q:
                ctx.notes.setdefault("l1_action_coverage", {}).update({k: v for k, v in r.get("coverage", {}).items()})
    finally:
        bt.join()

    if any(("asan", g) in build_err for g in GROUPS):
        err = next(build_err[("asan", g)] for g in GROUPS if ("asan", g) in build_err)
        named, extra = call_probe_stage(ctx)
        if named or nsig:
            ctx.log("the conformance driver does not build against this tree; %d signature rows and %d named call families fail" % (nsig, named))
            ctx.notes["driver_build_failed"] = err[-1500:]
            return finish(ctx, q, caps, " The run-time stages were skipped: the driver does not build against this tree.")
        raise MachineryError("the C11 driver does not build although every signature row and every call the property names compiles"
                             "%s:\n%s" % ((" (not named by the property, but used by the harness: %s)" % "; ".join(extra)) if extra else "", err))
    for j in build_err:
        raise MachineryError("driver build %s failed: %s" % (j, build_err[j]))
    drv = {fl: {g: builds[(fl, g)] for g in GROUPS if (fl, g) in builds} for fl in flavours}

    caps["movedfrom"], mf_scripts = probe_moved_from(ctx, drv["asan"], feats)
    ctx.notes["moved_from_container_is_valid"] = caps["movedfrom"]
    for k in TYPES:
        if not caps["movedfrom"][k] and k not in MOVED_FROM_INVALID_OK and k in mf_scripts:
            ctx.violation("a moved-from %s is not a valid container on this tree: after move construction / move assignment its two storages are "
                          "not in lockstep (or the driver crashed observing it).  The other stages re-create the source of such a move at once." % WHAT[k],
                          replay_lines=mf_scripts[k])
    bad_mf = [k for k in TYPES if not caps["movedfrom"][k] and k in MOVED_FROM_INVALID_OK]
    if bad_mf:
        print("NOTE property=C11 a moved-from container is not observed for %s on this tree (its two storages do not stay in lockstep: a moved-from "
              "xoptional_array keeps its values and loses its flags; outside the property's operations, see proposed_fixes/C11-06): the source of "
              "such a move is destroyed and re-created at once" % ", ".join(bad_mf))

    # ---- 1b. L2: two separately sized storages
    arrays_ok = all(caps["movedfrom"][k] for k in ("oa3", "oa70"))
    for cfg2 in ([] if FAST else ["ParSeqImpl_mc.cfg"] if q else ["ParSeqImpl_mc.cfg", "ParSeqImpl_mc_thorough.cfg"]):
        cfg2 = cfg2 if arrays_ok else cfg2.replace("_mc", "_mcam")
        r2 = core.tlc_model_check(ctx, "ParSeqImpl", cfg2, "L2 (two separately sized storages) stays in lockstep and refines L1", timeout=2400)
        if r2["violated"]:
            ctx.drift.append("ParSeqImpl.tla: %s violated (%s); see %s" % (r2["violated"], cfg2, r2["outfile"]))

    scripts = []   # (name, key, lines, flavour)

    # ---- 2. S->C: every L1 transition, sizes 0..3 (quick) / 0..4 (thorough), four container families + extent-0 arrays
    edges = []
    for cfg in ([] if ONLY_RND else ["ParSeq_s2c_vec.cfg", "ParSeq_s2c_arr.cfg"] if q else ["ParSeq_s2c_vec_thorough.cfg", "ParSeq_s2c_arr.cfg"]):
        edges.extend(enumerate_edges(ctx, cfg))

    def usable(e, key):
        if e["l"]["op"] in MOVES and e["l"]["a"]["re"] == 0 and not caps["movedfrom"][key]:
            return False
        return True
    per_op = {}
    for e in edges:
        per_op[e["l"]["op"]] = per_op.get(e["l"]["op"], 0) + 1
    ctx.notes["s2c_transitions_per_action"] = per_op
    ctx.notes["actions_never_enumerated"] = sorted(set(ALL_OPS) - set(per_op))
    prim = [e for e in edges if usable(e, key_of_cfg(e["c"]))]
    sample, stats = drvrun.stratified_sample(prim, 32000 if q else 300000, rnd,
                                             action_of=lambda e: (key_of_cfg(e["c"]), e["l"]["op"]))
    per_type, taken = edge_scripts(sample, feats, rnd)
    ctx.notes["s2c_per_type_action_enumerated_replayed"] = stats
    # the other instantiations of the same configurations: a smaller stratified sample each
    for pk, others in sorted(ALIASES.items()):
        mine = [e for e in edges if key_of_cfg(e["c"]) == pk]
        for ak in others:
            sub = [e for e in mine if usable(e, ak)]
            smp, st2 = drvrun.stratified_sample(sub, 2500 if q else 20000, rnd)
            pt, tk = edge_scripts(smp, feats, rnd, as_key=ak)
            taken += tk
            for key, lines in pt.items():
                per_type.setdefault(key, []).extend(lines)
    nev = sum(len(v) for v in per_type.values())
    ctx.log("S->C: %d L1 transitions enumerated by TLC, %d replayed (%d script events) on %d instantiations" % (len(edges), taken, nev, len(per_type)))
    ctx.notes["s2c_transitions_enumerated"] = len(edges)
    ctx.notes["s2c_transitions_replayed"] = taken
    for key, lines in sorted(per_type.items()):
        for i, ch in enumerate(chunk_by_reset(lines, (3 if TYPES[key][4] == key else 1) if q else 6)):
            scripts.append(("s2c-%s-%02d" % (key, i), key, ch, "asan"))

    # ---- 2b. TLC simulation walks (longer histories on both objects)
    simdir = ctx.sub("sim")
    nsim = 200 if q else 2000
    if not ONLY_RND:
        core.tlc(ctx, "ParSeqMC", "ParSeq_sim.cfg", name="s2c-simulate",
                 simulate="file=%s/t,num=%d" % (simdir, nsim), extra=["-depth", "30", "-seed", str(ctx.seed)], workers=min(4, core.NCPU))
    per_type, nwalks = sim_scripts(simdir, feats, caps)
    ctx.notes["s2c_simulation_walks"] = nwalks
    for key, lines in sorted(per_type.items()):
        scripts.append(("sim-%s" % key, key, lines, "asan"))

    # ---- 2c. the upstream tests' own call sequences through the logging harness
    for name, key, lines in upstream_scripts(feats):
        scripts.append((name, key, lines, "asan"))

    # ---- 3. C->S random scripts for every instantiation, sizes up to 200, on every driver build
    for fl in flavours:
        for key in TYPES:
            if TYPES[key][3] not in drv[fl]:
                continue
            nexec, nops = (40, 40) if q else (400, 50)
            if TYPES[key][3] == 2:
                nexec = nexec // 2
            if fl != "asan":
                nexec = max(6, nexec // 4)
            if TYPES[key][2] == 0 and TYPES[key][1] == "array":
                nexec = max(3, nexec // 8)           # extent 0: there is little to do
            lines = random_script(ctx.seed, key, feats, nexec, nops, 0.3 if TYPES[key][1] == "vector" else 1.0, caps, build=fl)
            for i, ch in enumerate(chunk_by_reset(lines, 1 if (q or fl != "asan") else 4)):
                scripts.append(("rnd-%s-%s-%d" % (fl, key, i), key, ch, fl))

    # ---- the property demands forward iterators for every flavour: ask each array build
    for key in ("oa3", "ca3"):
        scripts.append(("feature-%s" % key, key, [reset_event(feats, key), {"op": "Feature", "k": 1, "a": {"name": "fwd_iter"}}], "asan"))

    # ---- advisory: array constructors called with a size other than the extent (outside the statement: "called with the
    # container's own size"); the two storages should still have the extent's length
    wrong = {}
    for key in ("oa3", "oab3", "ca3"):
        if TYPES[key][3] not in drv["asan"]:
            continue
        for n in (2, 5):
            v = [7, 1] if TYPES[key][0] == "optional" else [7, 2]
            pl = [reset_event(feats, key), {"op": "CtorNV", "k": 1, "a": {"n": n, "v": v}}]
            tp = os.path.join(ctx.sub("probe"), "ctorsize-%s-%d.ndjson" % (key, n))
            run_script(ctx, drv["asan"], key, pl, tp, "probe-ctorsize")
            evs = core.read_ndjson(tp)
            last = evs[-1] if evs else {}
            if last.get("op") == "Crash" or "st" not in last:
                wrong["%s(%d, v)" % (WHAT[key], n)] = "crash"
                continue
            o0 = last["st"]["o"][0]
            if not (o0["size"] == o0["nA"] == o0["nB"] == 3) and last.get("res", {}).get("exc") == "none":
                wrong["%s(%d, v)" % (WHAT[key], n)] = "size()=%d, first storage %d, second storage %d" % (o0["size"], o0["nA"], o0["nB"])
    ctx.notes.pop("driver_restarts", None)
    ctx.notes["array_constructor_with_foreign_size"] = wrong or "storages keep the extent"
    if wrong:
        ctx.drift.append("ADVISORY C11: an array flavour constructed with a size other than its extent has storages of different lengths: %s "
                         "(outside the statement, which only speaks of constructors called with the container's own size)" % json.dumps(wrong, sort_keys=True))

    # ---- probes for open known findings
    for fnd in findings:
        if "probe" in fnd:
            key = fnd["probe"]["type"]
            lines = [reset_event(feats, key)] + [l for l in fnd["probe"]["script"] if l["op"] != "Reset"]
            scripts.append(("probe-" + fnd["id"], key, lines, "asan"))

    # ---- run the harness
    scripts = [x for x in scripts if x[2]]
    tdir = ctx.sub("traces")

    def one(item):
        name, key, lines, fl = item
        tp = os.path.join(tdir, name + ".ndjson")
        run_script(ctx, drv[fl], key, lines, tp, name)
        return tp
    with ThreadPoolExecutor(max_workers=max(2, core.NCPU // 2)) as ex:
        traces = list(ex.map(one, scripts))
    for name, key, lines, fl in scripts:
        ctx.cov["traces_validated_against_impl"] += sum(1 for l in lines if l["op"] == "Reset")
    ctx.sample({"script": [json.dumps(x) for x in scripts[0][2][:12]]})
    rs = [s for s in scripts if s[0].startswith("rnd-")]
    if rs:
        ctx.sample({"script": [json.dumps(x) for x in rs[0][2][:8]]})

    # ---- validate every trace against L1 (a few traces per TLC process: JVM start-up dominates small ones)
    merged = merge_traces(ctx, traces, 10 if q else 24)
    core.validate_traces(ctx, "ParSeqTrace", "ParSeqTrace.cfg", merged, classify=classify(findings, ctx), max_restarts=3)
    advisory(ctx, traces)
    ctx.cov["evaluations"] = ctx.cov["events_validated"]
    ctx.log("validated %d events in %d traces (%d executions)" % (ctx.cov["events_validated"], len(traces), ctx.cov["traces_validated_against_impl"]))
    return finish(ctx, q, caps)


def merge_traces(ctx, traces, nfiles):
    """Every execution starts with a Reset event that carries its configuration, so traces of different instantiations can
    share a file.  Concatenate the small ones (greedy, largest first) into about nfiles files."""
    sized = sorted(((os.path.getsize(t), t) for t in traces), reverse=True)
    bins = [[0, []] for _ in range(max(1, min(nfiles, len(sized))))]
    for sz, t in sized:
        b = min(bins, key=lambda x: x[0])
        b[0] += sz
        b[1].append(t)
    out = []
    mdir = ctx.sub("merged")
    for i, (sz, ts) in enumerate(bins):
        if not ts:
            continue
        if len(ts) == 1:
            out.append(ts[0])
            continue
        p = os.path.join(mdir, "m%02d.ndjson" % i)
        with open(p, "w") as f:
            for t in ts:
                with open(t) as g:
                    for line in g:
                        if line.strip():
                            f.write(line if line.endswith("\n") else line + "\n")
        out.append(p)
    return out

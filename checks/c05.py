"""C05 - xtl::variant (mpark) holds one live alternative or is valueless; lifetimes balance.

 1. TLC: Variant.tla (L1) alone - an arbitrary implementation (any element events the lifetime rules
    allow) - satisfies the spec's own theorems (Quiescent, ValuelessOnlyAfterThrow, ObserversPure, RelLaws).
 2. TLC: VariantImpl.tla (L2, mpark's algorithm at element-operation granularity with a fault fuse)
    refines L1 for every reachable state x call x fuse position (identities modulo renaming).
 3. S->C: TLC writes every call transition of L2 (abstract pre-state, call, fuse, post-state, element
    events); a transition tour over that graph is replayed on real xtl::variant<int,NT,TM,TM2> objects
    (syntactic forms varied); the recorded traces are validated by TLC against L1 (verdict) and compared
    with L2's predicted element events (advisory MODEL-DRIFT).
 4. C->S: seeded random call sequences with fuse probability ~0.3, validated by TLC against L1 at every
    element event and every End.
 Validation runs with the standard's per-operation exception guarantees switched on (Strict); a rejection
 is re-validated under the property statement's own rule: only if that rejects too it is a VIOLATION,
 otherwise it is reported as an advisory note.
"""
import json, os, random, re, subprocess
from collections import deque
from concurrent.futures import ThreadPoolExecutor
from vlib import core, tlaval
from vlib.core import MachineryError
from checks import c05_probe

TRACE_MOD = "VariantTrace"
CFG_STRICT = "VariantTrace_strict.cfg"
CFG_WEAK = "VariantTrace.cfg"


# ------------------------------------------------------------------ alternative sets and build flavours
# An alternative SET fixes which of the four alternatives are lifetime-tracked payload types and which move
# without throwing (constants TrackedAlts / NTMAlts of VariantLifetime.tla; -DC05_SET of the driver).
UNORD = 7777
SETS = {
    "mixed": dict(cset=1, tracked=(1, 2, 3), ntm=(0, 1), weak="VariantTrace.cfg", strict="VariantTrace_strict.cfg",
                  mc=("VariantImpl_mc.cfg", "VariantImpl_mc_thorough.cfg"), s2c=("VariantImpl_s2c.cfg", "VariantImpl_s2c_thorough.cfg"),
                  what="<int, NT, TM, TM2>"),
    "td": dict(cset=3, tracked=(0, 1, 2), ntm=(1, 3), weak="VariantTrace_td.cfg", strict="VariantTrace_td_strict.cfg",
               mc=("VariantImpl_mc_td.cfg", "VariantImpl_mc_td_thorough.cfg"), s2c=("VariantImpl_s2c_td.cfg", "VariantImpl_s2c_td_thorough.cfg"),
               what="<TD, NT, TM, int> (alternative 0 with a throwing default constructor)"),
    "triv": dict(cset=2, tracked=(), ntm=(0, 1, 2, 3), weak="VariantTrace_triv.cfg", strict="VariantTrace_triv_strict.cfg",
                 mc=("VariantImpl_mc_triv.cfg", "VariantImpl_mc_triv.cfg"), s2c=("VariantImpl_s2c_triv.cfg", "VariantImpl_s2c_triv.cfg"),
                 what="<int, Tv1, Tv2, Tv3> (all trivially copyable and destructible)"),
}
# A build FLAVOUR is one way of compiling the driver.  "table": the header's code for compilers without C++14
# constexpr (function-pointer-table visitation instead of the switch dispatcher, recursive find_index /
# common_trait), selected by presenting __cpp_constexpr as its C++11 value.
TABLE = ["-U__cpp_constexpr", "-D__cpp_constexpr=200704", "-Wno-builtin-macro-redefined"]
FLAVOURS = {
    "mixed": dict(set="mixed", flags=[], cxx=None, tiers=("quick", "thorough")),
    "td": dict(set="td", flags=[], cxx=None, tiers=("quick", "thorough")),
    "triv": dict(set="triv", flags=[], cxx=None, tiers=("quick", "thorough")),
    "mixed-table": dict(set="mixed", flags=TABLE, cxx=None, tiers=("quick", "thorough")),
    "td-table": dict(set="td", flags=TABLE, cxx=None, tiers=("thorough",)),
    "triv-table": dict(set="triv", flags=TABLE, cxx=None, tiers=("thorough",)),
    "mixed-clang": dict(set="mixed", flags=[], cxx="clang++", tiers=("thorough",)),
    "td-clang": dict(set="td", flags=[], cxx="clang++", tiers=("thorough",)),
    "triv-clang": dict(set="triv", flags=[], cxx="clang++", tiers=("thorough",)),
    "mixed-O2": dict(set="mixed", flags=["-O2"], cxx=None, tiers=("thorough",), tour=False),
    "mixed-O0": dict(set="mixed", flags=["-O0"], cxx=None, tiers=("thorough",), tour=False),
}
DRIVER_SRC = os.path.join(core.HARNESS, "variant", "driver.cpp")


def build_flavour(ctx, fl):
    f = FLAVOURS[fl]
    out = os.path.join(ctx.work, "variant_driver_" + fl)
    if not os.path.exists(out):
        core.build(ctx, DRIVER_SRC, out, ["-DC05_SET=%d" % SETS[f["set"]]["cset"]] + f["flags"], True, f["cxx"])
    return out


def reset_line(fl):
    return {"op": "Reset", "flavour": fl}


def flavour_of(lines):
    for l in lines:
        d = json.loads(l) if isinstance(l, str) else l
        if d.get("op") == "Reset":
            return d.get("flavour", "mixed")
    return "mixed"


# ------------------------------------------------------------------ scripts
def begin(c, a, fuse=0, **extra):
    d = {"op": "Begin", "c": c, "a": a, "fuse": fuse}
    d.update(extra)
    return d


def write_script(path, lines):
    with open(path, "w") as f:
        for l in lines:
            f.write((l if isinstance(l, str) else json.dumps(l, separators=(",", ":"))) + "\n")


CRASH_RESTARTS = 6


def _tail_state(path, start):
    """(number of Reset lines, last complete line, bytes to keep) of the trace written from byte offset start."""
    with open(path, "rb") as f:
        f.seek(start)
        data = f.read()
    keep = len(data) if data.endswith(b"\n") or not data else data.rfind(b"\n") + 1
    lines = [l for l in data[:keep].split(b"\n") if l.strip()]
    nres = sum(1 for l in lines if l.startswith(b'{"op":"Reset"'))
    return nres, (lines[-1].decode(errors="replace") if lines else ""), start + keep


def run_script(ctx, drv, script_path, trace_path):
    """Run the driver on a script.  The driver never ends a run abnormally without the trace saying so: if it
    crashed (sanitizer report, signal, std::terminate, per-call CPU limit, or - seen from here - a non-zero exit
    status or the wall-clock limit) the trace is closed with a Crash event, which no action of the spec matches,
    and the driver is started again on the executions after the one that crashed."""
    env = dict(os.environ)
    env.update(core.ASAN_ENV)
    with open(script_path) as f:
        script = [l for l in f.read().split("\n") if l.strip()]
    open(trace_path, "w").close()
    pos, crashes, errs = 0, 0, []
    while pos < len(script):
        chunk = script[pos:]
        offset = os.path.getsize(trace_path)
        with open(trace_path, "ab") as fout:
            p = subprocess.Popen([drv], stdin=subprocess.PIPE, stdout=fout, stderr=subprocess.PIPE, env=env)
            try:
                _, err = p.communicate(("\n".join(chunk) + "\n").encode(), timeout=1800)
                rc = p.returncode
            except subprocess.TimeoutExpired:
                p.kill()
                _, err = p.communicate()
                rc = "wall-clock limit"
        err = err.decode(errors="replace")
        if rc == 3:
            raise MachineryError("harness rejected script %s: %s" % (script_path, err[-500:]))
        nres, last, keep = _tail_state(trace_path, offset)
        crashed = last.startswith('{"op":"Crash"')
        if rc == 0 and not crashed:
            break
        crashes += 1
        errs.append(err[-1500:])
        with open(trace_path, "r+b") as f:          # drop a partial last line; say why the run ended
            f.truncate(keep)
            if not crashed:
                f.seek(keep)
                why = "driver ended with %s" % (rc if isinstance(rc, str) else "exit status %d" % rc)
                m = re.search(r"(ERROR: \w+Sanitizer: [^\n]{0,160})", err)
                if m:
                    why += ": " + re.sub(r'[^ -~]|["\\]', " ", m.group(1))
                f.write((json.dumps({"op": "Crash", "why": why}, separators=(",", ":")) + "\n").encode())
        if crashes > CRASH_RESTARTS or nres == 0 or "hang" in last or isinstance(rc, str):
            break       # (a call that does not return costs its whole CPU limit: one per script is enough)
        # restart after the execution that crashed: it is the nres-th Reset of this chunk
        seen, nxt = 0, None
        for i, l in enumerate(chunk):
            if l.startswith('{"op":"Reset"'):
                seen += 1
                if seen == nres + 1:
                    nxt = i
                    break
        if nxt is None:
            break
        pos += nxt
    return crashes, "\n".join(errs)


def chunk_by_reset(lines, nchunks):
    starts = [i for i, l in enumerate(lines) if l["op"] == "Reset"]
    if not starts:
        return [lines]
    per = max(1, (len(starts) + nchunks - 1) // nchunks)
    cuts = starts[::per]
    return [lines[a:b] for a, b in zip(cuts, cuts[1:] + [len(lines)])]


# ------------------------------------------------------------------ C->S: random scripts
class Gen:
    """Seeded random call sequences.  Tracks only which variant exists (optimistically: a constructor
    with an armed fuse may have thrown; the harness skips a call whose object does not exist / already
    exists, so a wrong guess costs one script line).  It predicts no results."""

    def __init__(self, rnd, aset):
        self.r = rnd
        self.aset = aset
        self.present = [False, False]
        self.tracked = SETS[aset]["tracked"]
        self.ntm = SETS[aset]["ntm"]

    def fuse(self):
        return self.r.choice([1, 1, 1, 2, 2, 3]) if self.r.random() < 0.3 else 0

    def valued(self, many=True):
        r = self.r
        alt = r.choice([0, 1, 1, 2, 2, 3])
        # UNORD (Variant!UNORD): a payload value that is unordered with everything, like a NaN - never for the int alternative
        is_int = (alt == 3) if self.aset == "td" else (alt == 0)
        unord = (not is_int) and r.random() < 0.12
        if alt not in self.tracked:
            return alt, (UNORD if unord else r.randrange(0, 4)), "value"
        if unord:
            return alt, UNORD, r.choice(["value", "copy", "move"])
        ak = r.choice(["value", "value", "copy", "move", "ilist", "multi"] if many else ["value", "value", "copy", "move"])
        return alt, r.randrange(0, 4), ak

    def step(self):
        r = self.r
        k = r.randrange(2)
        o = 1 - k
        K, O = k + 1, o + 1
        for _ in range(100):
            x = r.random()
            if not self.present[k]:
                if x < 0.7:
                    t = r.random()
                    f = self.fuse() if r.random() < 0.5 else 0
                    if t < 0.15:
                        self.present[k] = not (f == 1 and 0 in self.tracked)
                        return begin("CtorDefault", {"k": K}, f)
                    if t < 0.7:
                        alt, val, ak = self.valued()
                        form = r.choice(["conv", "index", "type"])
                        if ak in ("ilist", "multi") and form == "conv":
                            form = "index"
                        throws = f == 1 and alt in self.tracked and (ak != "move" or alt not in self.ntm)
                        self.present[k] = not throws
                        return begin("CtorValue", {"k": K, "alt": alt, "val": val, "ak": ak, "form": form}, f)
                    if self.present[o]:
                        self.present[k] = f != 1
                        return begin(r.choice(["CtorCopy", "CtorMove"]), {"k": K, "o": O}, f)
                k, o, K, O = o, k, O, K
                continue
            if x < 0.04:
                self.present[k] = False
                return begin("Destroy", {"k": K}, 0)
            if x < 0.19:
                alt, val, ak = self.valued()
                return begin("Emplace", {"k": K, "alt": alt, "val": val, "ak": ak, "form": r.choice(["index", "type"])}, self.fuse())
            if x < 0.34:
                alt, val, ak = self.valued(many=False)
                return begin("ConvAssign", {"k": K, "alt": alt, "val": val, "ak": ak}, self.fuse())
            if x < 0.44 and self.present[o]:
                return begin(r.choice(["CopyAssign", "MoveAssign"]), {"k": K, "o": O}, self.fuse())
            if x < 0.46:
                return begin("CopyAssign", {"k": K, "o": K}, self.fuse())
            if x < 0.57 and self.present[o]:
                return begin("Swap", {"k": K, "o": O, "form": r.choice(["member", "free"])}, self.fuse())
            if x < 0.59:
                return begin("Swap", {"k": K, "o": K, "form": r.choice(["member", "free"])}, self.fuse())
            if x < 0.66:
                alt = r.randrange(4)
                if r.random() < 0.3:
                    return begin("XGet", {"k": K, "alt": alt, "ref": r.choice(["l", "cl", "r", "cr"])})
                return begin("Get", {"k": K, "alt": alt, "form": r.choice(["index", "type"]), "ref": r.choice(["l", "cl", "r", "cr"])})
            if x < 0.71:
                return begin("GetIf", {"k": K, "alt": r.randrange(4), "form": r.choice(["index", "type"]), "c": r.randrange(2),
                                       "null": 1 if r.random() < 0.1 else 0})
            if x < 0.79 and self.present[o]:
                return begin("Rel", {"k": K, "o": r.choice([K, O, O]), "rel": r.choice(["eq", "ne", "lt", "gt", "le", "ge"])})
            if x < 0.83 and self.present[o]:
                return begin("Hash", {"k": K, "o": r.choice([K, O, O])})
            if x < 0.93:
                n = r.choice([0, 1, 1, 2, 2, 3, 3])
                pool = [K] + ([O] if self.present[o] else [])
                a = {"ks": [r.choice(pool) for _ in range(n)], "c": r.randrange(2), "r": 0, "rv": 0}
                if n in (1, 2):
                    a["r"], a["rv"] = r.randrange(2), r.randrange(2)
                return begin("Visit", a)
            if x < 0.95:
                return begin("Nest", {"alt": r.randrange(4), "val": r.randrange(0, 4), "mode": r.choice(["copy", "move", "swap", "visit"])}, self.fuse())
            if x < 0.96:
                if r.random() < 0.5:
                    return begin("Up", {"t": r.choice(["overload", "visitret"]), "alt": r.randrange(3), "val": r.randrange(0, 9)})
                return begin("Mono", {"q": r.choice(["eq", "ne", "lt", "gt", "le", "ge", "hash", "default"])})
            return begin("XRef", xref_args(r, r.randrange(0, 9)))
        return begin("Visit", {"ks": [], "c": 0, "r": 0, "rv": 0})


def xref_args(r, val):
    """A closure-wrapper xget call that compiles (Variant.tla ArgOK)."""
    lst = r.choice([2, 3, 3, 4])
    held = r.choice(["ref", "cref", "other"])
    want = "cref" if lst == 4 else r.choice(["ref", "cref"])
    w = 1 if want == "ref" and r.random() < 0.4 else 0
    ref = r.choice(["l", "r"]) if w else r.choice(["l", "cl", "r", "cr"])
    return {"held": held, "want": want, "ref": ref, "list": lst, "val": val, "w": w}


def random_script(seed, nexec, nops, fl="mixed"):
    rnd = random.Random(seed * 7919 + 5 + sum(map(ord, fl)))
    aset = FLAVOURS[fl]["set"]
    lines = []
    for _ in range(nexec):
        g = Gen(rnd, aset)
        lines.append(reset_line(fl))
        for _ in range(nops):
            st = g.step()
            if aset == "triv":
                st["tt"] = 1      # the trivially destructible alternative 3 may throw from its value constructor / assignment (fuse)
            lines.append(st)
        for k in (1, 2):          # end every execution with both variants destroyed: nothing may stay alive
            lines.append(begin("Destroy", {"k": k}, 0))
    return lines


# ------------------------------------------------------------------ S->C: tour over L2's call graph
def emitted(out):
    res = []
    for line in out.splitlines():
        if line.startswith('"@E@'):
            res.append(json.loads(json.loads(line)[3:]))
    return res


def skey(p):
    return json.dumps(p, sort_keys=True)


def vary_forms(c, a, rnd, tracked):
    """The model checker explores one syntactic form per call; the forms mean the same in the spec."""
    a = dict(a)
    if c == "CtorValue":
        a["form"] = rnd.choice(["conv", "index", "type"])
        if a["ak"] == "value" and a["alt"] in tracked and a["form"] != "conv" and rnd.random() < 0.4:
            a["ak"] = rnd.choice(["ilist", "multi"])
    elif c == "Emplace":
        a["form"] = rnd.choice(["index", "type"])
        if a["ak"] == "value" and a["alt"] in tracked and rnd.random() < 0.4:
            a["ak"] = rnd.choice(["ilist", "multi"])
    elif c == "Swap":
        a["form"] = rnd.choice(["member", "free"])
    elif c == "Get":
        a["ref"] = rnd.choice(["l", "cl", "r", "cr"])
        if rnd.random() < 0.3:
            a.pop("form", None)
            return "XGet", a
        a["form"] = rnd.choice(["index", "type"])
    elif c == "GetIf":
        a["form"] = rnd.choice(["index", "type"])
        a["c"] = rnd.randrange(2)
    elif c == "Visit":
        a["c"] = rnd.randrange(2)
    elif c == "XRef":
        a["ref"] = rnd.choice(["l", "r"]) if a.get("w") else rnd.choice(["l", "cl", "r", "cr"])
    return c, a


def with_flavour(lines, fl):
    """The same script for another build flavour: the Reset lines name the flavour (replays need it).  In the all-trivial
    alternative set the fuse also applies to the value constructor / assignment of the trivially destructible alternative 3
    ("tt": CanThrow(3, "value") of VariantLifetime.tla, which L2 models since round 4)."""
    r = reset_line(fl)
    tt = FLAVOURS[fl]["set"] == "triv"
    return [r if l["op"] == "Reset" else (dict(l, tt=1) if tt and l["op"] == "Begin" else l) for l in lines]


def build_tour(edges, rnd, tracked, exec_len=150, limit=None):
    """A walk through L2's call graph that takes every transition at least once.  Returns script lines;
    each Begin line carries "e": index of the edge it replays."""
    init = None
    out = {}
    for i, e in enumerate(edges):
        e["pk"], e["qk"] = skey(e["p"]), skey(e["q"])
        out.setdefault(e["pk"], []).append(i)
        if all(x["s"] == "absent" for x in e["p"]):
            init = e["pk"]
    if init is None:
        raise MachineryError("S->C: no transition out of the initial state was emitted")
    todo = {k: list(v) for k, v in out.items()}
    for k in todo:
        rnd.shuffle(todo[k])
    remaining = sum(len(v) for v in todo.values())
    if limit and remaining > limit:      # quick tier: a seeded sample of the transitions (all states kept)
        frac = limit / float(remaining)
        for k in todo:
            keep = [i for i in todo[k] if edges[i]["r"] == "injected" or rnd.random() < frac]
            todo[k] = keep or todo[k][:1]
        remaining = sum(len(v) for v in todo.values())
    lines, cur, n_in_exec, taken, nav = [{"op": "Reset"}], init, 0, 0, 0

    def emit(i):
        e = edges[i]
        c, a = vary_forms(e["c"], e["a"], rnd, tracked)
        lines.append(begin(c, a, e["f"], e=i))

    while remaining:
        if n_in_exec >= exec_len:
            lines.append({"op": "Reset"})
            cur, n_in_exec = init, 0
        if todo.get(cur):
            i = todo[cur].pop()
            remaining -= 1
            emit(i)
            taken += 1
            n_in_exec += 1
            cur = edges[i]["qk"]
            continue
        # breadth-first search to the nearest state that still has transitions to take
        prev = {cur: None}
        dq = deque([cur])
        goal = None
        while dq:
            s = dq.popleft()
            if todo.get(s):
                goal = s
                break
            for i in out.get(s, []):
                t = edges[i]["qk"]
                if t not in prev:
                    prev[t] = (s, i)
                    dq.append(t)
        if goal is None:
            lines.append({"op": "Reset"})
            if cur == init:
                raise MachineryError("S->C: transitions left in states the tour cannot reach")
            cur, n_in_exec = init, 0
            continue
        path = []
        s = goal
        while prev[s] is not None:
            s, i = prev[s]
            path.append(i)
        for i in reversed(path):
            emit(i)
            nav += 1
            n_in_exec += 1
        cur = goal
    return lines, taken, nav


def compact_observed(trace_lines):
    """Per replayed call: (edge index, compact element events, result kind, post-state) as observed."""
    objs, cur, res = {}, None, []
    for l in trace_lines:
        op = l.get("op")
        if op == "Reset":
            objs, cur = {}, None
        elif op == "Begin":
            cur = {"e": l.get("e"), "ev": []}
        elif cur is None:
            continue
        elif op == "ECtor":
            objs[l["id"]] = {"alt": l["alt"], "home": l["home"], "val": l["val"]}
            if l["kind"] == "move" and l["src"] in objs:
                objs[l["src"]]["val"] = -1
            cur["ev"].append(["C", l["alt"], l["kind"], l["home"], l["val"]])
        elif op == "EDtor":
            o = objs.pop(l["id"], {"alt": -9, "home": -9, "val": -9})
            cur["ev"].append(["D", o["alt"], o["home"], o["val"]])
        elif op == "EAssign":
            o = objs.get(l["dst"], {"alt": -9, "home": -9, "val": -9})
            cur["ev"].append(["A", o["alt"], l["kind"], o["home"], l["val"]])
            o["val"] = l["val"]
            if l["kind"] == "move" and l["src"] in objs:
                objs[l["src"]]["val"] = -1
        elif op == "EThrow":
            cur["ev"].append(["T", l["at"], l["alt"], l["kind"]])
        elif op == "End":
            cur["r"] = l["res"]["exc"]
            cur["q"] = [abs_of(s) for s in l["st"]]
            res.append(cur)
            cur = None
    return res


def abs_of(s):
    if not s["p"]:
        return {"s": "absent", "alt": -1, "val": 0, "id": 0}
    if s["index"] == -1:
        return {"s": "valueless", "alt": -1, "val": 0, "id": 0}
    return {"s": "holds", "alt": s["index"], "val": s["val"], "id": 0}


# ------------------------------------------------------------------ validation
def begin_lines(execution):
    """A replay file holds the calls only: Reset and Begin lines."""
    out = []
    for x in execution:
        try:
            d = json.loads(x) if isinstance(x, str) else x
        except Exception:
            continue
        if d.get("op") in ("Reset", "Begin"):
            out.append(json.dumps(d, separators=(",", ":")))
    return out


def validate_file(ctx, path, aset, max_restarts=2):
    """Validate one trace file.  First with the standard's per-operation exception guarantees demanded
    (Strict); if that rejects, the file is validated again from the rejected execution onwards under the
    property statement's own rule, which alone decides violations.
    Returns (events matched, strict-only rejection (event text) or None, list of rejections under the
    property rule: dict(path, execution (lines up to and including the rejected event)))."""
    r = core.validate_trace(ctx, TRACE_MOD, SETS[aset]["strict"], path, explain=False)
    if r["accepted"]:
        return r["matched"], None, []
    with open(path) as f:
        lines = [l.rstrip("\n") for l in f if l.strip()]
    idx = r["fail_line"]
    strict_event = lines[idx] if idx < len(lines) else "?"
    start = idx
    while start > 0 and not lines[start].lstrip().startswith('{"op":"Reset"'):
        start -= 1
    matched = start
    rejections = []
    strict_only = None
    rest = lines[start:]
    for attempt in range(max_restarts + 1):
        cur = "%s.weak%d" % (path, attempt)
        with open(cur, "w") as f:
            f.write("\n".join(rest) + "\n")
        w = core.validate_trace(ctx, TRACE_MOD, SETS[aset]["weak"], cur, explain=False)
        matched += w["matched"]
        if attempt == 0 and (w["accepted"] or w["fail_line"] > idx - start):
            strict_only = strict_event          # the property's rule accepts what Strict rejected
        if w["accepted"]:
            break
        fl = w["fail_line"]
        rejections.append({"path": path, "execution": core.execution_of(rest, fl)})
        nxt = fl + 1
        while nxt < len(rest) and not rest[nxt].lstrip().startswith('{"op":"Reset"'):
            nxt += 1
        if nxt >= len(rest):
            break
        rest = rest[nxt:]
    return matched, strict_only, rejections


def rerun_and_validate(ctx, calls, tag):
    """A rejection is reported only if it repeats: run the calls again on the same build flavour of the driver,
    validate under the property's rule of the flavour's alternative set."""
    fl = flavour_of(calls)
    d = ctx.sub("recheck")
    sp, tp = os.path.join(d, tag + ".script"), os.path.join(d, tag + ".ndjson")
    write_script(sp, calls)
    run_script(ctx, build_flavour(ctx, fl), sp, tp)
    return core.validate_trace(ctx, TRACE_MOD, SETS[FLAVOURS[fl]["set"]]["weak"], tp, explain=True)


def classify_known(findings, execution):
    calls = [json.loads(x) for x in execution if '"op":"Begin"' in x]
    lastc = calls[-1] if calls else {}
    for k in findings:
        m = k.get("match", {})
        if m and all(lastc.get(x) == y or lastc.get("a", {}).get(x) == y for x, y in m.items()):
            return "%s (%s)" % (k["key"], k["what"])
    return None


MAX_REPORTED = 4      # violations confirmed (re-run, explained, replay written); further rejections are only counted


def rejection_kind(execution):
    """What distinguishes one rejection from another for the purpose of reporting a handful of distinct ones:
    the rejected event's kind, the call it belongs to and the call's outcome."""
    try:
        bad = json.loads(execution[-1])
    except Exception:
        return ("?",)
    call = {}
    for x in reversed(execution):
        if '"op":"Begin"' in x:
            call = json.loads(x)
            break
    a = call.get("a", {})
    return (bad.get("op"), call.get("c"), a.get("ak"), a.get("rel"), a.get("mode"), a.get("q"), (bad.get("res") or {}).get("exc"))


def validate_all(ctx, items, findings):
    """items: (name, flavour, trace path).  One single-worker TLC per trace file."""
    with ThreadPoolExecutor(max_workers=max(1, core.NCPU)) as ex:
        results = list(ex.map(lambda it: validate_file(ctx, it[2], FLAVOURS[it[1]]["set"]), items))
    advisories, unreported, kinds = 0, 0, set()
    pending = []
    for n, (matched, strict_only, rejections) in enumerate(results):
        ctx.cov["events_validated"] += matched
        if strict_only:
            advisories += 1
            if advisories <= 3:
                ctx.drift.append("std exception-safety guarantee (Strict rule of Variant.tla) not met while the property's rule is satisfied: "
                                 "%s of %s" % (strict_only[:300], os.path.basename(items[n][2])))
        for j, rj in enumerate(rejections):
            key = classify_known(findings, rj["execution"])
            if key:
                if key not in ctx.known:
                    ctx.known.append(key)
                continue
            pending.append((n, j, rj))
    # report a handful of DISTINCT rejections first (one per kind), then fill up; the rest is only counted
    pending.sort(key=lambda t: (len(t[2]["execution"]), t[0], t[1]))
    chosen, rest = [], []
    for t in pending:
        k = rejection_kind(t[2]["execution"])
        (chosen if k not in kinds else rest).append(t)
        kinds.add(k)
    nbefore = len(ctx.violations)        # (violations of the compile-time table are reported besides these)
    for n, j, rj in (chosen + rest):
        if len(ctx.violations) - nbefore >= MAX_REPORTED:
            unreported += 1
            continue
        calls = begin_lines(rj["execution"])
        bad = rj["execution"][-1]
        again = rerun_and_validate(ctx, calls, "t%d-%d" % (n, j))
        if again["accepted"]:
            raise MachineryError("non-reproducible rejection in %s (accepted when the calls were run again): %s"
                                 % (rj["path"], bad[:300]))
        text = "[%s] trace rejected by Variant.tla (L1) at event %d of an execution in %s: %s ; spec state: %s" % (
            flavour_of(calls), len(rj["execution"]), os.path.basename(rj["path"]), bad[:900], (again.get("expected") or "?")[:1500])
        ctx.violation(text, replay_lines=calls)
    ctx.notes["trace_files_with_strict_only_rejections"] = advisories
    ctx.notes["rejected_executions"] = len(pending)
    ctx.notes["distinct_rejection_kinds"] = len(kinds)
    if unreported:
        ctx.notes["further_rejected_executions_not_replayed"] = unreported
        ctx.log("%d further rejected executions (not replayed)" % unreported)
    return results


L1_DISJUNCTS = ["ECtor(value)", "ECtor(copy|move)", "EDtor", "EAssign(value)", "EAssign(copy|move|self)", "EThrow", "End"]


def disjunct_coverage(out, names):
    """-coverage 1 lists the disjuncts of Next of Variant.tla by source position: name them in order."""
    rows = {}
    for m in re.finditer(r"^<Next line \d+, col \d+ to line \d+, col \d+ of module Variant \((\d+) \d+ \d+ \d+\)>: (\d+):(\d+)", out, re.M):
        rows[int(m.group(1))] = [int(m.group(2)), int(m.group(3))]       # the last report wins
    return {names[i] if i < len(names) else "disjunct@%d" % ln: rows[ln] for i, ln in enumerate(sorted(rows))}


# ------------------------------------------------------------------ L2 counterexample -> script
def counterexample_calls(out):
    """Begin events of a TLC error trace of VariantImpl (value of the variable ev)."""
    calls = []
    for m in re.finditer(r"^/\\ ev = (\[.*?\])\s*(?=^/\\ |\Z)", out, re.S | re.M):
        try:
            v = tlaval.parse_value(m.group(1))
        except Exception:
            continue
        if isinstance(v, dict) and v.get("op") == "Begin":
            calls.append(begin(v["c"], v["a"], v["fuse"]))
    return calls


def replay(ctx, path):
    """./verif replay C05 <file>: re-run the recorded calls on the current tree (same build flavour of the driver,
    named in the Reset lines) and validate against L1."""
    raw = core.read_ndjson(path)
    if any("probe" in l for l in raw):          # a row of the compile-time table
        return c05_probe.replay(ctx, [l["probe"] for l in raw if "probe" in l], path)
    lines = [l for l in raw if "_meta" not in l and l.get("op") in ("Reset", "Begin")]
    fl = flavour_of(lines)
    drv = build_flavour(ctx, fl)
    sp, tp = os.path.join(ctx.work, "replay.script"), os.path.join(ctx.work, "replay.ndjson")
    write_script(sp, lines)
    run_script(ctx, drv, sp, tp)
    r = core.validate_trace(ctx, TRACE_MOD, SETS[FLAVOURS[fl]["set"]]["weak"], tp)
    if r["accepted"]:
        print("replay accepted: the recorded calls now conform to Variant.tla")
        return 0
    with open(tp) as f:
        tl = [l.rstrip("\n") for l in f if l.strip()]
    print("VIOLATION property=C05 replay=%s" % path)
    print("  [%s] rejected at event %d: %s\n  spec state: %s" % (fl, r["fail_line"] + 1, tl[r["fail_line"]][:600] if r["fail_line"] < len(tl) else "?", r.get("expected")))
    return 1


def selftest(ctx):
    """./verif selftest C05: the trace spec accepts a recorded execution of the current tree and rejects it,
    at exactly the changed line, when one logged field is corrupted or one event is removed."""
    drv = build_flavour(ctx, "mixed")
    d = ctx.sub("selftest")
    sp, tp = os.path.join(d, "s.script"), os.path.join(d, "good.ndjson")
    write_script(sp, random_script(ctx.seed, 6, 40))
    run_script(ctx, drv, sp, tp)
    with open(tp) as f:
        lines = [l.rstrip("\n") for l in f if l.strip()]

    def variant(name, edit):
        out = list(lines)
        for i in range(len(out) // 2, len(out)):
            dct = json.loads(out[i])
            r = edit(dct)
            if r is not None:
                if r == "delete":
                    del out[i]
                else:
                    out[i] = json.dumps(dct, separators=(",", ":"))
                p = os.path.join(d, name + ".ndjson")
                with open(p, "w") as f:
                    f.write("\n".join(out) + "\n")
                return p, i
        raise MachineryError("selftest: no event to corrupt for " + name)

    def e_val(x):
        if x["op"] == "End" and x["st"][0]["p"] and x["st"][0]["index"] > 0:
            x["st"][0]["val"] += 1
            return True

    def e_index(x):
        if x["op"] == "End" and x["st"][1]["p"] and x["st"][1]["index"] >= 0:
            x["st"][1]["index"] = (x["st"][1]["index"] + 1) % 4
            return True

    def e_exc(x):
        if x["op"] == "End" and x["res"]["exc"] == "injected":
            x["res"]["exc"] = "none"
            return True

    def e_dtor(x):
        if x["op"] == "EDtor":
            x["id"] += 1000
            return True

    def e_remove(x):
        if x["op"] == "EDtor":
            return "delete"

    def e_crash(x):
        if x["op"] == "Begin":
            x.clear()
            x.update({"op": "Crash", "why": "selftest"})
            return True

    ok = True
    r = core.validate_trace(ctx, TRACE_MOD, CFG_WEAK, tp, explain=False)
    print("recorded trace (%d events): %s" % (len(lines), "accepted" if r["accepted"] else "REJECTED at %d" % (r["fail_line"] + 1)))
    ok &= r["accepted"]
    for name, edit in (("value", e_val), ("index", e_index), ("exception", e_exc), ("dtor-id", e_dtor), ("removed-dtor", e_remove),
                       ("crash-event", e_crash)):
        p, i = variant(name, edit)
        r = core.validate_trace(ctx, TRACE_MOD, CFG_WEAK, p, explain=False)
        good = (not r["accepted"]) and (r["fail_line"] == i or (name == "removed-dtor" and r["fail_line"] >= i))
        print("corrupted %-13s at line %d: %s" % (name, i + 1, "rejected at line %d" % (r["fail_line"] + 1) if not r["accepted"] else "ACCEPTED"))
        ok &= good
    print("selftest", "ok" if ok else "FAILED")
    return 0 if ok else 2


STATELESS = ("XRef", "Mono", "Nest", "Up")


def run(ctx):
    q = ctx.quick
    findings = core.load_findings("C05")
    rnd = random.Random(ctx.seed)
    flavours = [fl for fl, f in FLAVOURS.items() if ctx.tier in f["tiers"]]
    pool = ThreadPoolExecutor(max_workers=6)
    tlcpool = ThreadPoolExecutor(max_workers=2)     # at most two model-checking runs at a time (memory: ~4 GB heap each)

    # ---- 0. compile-time contract of the variant types (probe table enumerated by TLC): violations found here are
    #         reported even if the driver then does not build against the tree
    fut_probe = pool.submit(c05_probe.run, ctx)

    # ---- build the harness flavours from the working tree (in the background of the TLC runs)
    bpool = ThreadPoolExecutor(max_workers=max(1, min(4, core.NCPU // 2)))
    fut_build = {fl: bpool.submit(build_flavour, ctx, fl) for fl in flavours}

    wt = max(2, core.NCPU // 2)

    # ---- 2. L2 => L1 per alternative set, and 3. S->C enumeration (same state space: one TLC run checks the
    #         refinement and writes every call transition through the Emit action constraint)
    def l2(aset):
        S = SETS[aset]
        r2 = core.tlc_model_check(ctx, "VariantImpl", S["mc"][0 if q else 1],
                                  "L2 (mpark's algorithm, element-operation steps, fault fuse) refines L1, set %s" % aset,
                                  coverage=not q, workers=wt, timeout=1500, heap="4g")
        cex = []
        if r2["violated"]:
            ctx.drift.append("VariantImpl.tla (set %s) does not refine Variant.tla (%s); see %s" % (aset, r2["violated"], r2["outfile"]))
            cex = counterexample_calls(r2["out"])
        cov = r2.get("coverage", {})
        all_edges = emitted(r2["out"])
        if r2["violated"] or not all_edges:
            # the refinement run stopped early: enumerate the transitions without checking properties
            r3 = core.tlc(ctx, "VariantImpl", S["s2c"][0 if q else 1], name="s2c-enumerate-" + aset,
                          workers=wt, timeout=1500, heap="4g")
            if r3["violated"]:
                raise MachineryError("S->C enumeration failed: %s" % r3["outfile"])
            all_edges = emitted(r3["out"])
            r3["out"] = ""
        r2["out"] = ""
        return cov, cex, all_edges

    fut_l2 = {aset: tlcpool.submit(l2, aset) for aset in SETS}      # (mixed, td, triv: in this order)
    # ---- 1. L1 alone (after the L2 runs, which the scripts wait for)
    fut_l1 = [tlcpool.submit(core.tlc_model_check, ctx, "VariantMC", "Variant_mc_quick.cfg" if q else "Variant_mc_thorough.cfg",
                             "L1 theorems under an arbitrary implementation, set mixed", coverage=not q, workers=wt, timeout=1500)]
    if not q:
        fut_l1.append(tlcpool.submit(core.tlc_model_check, ctx, "VariantMC", "Variant_mc_td.cfg",
                                     "L1 theorems under an arbitrary implementation, set td", workers=wt, timeout=1500))
    tours, l2cov = {}, {}
    for aset in SETS:
        cov, cex, all_edges = fut_l2[aset].result()
        l2cov[aset] = cov
        # TLC's workers print the transitions in no fixed order: sort, so that the tour depends on VERIF_SEED only
        all_edges.sort(key=lambda e: json.dumps([e["p"], e["c"], e["a"], e["f"]], sort_keys=True))
        # a fuse beyond the call's last throwing-capable operation never fires: same run as fuse 0
        edges = [e for e in all_edges if e["f"] == 0 or e["r"] != "none"]
        # stateless probes do not depend on the variants' state: keep them in three states only
        xstates = sorted({skey(e["p"]) for e in edges})[:3]
        edges = [e for e in edges if e["c"] not in STATELESS or skey(e["p"]) in xstates]
        tour, taken, nav = build_tour(edges, random.Random(ctx.seed * 31 + SETS[aset]["cset"]), SETS[aset]["tracked"], exec_len=120)
        tours[aset] = dict(edges=edges, tour=tour, cex=cex)
        ctx.notes["s2c_%s" % aset] = {"transitions_enumerated": len(all_edges), "transitions_distinct_behaviour": len(edges),
                                      "transitions_replayed": taken, "navigation_calls": nav,
                                      "abstract_states": len({skey(e["p"]) for e in edges}),
                                      "by_outcome": {k: sum(1 for e in edges if e["r"] == k) for k in ("none", "injected", "bad_variant_access")},
                                      "by_call": {c: sum(1 for e in edges if e["c"] == c) for c in sorted({e["c"] for e in edges})}}
        # round 4: what TLC enumerated of the payload-class / configuration axes (partially ordered payload values, throwing
        # constructors in the all-trivially-destructible alternative set) - measured on the transitions the tour replays
        ctx.notes["s2c_%s" % aset]["rel_on_unordered_value"] = sum(1 for e in edges if e["c"] == "Rel" and any(x["val"] == UNORD for x in e["p"]))
        ctx.notes["s2c_%s" % aset]["valueless_pre_states"] = len({skey(e["p"]) for e in edges if any(x["s"] == "valueless" for x in e["p"])})
        ctx.log("S->C %s: %d call transitions enumerated by TLC (%d with distinct behaviour, %d abstract states); tour of %d calls (+%d navigation)"
                % (aset, len(all_edges), len(edges), ctx.notes["s2c_%s" % aset]["abstract_states"], taken, nav))

    nt = ctx.notes["s2c_triv"]
    if nt["rel_on_unordered_value"] == 0 or nt["by_outcome"]["injected"] == 0 or nt["valueless_pre_states"] == 0:
        raise MachineryError("vacuous model: set triv enumerates no relational operator on an unordered payload value (%d) / no throwing "
                             "constructor of a trivially destructible alternative (%d) / no valueless state (%d)"
                             % (nt["rel_on_unordered_value"], nt["by_outcome"]["injected"], nt["valueless_pre_states"]))
    # ---- scripts: (name, flavour, lines)
    scripts = []
    nch = 6 if q else 12
    for fl in flavours:
        aset = FLAVOURS[fl]["set"]
        t = tours[aset]
        if FLAVOURS[fl].get("tour", True) is False:
            continue                                   # (optimisation-level flavours run the random scripts only)
        for i, ch in enumerate(chunk_by_reset(with_flavour(t["tour"], fl), nch)):
            scripts.append(("s2c-%s-%02d" % (fl, i), fl, ch))
        if t["cex"] and fl == aset:
            scripts.append(("l2-counterexample-" + aset, fl, [reset_line(fl)] + t["cex"]))
    # ---- 4. C->S random scripts
    RANDOM = {"mixed": (500, 40), "td": (300, 40), "triv": (100, 40), "mixed-table": (200, 40)} if q else \
             {"mixed": (3000, 80), "td": (2000, 80), "triv": (300, 80), "mixed-table": (600, 80), "td-table": (400, 80), "triv-table": (100, 80),
              "mixed-clang": (600, 80), "td-clang": (400, 80), "triv-clang": (100, 80), "mixed-O2": (600, 80), "mixed-O0": (400, 80)}
    ncalls_rnd, sample_rnd = 0, None
    for fl in flavours:
        nexec, nops = RANDOM.get(fl, (100, 40))
        rlines = random_script(ctx.seed, nexec, nops, fl)
        sample_rnd = sample_rnd or rlines
        ncalls_rnd += sum(1 for l in rlines if l["op"] == "Begin")
        for i, ch in enumerate(chunk_by_reset(rlines, max(1, min(nch * 2, nexec // (60 if q else 150))))):
            scripts.append(("rnd-%s-%02d" % (fl, i), fl, ch))
    # ---- probes of open known findings
    for fnd in findings:
        if "probe" in fnd:
            scripts.append(("probe-" + fnd["id"], "mixed", fnd["probe"]["script"]))

    # ---- the driver builds; a driver that does not build against this tree is a machinery error unless the compile-time
    #      table has already shown why
    fut_probe.result()
    drivers = {}
    try:
        for fl in flavours:
            drivers[fl] = fut_build[fl].result()
    except MachineryError as e:
        if ctx.violations:
            ctx.log("the conformance driver does not build against this tree (%s); reporting the violations of the compile-time table" % str(e)[:300])
            ctx.notes["driver_build"] = "failed: " + str(e)[:1500]
            pool.shutdown()
            bpool.shutdown()
            return finish(ctx, q)
        raise

    # ---- run the harness
    tdir = ctx.sub("traces")

    def one(item):
        name, fl, lines = item
        sp, tp = os.path.join(tdir, name + ".script"), os.path.join(tdir, name + ".ndjson")
        write_script(sp, lines)
        ncrash, _ = run_script(ctx, drivers[fl], sp, tp)
        return tp, ncrash
    with ThreadPoolExecutor(max_workers=max(2, core.NCPU)) as ex:
        ran = list(ex.map(one, scripts))
    traces = [t for t, _ in ran]
    ctx.log("harness: %d scripts executed under ASan+LSan on %d build flavours (%s)" % (len(scripts), len(flavours), ", ".join(flavours)))
    ctx.cov["traces_validated_against_impl"] = sum(1 for _, _, ls in scripts for l in ls if l["op"] == "Reset")
    ctx.sample({"s2c_script": [json.dumps(x) for x in scripts[0][2][:10]]})
    ctx.sample({"random_script": [json.dumps(x) for x in (sample_rnd or [])[:10]]})

    # ---- L2 drift: the element events of every replayed transition against L2's prediction
    ndrift, ncmp, ncalls = 0, 0, 0
    by_call, by_event, by_flavour = {}, {}, {}
    seen = {"valueless_states": 0, "throws": 0, "bad_variant_access": 0, "crashes": sum(n for _, n in ran)}
    for (name, fl, _), tp in zip(scripts, traces):
        tl = core.read_ndjson(tp)
        nend = sum(1 for l in tl if l.get("op") == "End")
        ncalls += nend
        by_flavour[fl] = by_flavour.get(fl, 0) + nend
        for l in tl:                                   # what the recorded executions actually exercised (vacuity)
            op = l.get("op")
            by_event[op] = by_event.get(op, 0) + 1
            if op == "Begin":
                key = l["c"] + ("/" + l["a"]["ak"] if l["a"].get("ak") in ("ilist", "multi") else "")
                by_call[key] = by_call.get(key, 0) + 1
            elif op == "End":
                seen["valueless_states"] += sum(1 for x in l["st"] if x["p"] and x["index"] == -1)
                seen["throws"] += l["res"]["exc"] == "injected"
                seen["bad_variant_access"] += l["res"]["exc"] == "bad_variant_access"
        if not name.startswith("s2c-"):
            continue
        edges = tours[FLAVOURS[fl]["set"]]["edges"]
        for ob in compact_observed(tl):
            if ob.get("e") is None:
                continue
            e = edges[ob["e"]]
            ncmp += 1
            if ob["ev"] != e["ev"] or ob.get("r") != e["r"] or ob.get("q") != e["q"]:
                ndrift += 1
                if ndrift <= 3:
                    ctx.drift.append("[%s] VariantImpl.tla predicts %s -> %s %s for %s(%s) fuse %d from %s; the code did %s -> %s %s"
                                     % (fl, e["ev"], e["r"], e["q"], e["c"], e["a"], e["f"], e["p"], ob["ev"], ob.get("r"), ob.get("q")))
    ctx.notes["l2_event_sequences_compared"] = ncmp
    ctx.notes["l2_event_sequence_mismatches"] = ndrift
    ctx.notes["calls_executed"] = ncalls
    ctx.notes["calls_by_flavour"] = by_flavour
    ctx.notes["calls_by_kind"] = by_call
    ctx.notes["events_by_kind"] = by_event
    ctx.notes["outcomes_seen"] = seen
    ctx.notes["random_calls_scripted"] = ncalls_rnd
    with open(traces[0]) as f:
        ctx.sample({"trace": [l.strip()[:400] for _, l in zip(range(6), f)]})

    for f in fut_l1:
        r1 = f.result()
        if r1["violated"]:
            raise MachineryError("L1 spec Variant.tla violates its own theorem %s (oracle bug), see %s" % (r1["violated"], r1["outfile"]))
        if not q and r1["cfg"] == "Variant_mc_thorough.cfg":
            cov1 = dict(r1.get("coverage", {}))
            cov1.update(disjunct_coverage(r1["out"], L1_DISJUNCTS))
            ctx.notes["l1_action_coverage"] = cov1
        r1["out"] = ""
    if not q:
        ctx.notes["l2_action_coverage"] = l2cov
        vac = sorted(set(k for cov in [ctx.notes.get("l1_action_coverage", {})] + [l2cov["mixed"], l2cov["td"]] for k, v in cov.items()
                         if v[1] == 0 and k[0].isupper() and k not in ("TypeOK", "Quiescent", "RelLaws", "RepInv")))
        ctx.notes["vacuous_actions"] = vac

    ctx.log("L2 drift comparison done (%d calls); validating traces against L1" % ncmp)
    # ---- validate every trace against L1
    validate_all(ctx, [(n, fl, tp) for (n, fl, _), tp in zip(scripts, traces)], findings)
    ctx.cov["evaluations"] = ctx.cov["events_validated"]
    ctx.log("validated %d events of %d calls in %d traces (%d executions); L2 event sequences compared: %d, mismatches: %d"
            % (ctx.cov["events_validated"], ncalls, len(traces), ctx.cov["traces_validated_against_impl"], ncmp, ndrift))
    # round 3 material must have been exercised: relational operators on unordered payload values; a throw from the value
    # constructor / assignment of the trivially destructible alternative 3 of set triv
    n_unord_rel, n_triv_throw = 0, 0
    for (n, fl, _), tp in zip(scripts, traces):
        if not n.startswith("rnd-"):
            continue
        unord_held = False
        with open(tp) as f:
            for line in f:
                if FLAVOURS[fl]["set"] == "triv" and line.startswith('{"op":"EThrow"') and '"alt":3,"kind":"value"' in line:
                    n_triv_throw += 1
                if line.startswith('{"op":"End"'):
                    unord_held = '"val":%d' % UNORD in line
                elif unord_held and line.startswith('{"op":"Begin","c":"Rel"'):
                    n_unord_rel += 1
    ctx.notes["relational_calls_with_an_unordered_value_held"] = n_unord_rel
    ctx.notes["throws_from_the_trivially_destructible_alternative"] = n_triv_throw
    if not ctx.violations and (n_unord_rel == 0 or n_triv_throw == 0):
        raise MachineryError("vacuous run: no relational operator on an unordered value (%d) / no throw from the trivial alternative (%d)" % (n_unord_rel, n_triv_throw))
    if not ctx.violations and (seen["throws"] == 0 or seen["valueless_states"] == 0):
        raise MachineryError("vacuous run: no injected throw / no valueless variant was observed")
    pool.shutdown()
    bpool.shutdown()
    tlcpool.shutdown()
    return finish(ctx, q)


def finish(ctx, q):
    return core.finish(
        ctx, "model_checking",
        rule="TLC: L2 (mpark's algorithm at element-operation granularity) refines L1 for every reachable state x call x fuse position, "
             "2 variants x 4 alternatives, for the alternative sets mixed {int, NT, TM, TM2} and td {TD, NT, TM, int} (values %s, fuse 0..%d) "
             "and triv {int, Tv1, Tv2, Tv3} (values {1,2}), identities modulo renaming (exhaustive in these bounds, any number of calls); "
             "L1 alone under an arbitrary implementation (<= 2 element events per call). Every distinct L2 call transition is replayed on real "
             "xtl::variant objects in a transition tour on every build flavour of its set (%s) and validated by TLC against L1; seeded random "
             "call sequences (fuse probability 0.3) likewise. Compile-time contract (noexcept / triviality / converting-constructor overload "
             "resolution / API signatures) as a TLC-enumerated table of static_asserts. A case is one event (element event or End with the full "
             "projection) checked by TLC."
             % ("{1}" if q else "{1,2}", 3 if q else 4, ", ".join(fl for fl, f in FLAVOURS.items() if ctx.tier in f["tiers"])),
        assumptions=["payload types are harness fixtures: a throwing element operation throws before it changes anything; a move leaves MOVED",
                     "the projection is read through the public API (index, valueless_by_exception, holds_alternative, get_if) and the harness's address registry",
                     "the table flavour presents __cpp_constexpr as 200704 to select the header's non-C++14-constexpr code with a C++14 compiler",
                     "not exercised: MPARK_NO_EXCEPTIONS / XTL_NO_EXCEPTIONS builds (no fault sequences exist there), alternatives that are trivially "
                     "destructible but not trivially copyable (their destruction cannot be observed), more than 4 alternatives (the switch "
                     "dispatcher's 32-case blocks), MSVC branches of the header"],
        exhaustive=False)

"""C05 - xtl::variant (mpark) holds one live alternative or is valueless; lifetimes balance.

 1. TLC: Variant.tla (L1) alone - an arbitrary implementation (any element events the lifetime rules
    allow) - satisfies the spec's own theorems (Quiescent, ValuelessOnlyAfterThrow, ObserversPure, RelLaws).
 2. TLC: VariantImpl.tla (L2, mpark's algorithm at element-operation granularity with a fault fuse)
    refines L1 for every reachable state x call x fuse position (identities modulo renaming).
 3. S->C: TLC writes every call transition of L2 (abstract pre-state, call, fuse, post-state, element
    events); a transition tour over that graph is replayed on real xtl::variant<int,NT,TM,TM2> objects
    (syntactic forms varied); the recorded traces are validated by TLC against L1 (verdict) and compared
    with L2's predicted element events (advisory MODEL-DRIFT).
 4. C->S: seeded random call sequences with fuse probability ~0.3, validated by TLC against L1 at every
    element event and every End.
 Validation runs with the standard's per-operation exception guarantees switched on (Strict); a rejection
 is re-validated under the property statement's own rule: only if that rejects too it is a VIOLATION,
 otherwise it is reported as an advisory note.
"""
import json, os, random, re, subprocess
from collections import deque
from concurrent.futures import ThreadPoolExecutor
from vlib import core, tlaval
from vlib.core import MachineryError

TRACE_MOD = "VariantTrace"
CFG_STRICT = "VariantTrace_strict.cfg"
CFG_WEAK = "VariantTrace.cfg"
TRACKED = (1, 2, 3)


# ------------------------------------------------------------------ scripts
def begin(c, a, fuse=0, **extra):
    d = {"op": "Begin", "c": c, "a": a, "fuse": fuse}
    d.update(extra)
    return d


def write_script(path, lines):
    with open(path, "w") as f:
        for l in lines:
            f.write(json.dumps(l, separators=(",", ":")) + "\n")


def run_script(ctx, drv, script_path, trace_path):
    env = dict(os.environ)
    env.update(core.ASAN_ENV)
    with open(script_path) as fin, open(trace_path, "w") as fout:
        p = subprocess.run([drv], stdin=fin, stdout=fout, stderr=subprocess.PIPE, env=env, timeout=1800)
    if p.returncode == 3:
        raise MachineryError("harness rejected script %s: %s" % (script_path, p.stderr.decode(errors="replace")[-500:]))
    return p.returncode, p.stderr.decode(errors="replace")


def chunk_by_reset(lines, nchunks):
    starts = [i for i, l in enumerate(lines) if l["op"] == "Reset"]
    if not starts:
        return [lines]
    per = max(1, (len(starts) + nchunks - 1) // nchunks)
    cuts = starts[::per]
    return [lines[a:b] for a, b in zip(cuts, cuts[1:] + [len(lines)])]


# ------------------------------------------------------------------ C->S: random scripts
class Gen:
    """Seeded random call sequences.  Tracks only which variant exists (optimistically: a constructor
    with an armed fuse may have thrown; the harness skips a call whose object does not exist / already
    exists, so a wrong guess costs one script line).  It predicts no results."""

    def __init__(self, rnd):
        self.r = rnd
        self.present = [False, False]

    def fuse(self):
        return self.r.choice([1, 1, 1, 2, 2, 3]) if self.r.random() < 0.3 else 0

    def valued(self):
        r = self.r
        alt = r.choice([0, 1, 1, 2, 2, 3])
        ak = "value" if alt == 0 else r.choice(["value", "value", "copy", "move", "ilist"])
        return alt, r.randrange(0, 4), ak

    def step(self):
        r = self.r
        k = r.randrange(2)
        o = 1 - k
        K, O = k + 1, o + 1
        for _ in range(100):
            x = r.random()
            if not self.present[k]:
                if x < 0.7:
                    t = r.random()
                    f = self.fuse() if r.random() < 0.5 else 0
                    if t < 0.15:
                        self.present[k] = True
                        return begin("CtorDefault", {"k": K}, 0)
                    if t < 0.7:
                        alt, val, ak = self.valued()
                        form = r.choice(["conv", "index", "type"])
                        if ak == "ilist" and form == "conv":
                            form = "index"
                        throws = f == 1 and alt != 0 and (ak in ("value", "ilist", "copy") or alt in (2, 3))
                        self.present[k] = not throws
                        return begin("CtorValue", {"k": K, "alt": alt, "val": val, "ak": ak, "form": form}, f)
                    if self.present[o]:
                        self.present[k] = f != 1
                        return begin(r.choice(["CtorCopy", "CtorMove"]), {"k": K, "o": O}, f)
                k, o, K, O = o, k, O, K
                continue
            if x < 0.04:
                self.present[k] = False
                return begin("Destroy", {"k": K}, 0)
            if x < 0.20:
                alt, val, ak = self.valued()
                return begin("Emplace", {"k": K, "alt": alt, "val": val, "ak": ak, "form": r.choice(["index", "type"])}, self.fuse())
            if x < 0.36:
                alt, val, ak = self.valued()
                if ak == "ilist":
                    ak = "value"
                return begin("ConvAssign", {"k": K, "alt": alt, "val": val, "ak": ak}, self.fuse())
            if x < 0.46 and self.present[o]:
                return begin(r.choice(["CopyAssign", "MoveAssign"]), {"k": K, "o": O}, self.fuse())
            if x < 0.48:
                return begin("CopyAssign", {"k": K, "o": K}, self.fuse())
            if x < 0.60 and self.present[o]:
                return begin("Swap", {"k": K, "o": O, "form": r.choice(["member", "free"])}, self.fuse())
            if x < 0.62:
                return begin("Swap", {"k": K, "o": K, "form": r.choice(["member", "free"])}, self.fuse())
            if x < 0.70:
                alt = r.randrange(4)
                if r.random() < 0.3:
                    return begin("XGet", {"k": K, "alt": alt, "ref": r.choice(["l", "cl", "r", "cr"])})
                return begin("Get", {"k": K, "alt": alt, "form": r.choice(["index", "type"]), "ref": r.choice(["l", "cl", "r", "cr"])})
            if x < 0.76:
                return begin("GetIf", {"k": K, "alt": r.randrange(4), "form": r.choice(["index", "type"]), "c": r.randrange(2),
                                       "null": 1 if r.random() < 0.1 else 0})
            if x < 0.86 and self.present[o]:
                return begin("Rel", {"k": K, "o": r.choice([K, O, O]), "rel": r.choice(["eq", "ne", "lt", "gt", "le", "ge"])})
            if x < 0.97:
                n = r.choice([0, 1, 1, 2, 2, 3, 3])
                pool = [K] + ([O] if self.present[o] else [])
                return begin("Visit", {"ks": [r.choice(pool) for _ in range(n)], "c": r.randrange(2)})
            held = r.choice(["ref", "cref", "other"])
            return begin("XRef", {"held": held, "want": r.choice(["ref", "cref"]), "ref": r.choice(["l", "cl", "r", "cr"]),
                                  "list": 3 if held == "cref" else r.choice([2, 3]), "val": r.randrange(0, 9)})
        return begin("Visit", {"ks": [], "c": 0})


def random_script(seed, nexec, nops):
    rnd = random.Random(seed * 7919 + 5)
    lines = []
    for _ in range(nexec):
        g = Gen(rnd)
        lines.append({"op": "Reset"})
        for _ in range(nops):
            lines.append(g.step())
        for k in (1, 2):          # end every execution with both variants destroyed: nothing may stay alive
            lines.append(begin("Destroy", {"k": k}, 0))
    return lines


# ------------------------------------------------------------------ S->C: tour over L2's call graph
def emitted(out):
    res = []
    for line in out.splitlines():
        if line.startswith('"@E@'):
            res.append(json.loads(json.loads(line)[3:]))
    return res


def skey(p):
    return json.dumps(p, sort_keys=True)


def vary_forms(c, a, rnd):
    """The model checker explores one syntactic form per call; the forms mean the same in the spec."""
    a = dict(a)
    if c == "CtorValue":
        a["form"] = rnd.choice(["conv", "index", "type"])
        if a["ak"] == "value" and a["alt"] in TRACKED and a["form"] != "conv" and rnd.random() < 0.3:
            a["ak"] = "ilist"
    elif c == "Emplace":
        a["form"] = rnd.choice(["index", "type"])
        if a["ak"] == "value" and a["alt"] in TRACKED and rnd.random() < 0.3:
            a["ak"] = "ilist"
    elif c == "Swap":
        a["form"] = rnd.choice(["member", "free"])
    elif c == "Get":
        a["ref"] = rnd.choice(["l", "cl", "r", "cr"])
        if rnd.random() < 0.3:
            a.pop("form", None)
            return "XGet", a
        a["form"] = rnd.choice(["index", "type"])
    elif c == "GetIf":
        a["form"] = rnd.choice(["index", "type"])
        a["c"] = rnd.randrange(2)
    elif c == "Visit":
        a["c"] = rnd.randrange(2)
    elif c == "XRef":
        a["ref"] = rnd.choice(["l", "cl", "r", "cr"])
    return c, a


def build_tour(edges, rnd, exec_len=150, limit=None):
    """A walk through L2's call graph that takes every transition at least once.  Returns script lines;
    each Begin line carries "e": index of the edge it replays."""
    init = None
    out = {}
    for i, e in enumerate(edges):
        e["pk"], e["qk"] = skey(e["p"]), skey(e["q"])
        out.setdefault(e["pk"], []).append(i)
        if all(x["s"] == "absent" for x in e["p"]):
            init = e["pk"]
    if init is None:
        raise MachineryError("S->C: no transition out of the initial state was emitted")
    todo = {k: list(v) for k, v in out.items()}
    for k in todo:
        rnd.shuffle(todo[k])
    remaining = sum(len(v) for v in todo.values())
    if limit and remaining > limit:      # quick tier: a seeded sample of the transitions (all states kept)
        frac = limit / float(remaining)
        for k in todo:
            keep = [i for i in todo[k] if edges[i]["r"] == "injected" or rnd.random() < frac]
            todo[k] = keep or todo[k][:1]
        remaining = sum(len(v) for v in todo.values())
    lines, cur, n_in_exec, taken, nav = [{"op": "Reset"}], init, 0, 0, 0

    def emit(i):
        e = edges[i]
        c, a = vary_forms(e["c"], e["a"], rnd)
        lines.append(begin(c, a, e["f"], e=i))

    while remaining:
        if n_in_exec >= exec_len:
            lines.append({"op": "Reset"})
            cur, n_in_exec = init, 0
        if todo.get(cur):
            i = todo[cur].pop()
            remaining -= 1
            emit(i)
            taken += 1
            n_in_exec += 1
            cur = edges[i]["qk"]
            continue
        # breadth-first search to the nearest state that still has transitions to take
        prev = {cur: None}
        dq = deque([cur])
        goal = None
        while dq:
            s = dq.popleft()
            if todo.get(s):
                goal = s
                break
            for i in out.get(s, []):
                t = edges[i]["qk"]
                if t not in prev:
                    prev[t] = (s, i)
                    dq.append(t)
        if goal is None:
            lines.append({"op": "Reset"})
            if cur == init:
                raise MachineryError("S->C: transitions left in states the tour cannot reach")
            cur, n_in_exec = init, 0
            continue
        path = []
        s = goal
        while prev[s] is not None:
            s, i = prev[s]
            path.append(i)
        for i in reversed(path):
            emit(i)
            nav += 1
            n_in_exec += 1
        cur = goal
    return lines, taken, nav


def compact_observed(trace_lines):
    """Per replayed call: (edge index, compact element events, result kind, post-state) as observed."""
    objs, cur, res = {}, None, []
    for l in trace_lines:
        op = l.get("op")
        if op == "Reset":
            objs, cur = {}, None
        elif op == "Begin":
            cur = {"e": l.get("e"), "ev": []}
        elif cur is None:
            continue
        elif op == "ECtor":
            objs[l["id"]] = {"alt": l["alt"], "home": l["home"], "val": l["val"]}
            if l["kind"] == "move" and l["src"] in objs:
                objs[l["src"]]["val"] = -1
            cur["ev"].append(["C", l["alt"], l["kind"], l["home"], l["val"]])
        elif op == "EDtor":
            o = objs.pop(l["id"], {"alt": -9, "home": -9, "val": -9})
            cur["ev"].append(["D", o["alt"], o["home"], o["val"]])
        elif op == "EAssign":
            o = objs.get(l["dst"], {"alt": -9, "home": -9, "val": -9})
            cur["ev"].append(["A", o["alt"], l["kind"], o["home"], l["val"]])
            o["val"] = l["val"]
            if l["kind"] == "move" and l["src"] in objs:
                objs[l["src"]]["val"] = -1
        elif op == "EThrow":
            cur["ev"].append(["T", l["at"], l["alt"], l["kind"]])
        elif op == "End":
            cur["r"] = l["res"]["exc"]
            cur["q"] = [abs_of(s) for s in l["st"]]
            res.append(cur)
            cur = None
    return res


def abs_of(s):
    if not s["p"]:
        return {"s": "absent", "alt": -1, "val": 0, "id": 0}
    if s["index"] == -1:
        return {"s": "valueless", "alt": -1, "val": 0, "id": 0}
    return {"s": "holds", "alt": s["index"], "val": s["val"], "id": 0}


# ------------------------------------------------------------------ validation
def begin_lines(execution):
    """A replay file holds the calls only: Reset and Begin lines."""
    out = []
    for x in execution:
        try:
            d = json.loads(x) if isinstance(x, str) else x
        except Exception:
            continue
        if d.get("op") in ("Reset", "Begin"):
            out.append(json.dumps(d, separators=(",", ":")))
    return out


def validate_file(ctx, path, max_restarts=2):
    """Validate one trace file.  First with the standard's per-operation exception guarantees demanded
    (Strict); if that rejects, the file is validated again from the rejected execution onwards under the
    property statement's own rule, which alone decides violations.
    Returns (events matched, strict-only rejection (event text) or None, list of rejections under the
    property rule: dict(path, execution (lines up to and including the rejected event)))."""
    r = core.validate_trace(ctx, TRACE_MOD, CFG_STRICT, path, explain=False)
    if r["accepted"]:
        return r["matched"], None, []
    with open(path) as f:
        lines = [l.rstrip("\n") for l in f if l.strip()]
    idx = r["fail_line"]
    strict_event = lines[idx] if idx < len(lines) else "?"
    start = idx
    while start > 0 and not lines[start].lstrip().startswith('{"op":"Reset"'):
        start -= 1
    matched = start
    rejections = []
    strict_only = None
    rest = lines[start:]
    for attempt in range(max_restarts + 1):
        cur = "%s.weak%d" % (path, attempt)
        with open(cur, "w") as f:
            f.write("\n".join(rest) + "\n")
        w = core.validate_trace(ctx, TRACE_MOD, CFG_WEAK, cur, explain=False)
        matched += w["matched"]
        if attempt == 0 and (w["accepted"] or w["fail_line"] > idx - start):
            strict_only = strict_event          # the property's rule accepts what Strict rejected
        if w["accepted"]:
            break
        fl = w["fail_line"]
        rejections.append({"path": path, "execution": core.execution_of(rest, fl)})
        nxt = fl + 1
        while nxt < len(rest) and not rest[nxt].lstrip().startswith('{"op":"Reset"'):
            nxt += 1
        if nxt >= len(rest):
            break
        rest = rest[nxt:]
    return matched, strict_only, rejections


def rerun_and_validate(ctx, drv, calls, tag):
    """A rejection is reported only if it repeats: run the calls again, validate under the property's rule."""
    d = ctx.sub("recheck")
    sp, tp = os.path.join(d, tag + ".script"), os.path.join(d, tag + ".ndjson")
    with open(sp, "w") as f:
        f.write("\n".join(calls) + "\n")
    run_script(ctx, drv, sp, tp)
    return core.validate_trace(ctx, TRACE_MOD, CFG_WEAK, tp, explain=True)


def classify_known(findings, execution):
    calls = [json.loads(x) for x in execution if '"op":"Begin"' in x]
    lastc = calls[-1] if calls else {}
    for k in findings:
        m = k.get("match", {})
        if m and all(lastc.get(x) == y or lastc.get("a", {}).get(x) == y for x, y in m.items()):
            return "%s (%s)" % (k["key"], k["what"])
    return None


MAX_REPORTED = 3      # violations confirmed (re-run, explained, replay written); further rejections are only counted


def validate_all(ctx, drv, traces, findings):
    with ThreadPoolExecutor(max_workers=max(1, core.NCPU)) as ex:      # one single-worker TLC per trace file
        results = list(ex.map(lambda p: validate_file(ctx, p), traces))
    advisories, unreported = 0, 0
    for n, (matched, strict_only, rejections) in enumerate(results):
        ctx.cov["events_validated"] += matched
        if strict_only:
            advisories += 1
            if advisories <= 3:
                ctx.drift.append("std exception-safety guarantee (Strict rule of Variant.tla) not met while the property's rule is satisfied: "
                                 "%s of %s" % (strict_only[:300], os.path.basename(traces[n])))
        for j, rj in enumerate(rejections):
            calls = begin_lines(rj["execution"])
            bad = rj["execution"][-1]
            key = classify_known(findings, rj["execution"])
            if key:
                if key not in ctx.known:
                    ctx.known.append(key)
                continue
            if len(ctx.violations) >= MAX_REPORTED:
                unreported += 1
                continue
            again = rerun_and_validate(ctx, drv, calls, "t%d-%d" % (n, j))
            if again["accepted"]:
                raise MachineryError("non-reproducible rejection in %s (accepted when the calls were run again): %s"
                                     % (rj["path"], bad[:300]))
            text = "trace rejected by Variant.tla (L1) at event %d of an execution in %s: %s ; spec state: %s" % (
                len(rj["execution"]), os.path.basename(rj["path"]), bad[:900], (again.get("expected") or "?")[:1500])
            ctx.violation(text, replay_lines=calls)
    ctx.notes["trace_files_with_strict_only_rejections"] = advisories
    if unreported:
        ctx.notes["further_rejected_executions_not_replayed"] = unreported
        ctx.log("%d further rejected executions (not replayed)" % unreported)
    return results



L1_DISJUNCTS = ["ECtor(value)", "ECtor(copy|move)", "EDtor", "EAssign(value)", "EAssign(copy|move|self)", "EThrow", "End"]


def disjunct_coverage(out, names):
    """-coverage 1 lists the disjuncts of Next of Variant.tla by source position: name them in order."""
    rows = {}
    for m in re.finditer(r"^<Next line \d+, col \d+ to line \d+, col \d+ of module Variant \((\d+) \d+ \d+ \d+\)>: (\d+):(\d+)", out, re.M):
        rows[int(m.group(1))] = [int(m.group(2)), int(m.group(3))]       # the last report wins
    return {names[i] if i < len(names) else "disjunct@%d" % ln: rows[ln] for i, ln in enumerate(sorted(rows))}


# ------------------------------------------------------------------ L2 counterexample -> script
def counterexample_calls(out):
    """Begin events of a TLC error trace of VariantImpl (value of the variable ev)."""
    calls = []
    for m in re.finditer(r"^/\\ ev = (\[.*?\])\s*(?=^/\\ |\Z)", out, re.S | re.M):
        try:
            v = tlaval.parse_value(m.group(1))
        except Exception:
            continue
        if isinstance(v, dict) and v.get("op") == "Begin":
            calls.append(begin(v["c"], v["a"], v["fuse"]))
    return calls


def replay(ctx, path):
    """./verif replay C05 <file>: re-run the recorded calls on the current tree and validate against L1."""
    lines = [l for l in core.read_ndjson(path) if "_meta" not in l and l.get("op") in ("Reset", "Begin")]
    drv = os.path.join(ctx.work, "variant_driver")
    core.build(ctx, os.path.join(core.HARNESS, "variant", "driver.cpp"), drv)
    sp, tp = os.path.join(ctx.work, "replay.script"), os.path.join(ctx.work, "replay.ndjson")
    write_script(sp, lines)
    run_script(ctx, drv, sp, tp)
    r = core.validate_trace(ctx, TRACE_MOD, CFG_WEAK, tp)
    if r["accepted"]:
        print("replay accepted: the recorded calls now conform to Variant.tla")
        return 0
    with open(tp) as f:
        tl = [l.rstrip("\n") for l in f if l.strip()]
    print("VIOLATION property=C05 replay=%s" % path)
    print("  rejected at event %d: %s\n  spec state: %s" % (r["fail_line"] + 1, tl[r["fail_line"]][:600] if r["fail_line"] < len(tl) else "?", r.get("expected")))
    return 1


def selftest(ctx):
    """./verif selftest C05: the trace spec accepts a recorded execution of the current tree and rejects it,
    at exactly the changed line, when one logged field is corrupted or one event is removed."""
    drv = os.path.join(ctx.work, "variant_driver")
    core.build(ctx, os.path.join(core.HARNESS, "variant", "driver.cpp"), drv)
    d = ctx.sub("selftest")
    sp, tp = os.path.join(d, "s.script"), os.path.join(d, "good.ndjson")
    write_script(sp, random_script(ctx.seed, 6, 40))
    run_script(ctx, drv, sp, tp)
    with open(tp) as f:
        lines = [l.rstrip("\n") for l in f if l.strip()]

    def variant(name, edit):
        out = list(lines)
        for i in range(len(out) // 2, len(out)):
            dct = json.loads(out[i])
            r = edit(dct)
            if r is not None:
                if r == "delete":
                    del out[i]
                else:
                    out[i] = json.dumps(dct, separators=(",", ":"))
                p = os.path.join(d, name + ".ndjson")
                with open(p, "w") as f:
                    f.write("\n".join(out) + "\n")
                return p, i
        raise MachineryError("selftest: no event to corrupt for " + name)

    def e_val(x):
        if x["op"] == "End" and x["st"][0]["p"] and x["st"][0]["index"] > 0:
            x["st"][0]["val"] += 1
            return True

    def e_index(x):
        if x["op"] == "End" and x["st"][1]["p"] and x["st"][1]["index"] >= 0:
            x["st"][1]["index"] = (x["st"][1]["index"] + 1) % 4
            return True

    def e_exc(x):
        if x["op"] == "End" and x["res"]["exc"] == "injected":
            x["res"]["exc"] = "none"
            return True

    def e_dtor(x):
        if x["op"] == "EDtor":
            x["id"] += 1000
            return True

    def e_remove(x):
        if x["op"] == "EDtor":
            return "delete"

    ok = True
    r = core.validate_trace(ctx, TRACE_MOD, CFG_WEAK, tp, explain=False)
    print("recorded trace (%d events): %s" % (len(lines), "accepted" if r["accepted"] else "REJECTED at %d" % (r["fail_line"] + 1)))
    ok &= r["accepted"]
    for name, edit in (("value", e_val), ("index", e_index), ("exception", e_exc), ("dtor-id", e_dtor), ("removed-dtor", e_remove)):
        p, i = variant(name, edit)
        r = core.validate_trace(ctx, TRACE_MOD, CFG_WEAK, p, explain=False)
        good = (not r["accepted"]) and (r["fail_line"] == i or (name == "removed-dtor" and r["fail_line"] >= i))
        print("corrupted %-13s at line %d: %s" % (name, i + 1, "rejected at line %d" % (r["fail_line"] + 1) if not r["accepted"] else "ACCEPTED"))
        ok &= good
    print("selftest", "ok" if ok else "FAILED")
    return 0 if ok else 2


def run(ctx):
    q = ctx.quick
    findings = core.load_findings("C05")
    rnd = random.Random(ctx.seed)

    # ---- build the harness from the working tree (in the background of the TLC runs)
    drv = os.path.join(ctx.work, "variant_driver")
    pool = ThreadPoolExecutor(max_workers=4)
    fut_build = pool.submit(core.build, ctx, os.path.join(core.HARNESS, "variant", "driver.cpp"), drv)

    # ---- 1. L1 alone
    fut_l1 = pool.submit(core.tlc_model_check, ctx, "VariantMC", "Variant_mc_quick.cfg" if q else "Variant_mc_thorough.cfg",
                         "L1 theorems under an arbitrary implementation", coverage=not q, workers=max(2, core.NCPU // 2),
                         timeout=1500)
    # ---- 2. L2 => L1, and 3. S->C enumeration (same state space: one TLC run checks the refinement and
    #         writes every call transition through the Emit action constraint)
    r2 = core.tlc_model_check(ctx, "VariantImpl", "VariantImpl_mc.cfg" if q else "VariantImpl_mc_thorough.cfg",
                              "L2 (mpark's algorithm, element-operation steps, fault fuse) refines L1", coverage=not q,
                              workers=max(2, core.NCPU // 2), timeout=1500, heap="6g")
    l2_cex = []
    if r2["violated"]:
        ctx.drift.append("VariantImpl.tla does not refine Variant.tla (%s); see %s" % (r2["violated"], r2["outfile"]))
        l2_cex = counterexample_calls(r2["out"])
    if not q:
        ctx.notes["l2_action_coverage"] = r2.get("coverage", {})
    all_edges = emitted(r2["out"])
    if r2["violated"] or not all_edges:
        # the refinement run stopped early: enumerate the transitions without checking properties
        r3 = core.tlc(ctx, "VariantImpl", "VariantImpl_s2c.cfg" if q else "VariantImpl_s2c_thorough.cfg", name="s2c-enumerate",
                      workers=max(2, core.NCPU // 2), timeout=1500, heap="6g")
        if r3["violated"]:
            raise MachineryError("S->C enumeration failed: %s" % r3["outfile"])
        all_edges = emitted(r3["out"])
        r3["out"] = ""
    r2["out"] = ""
    # TLC's workers print the transitions in no fixed order: sort, so that the tour depends on VERIF_SEED only
    all_edges.sort(key=lambda e: json.dumps([e["p"], e["c"], e["a"], e["f"]], sort_keys=True))
    # a fuse beyond the call's last throwing-capable operation never fires: same run as fuse 0
    edges = [e for e in all_edges if e["f"] == 0 or e["r"] != "none"]
    # XRef does not depend on the variants' state: keep it in three states only
    xstates = sorted({skey(e["p"]) for e in edges})[:3]
    edges = [e for e in edges if e["c"] != "XRef" or skey(e["p"]) in xstates]
    tour, taken, nav = build_tour(edges, rnd, exec_len=120, limit=None)
    ctx.notes["s2c_transitions_enumerated"] = len(all_edges)
    ctx.notes["s2c_transitions_distinct_behaviour"] = len(edges)
    ctx.notes["s2c_transitions_replayed"] = taken
    ctx.notes["s2c_navigation_calls"] = nav
    ctx.notes["s2c_abstract_states"] = len({skey(e["p"]) for e in edges})
    ctx.log("S->C: %d call transitions enumerated by TLC (%d with distinct behaviour, %d abstract states); tour of %d calls (+%d navigation)"
            % (len(all_edges), len(edges), ctx.notes["s2c_abstract_states"], taken, nav))

    r1 = fut_l1.result()
    if r1["violated"]:
        raise MachineryError("L1 spec Variant.tla violates its own theorem %s (oracle bug), see %s" % (r1["violated"], r1["outfile"]))
    if not q:
        cov1 = dict(r1.get("coverage", {}))
        cov1.update(disjunct_coverage(r1["out"], L1_DISJUNCTS))
        ctx.notes["l1_action_coverage"] = cov1
        vac = sorted(k for cov in (cov1, r2.get("coverage", {})) for k, v in cov.items()
                     if v[1] == 0 and k[0].isupper() and k not in ("TypeOK", "Quiescent", "RelLaws", "RepInv"))
        ctx.notes["vacuous_actions"] = vac
    r1["out"] = ""
    fut_build.result()

    scripts = []
    for i, ch in enumerate(chunk_by_reset(tour, 8 if q else 16)):
        scripts.append(("s2c-%02d" % i, ch))
    drv_clang = None
    if not q:     # thorough: the same tour on a clang++ build of the harness
        drv_clang = os.path.join(ctx.work, "variant_driver_clang")
        fut_clang = pool.submit(core.build, ctx, os.path.join(core.HARNESS, "variant", "driver.cpp"), drv_clang, (), True, "clang++")
        for i, ch in enumerate(chunk_by_reset(tour, 16)):
            scripts.append(("s2c-clang-%02d" % i, ch))
    if l2_cex:
        scripts.append(("l2-counterexample", [{"op": "Reset"}] + l2_cex))

    # ---- 4. C->S random scripts
    nexec, nops = (500, 40) if q else (6000, 80)
    rlines = random_script(ctx.seed, nexec, nops)
    ncalls_rnd = sum(1 for l in rlines if l["op"] == "Begin")
    for i, ch in enumerate(chunk_by_reset(rlines, 8 if q else 32)):
        scripts.append(("rnd-%02d" % i, ch))

    # ---- probes of open known findings
    for fnd in findings:
        if "probe" in fnd:
            scripts.append(("probe-" + fnd["id"], fnd["probe"]["script"]))

    # ---- run the harness
    tdir = ctx.sub("traces")
    traces = []

    def one(item):
        name, lines = item
        sp, tp = os.path.join(tdir, name + ".script"), os.path.join(tdir, name + ".ndjson")
        write_script(sp, lines)
        run_script(ctx, drv_clang if name.startswith("s2c-clang-") else drv, sp, tp)
        return tp
    if drv_clang:
        fut_clang.result()
    traces = list(pool.map(one, scripts))
    ctx.log("harness: %d scripts executed under ASan+LSan" % len(scripts))
    ctx.cov["traces_validated_against_impl"] = sum(1 for _, ls in scripts for l in ls if l["op"] == "Reset")
    ctx.sample({"s2c_script": [json.dumps(x) for x in scripts[0][1][:10]]})
    ctx.sample({"random_script": [json.dumps(x) for x in rlines[:10]]})

    # ---- L2 drift: the element events of every replayed transition against L2's prediction
    ndrift, ncmp, ncalls = 0, 0, 0
    by_call, by_event, seen = {}, {}, {"valueless_states": 0, "throws": 0, "bad_variant_access": 0, "crashes": 0}
    for (name, _), tp in zip(scripts, traces):
        tl = core.read_ndjson(tp)
        ncalls += sum(1 for l in tl if l.get("op") == "End")
        for l in tl:                                   # what the recorded executions actually exercised (vacuity)
            op = l.get("op")
            by_event[op] = by_event.get(op, 0) + 1
            if op == "Begin":
                by_call[l["c"]] = by_call.get(l["c"], 0) + 1
            elif op == "End":
                seen["valueless_states"] += sum(1 for x in l["st"] if x["p"] and x["index"] == -1)
                seen["throws"] += l["res"]["exc"] == "injected"
                seen["bad_variant_access"] += l["res"]["exc"] == "bad_variant_access"
            elif op == "Crash":
                seen["crashes"] += 1
        if not name.startswith("s2c-"):
            continue
        for ob in compact_observed(tl):
            if ob.get("e") is None:
                continue
            e = edges[ob["e"]]
            ncmp += 1
            if ob["ev"] != e["ev"] or ob.get("r") != e["r"] or ob.get("q") != e["q"]:
                ndrift += 1
                if ndrift <= 3:
                    ctx.drift.append("VariantImpl.tla predicts %s -> %s %s for %s(%s) fuse %d from %s; the code did %s -> %s %s"
                                     % (e["ev"], e["r"], e["q"], e["c"], e["a"], e["f"], e["p"], ob["ev"], ob.get("r"), ob.get("q")))
    ctx.notes["l2_event_sequences_compared"] = ncmp
    ctx.notes["l2_event_sequence_mismatches"] = ndrift
    ctx.notes["calls_executed"] = ncalls
    ctx.notes["calls_by_kind"] = by_call
    ctx.notes["events_by_kind"] = by_event
    ctx.notes["outcomes_seen"] = seen
    ctx.notes["s2c_transitions_by_outcome"] = {k: sum(1 for e in edges if e["r"] == k) for k in ("none", "injected", "bad_variant_access")}
    ctx.notes["random_calls_scripted"] = ncalls_rnd
    with open(traces[0]) as f:
        ctx.sample({"trace": [next(f).strip()[:400] for _ in range(6)]})

    ctx.log("L2 drift comparison done (%d calls); validating traces against L1" % ncmp)
    # ---- validate every trace against L1
    validate_all(ctx, drv, traces, findings)
    ctx.cov["evaluations"] = ctx.cov["events_validated"]
    ctx.log("validated %d events of %d calls in %d traces (%d executions); L2 event sequences compared: %d, mismatches: %d"
            % (ctx.cov["events_validated"], ncalls, len(traces), ctx.cov["traces_validated_against_impl"], ncmp, ndrift))
    pool.shutdown()

    return core.finish(
        ctx, "model_checking",
        rule="TLC: L2 (mpark's algorithm at element-operation granularity) refines L1 for every reachable state x call x fuse position, "
             "2 variants x 4 alternatives {int, NT, TM, TM2} x values %s, fuse 0..%d, identities modulo renaming (exhaustive in these bounds, "
             "any number of calls); L1 alone under an arbitrary implementation (<= 2 element events per call). Every distinct L2 call "
             "transition is replayed on real xtl::variant objects in a transition tour and validated by TLC against L1; seeded random call "
             "sequences (fuse probability 0.3) likewise. A case is one event (element event or End with the full projection) checked by TLC."
             % ("{1}" if q else "{1,2}", 3 if q else 4),
        assumptions=["payload types are harness fixtures: a throwing element operation throws before it changes anything; a move leaves MOVED",
                     "the projection is read through the public API (index, valueless_by_exception, holds_alternative, get_if) and the harness's address registry",
                     "table-based visitation (non-C++14-constexpr compilers), std::hash, variants of variants are not exercised"],
        exhaustive=False)

"""C04 - missing / masked values propagate through every lifted operator and are never evaluated.

 0. The operation table harness/lifted/ops.def (every operator and <cmath> name the two headers lift) is
    re-extracted from the headers' macro invocations and compared (a difference is MODEL-DRIFT);
    specs/LiftedOps.tla is generated from the same table (`python3 -m checks.c04 gen`).
 1. TLC: Lifted.tla (L1) multi-step exploration, theorems of the spec itself (propagation, never
    evaluated, equality laws, select / value_or laws).
 2. S->C: TLC enumerates every single call: operation x kind pattern x presence pattern x value set
    (Lifted_s2c*.cfg); each transition is replayed as one call on real xoptional / xmasked_value
    objects over the counting operand type Probe.  TLC simulation walks add histories.
 3. C->S: seeded random expression sequences over the registers (all kinds, results stored back,
    extreme values, division by a missing zero).
 Every recorded trace is validated by TLC against LiftedTrace.tla (L1 is the oracle): has/visible,
 value, evaluation-counter delta, all registers and the referents of reference closures.
"""
import json, os, random, re, sys
from vlib import core, tlaval
from vlib.core import MachineryError

OPS_DEF = os.path.join(core.HARNESS, "lifted", "ops.def")
OPS_TLA = os.path.join(core.SPECS, "LiftedOps.tla")
DRIVER = os.path.join(core.HARNESS, "lifted", "driver.cpp")
M = 46000

OPT_KINDS = ("opt", "optref", "optcr", "optvr", "dopt")
MSK_KINDS = ("masked", "mref", "dmasked")
PLAIN_KINDS = ("plain", "int", "dplain")
D_KINDS = ("dplain", "dopt", "dmasked")            # double-valued registers (real IEEE operands incl. NaN)
NANV = 2147480000                                  # how a NaN is written in scripts and traces
WRITABLE = ("opt", "optref", "optvr", "masked", "mref", "dopt", "dmasked")
# the operations dispatched to double operands (Lifted.tla: DFuns)
D_UN = ["pos", "neg", "lognot", "abs", "fabs", "ceil", "floor", "trunc", "round", "nearbyint", "rint", "isnan", "isinf", "isfinite"]
D_BIN = ["plus", "minus", "mul", "lt", "le", "gt", "ge", "fmax", "fmin"]
D_ASG = [("plus_eq", "plus"), ("minus_eq", "minus")]
VALREF = ("optref", "optcr", "optvr", "mref")
# the constructor used to put a register of a given kind into a given abstract state
CANON_HOW = {"plain": "plain", "int": "int", "opt": "opt2", "optref": "optref", "optcr": "optcr", "optvr": "optvr",
             "masked": "masked2", "mref": "mref", "dplain": "dplain", "dopt": "dopt2", "dmasked": "dmasked2"}
ALT_HOW = {"opt": ["opt2", "optional_vv"], "optref": ["optref", "optional_rr"], "optvr": ["optvr", "optional_rv"],
           "masked": ["masked2", "masked_value2"], "mref": ["mref", "masked_value_rr"]}
# calls whose semantics is documented class behaviour, not part of the property sentence: a rejection
# at one of these events is advisory (MODEL-DRIFT), never a VIOLATION
ADVISORY_OPS = {"Reset", "Load", "Get", "SetFlag", "SetVal", "Poke", "AssignVal", "AssignReg", "Swap"}


# ------------------------------------------------------------------ the operation table
def parse_ops_def(path=OPS_DEF):
    t = {"UNOP": [], "BINOP": [], "CMPOP": [], "ASGOP": [], "UFUN": [], "UPRED": [], "BFUN": [], "TFUN": []}
    with open(path) as f:
        for line in f:
            m = re.match(r"\s*L_(\w+)\((.*)\)\s*$", line)
            if m and m.group(1) in t:
                t[m.group(1)].append([x.strip() for x in m.group(2).split(",")])
    return t


def extract_from_headers(include):
    """The operations the two headers lift, read off their operator declarations and macro invocations."""
    xo = open(os.path.join(include, "xtl", "xoptional.hpp")).read()
    xm = open(os.path.join(include, "xtl", "xmasked_value.hpp")).read()
    opt, msk = {}, {}
    # xoptional: free operators taking an xoptional, member compound assignments, macro invocations
    free = re.findall(r"operator\s*([-+*/%&|^<>=!]+)\s*\(const (?:xoptional<T1, B1>|T1)& e1, const (?:xoptional<T2, B2>|T2)& e2\)", xo)
    unary = re.findall(r"operator\s*([-+~!])\s*\(const xoptional<T, B>& e\)", xo)
    opt["unop"] = sorted(set(unary))
    opt["binop"] = sorted(set(x for x in free if x not in ("==", "!=")) - set())
    opt["cmpop"] = sorted(set(x for x in free if x in ("==", "!=")))
    opt["asgop"] = sorted(set(re.findall(r"xoptional& operator\s*([-+*/%&|^]=)\s*\(const xoptional<CTO, CBO>&\);", xo)))
    opt["asgop_plain"] = sorted(set(re.findall(r"xoptional& operator\s*([-+*/%&|^]=)\s*\(const T&\);", xo)))
    for key, mac in (("ufun", "UNARY_OPTIONAL"), ("upred", "UNARY_BOOL_OPTIONAL"), ("bfun", "BINARY_OPTIONAL"), ("tfun", "TERNARY_OPTIONAL")):
        opt[key] = re.findall(r"^\s+%s\((\w+)\)\s*$" % mac, xo, re.M)
    # xmasked_value: macro invocations + explicitly written unary operators and ==, !=
    msk["unop"] = sorted(set(re.findall(r"operator\s*([-+~!])\s*\(const xmasked_value<T, B>& e\)", xm)))
    msk["binop"] = sorted(set(re.findall(r"^\s+DEFINE_(?:BOOL_)?OPERATOR\((\S+)\);", xm, re.M)))
    msk["cmpop"] = sorted(set(re.findall(r"inline bool operator\s*(==|!=)\s*\(", xm)))
    msk["asgop"] = sorted(set(x for x in re.findall(r"^\s+DEFINE_ASSIGN_OPERATOR\((\S+)\);", xm, re.M) if x != "="))
    for key, mac in (("ufun", "DEFINE_UNARY_OPERATOR"), ("upred", "DEFINE_UNARY_BOOL_OPERATOR"), ("bfun", "DEFINE_BINARY_OPERATOR"), ("tfun", "DEFINE_TERNARY_OPERATOR")):
        msk[key] = re.findall(r"^\s+%s\((\w+)\)\s*$" % mac, xm, re.M)
    return opt, msk


def table_vs_headers(t, include):
    """List of differences between ops.def and what the headers define (empty = in sync)."""
    want = {"unop": sorted(x[1] for x in t["UNOP"]), "binop": sorted(x[1] for x in t["BINOP"]),
            "cmpop": sorted(x[1] for x in t["CMPOP"]), "asgop": sorted(x[1] for x in t["ASGOP"]),
            "ufun": [x[0] for x in t["UFUN"]], "upred": [x[0] for x in t["UPRED"]],
            "bfun": [x[0] for x in t["BFUN"]], "tfun": [x[0] for x in t["TFUN"]]}
    opt, msk = extract_from_headers(include)
    diffs = []
    for name, got in (("xoptional.hpp", opt), ("xmasked_value.hpp", msk)):
        for key, w in want.items():
            g = got[key]
            if sorted(g) != sorted(w):
                diffs.append("%s %s: header has %s, table lacks/has extra %s" % (
                    name, key, sorted(set(g) - set(w)), sorted(set(w) - set(g))))
    if sorted(opt["asgop_plain"]) != want["asgop"]:
        diffs.append("xoptional.hpp compound assignment with a plain right operand: %s" % opt["asgop_plain"])
    return diffs


def gen_ops_tla(t):
    def s(names):
        return "{" + ", ".join('"%s"' % n for n in names) + "}"
    code = [(x[0], x[2]) for x in t["UNOP"] + t["BINOP"] + t["CMPOP"]] + [(x[0], x[1]) for x in t["UFUN"] + t["UPRED"] + t["BFUN"] + t["TFUN"]]
    boolres = [x[0] for x in t["UNOP"] if x[3] == "B"] + [x[0] for x in t["BINOP"] if x[3] == "B"] + [x[0] for x in t["UPRED"]]
    lines = [
        "------------------------------ MODULE LiftedOps ------------------------------",
        "(* GENERATED from harness/lifted/ops.def by `python3 -m checks.c04 gen` - do not edit.     *)",
        "(* The operators and <cmath> names that xoptional.hpp and xmasked_value.hpp lift, with the *)",
        "(* codes of the toy algebra shared with harness/lifted/probe.hpp.                          *)",
        "UnOps     == " + s(x[0] for x in t["UNOP"]),
        "BinOps    == " + s(x[0] for x in t["BINOP"]),
        "ToyBinOps == " + s(x[0] for x in t["BINOP"] if x[4] == "TOY"),
        "CmpOps    == " + s(x[0] for x in t["CMPOP"]),
        "AsgOps    == " + s(x[0] for x in t["ASGOP"]),
        "AsgBase   == [" + ", ".join("%s |-> \"%s\"" % (x[0], x[2]) for x in t["ASGOP"]) + "]",
        "UFuns     == " + s(x[0] for x in t["UFUN"]),
        "UPreds    == " + s(x[0] for x in t["UPRED"]),
        "BFuns     == " + s(x[0] for x in t["BFUN"]),
        "TFuns     == " + s(x[0] for x in t["TFUN"]),
        "BoolRes   == " + s(boolres),
        "AllFuns   == UnOps \\cup BinOps \\cup CmpOps \\cup AsgOps \\cup UFuns \\cup UPreds \\cup BFuns \\cup TFuns",
        "Code      == [" + ", ".join("%s |-> %s" % c for c in code) + "]",
        "=============================================================================",
    ]
    out, cur = [], ""
    for l in lines:           # wrap long lines at commas (TLA+ has no line-length limit, but keep it readable)
        while len(l) > 118:
            cut = l.rfind(", ", 0, 118) + 1
            out.append(l[:cut])
            l = "              " + l[cut:].lstrip()
        out.append(l)
    return "\n".join(out) + "\n"


# ------------------------------------------------------------------ scripts
def ev(op, **a):
    return {"op": op, "a": a}


def load_event(i, reg, rnd=None):
    """The Load that puts register i into abstract state reg = {kind, has, val}."""
    how = CANON_HOW[reg["kind"]]
    if rnd is not None and reg["kind"] in ALT_HOW:
        how = rnd.choice(ALT_HOW[reg["kind"]])
    return ev("Load", i=i, how=how, has=bool(reg["has"]), v=reg["val"])


def emitted(out):
    res = []
    for line in out.splitlines():
        if line.startswith('"@E@'):
            res.append(json.loads(json.loads(line)[3:]))
    return res


MUTATING = {"Compound", "SetFlag", "SetVal", "Poke", "AssignVal", "AssignReg", "Swap", "Load"}


def edge_scripts(edges, nreg, rnd, per_exec=40):
    """Every call TLC enumerated, grouped by source register file.  Before a call the registers that are
    not (known to be) in the source state are loaded; calls that only compute come first, after a mutating
    call the touched registers are loaded again.  A Reset starts a new execution every per_exec sources."""
    by_src = {}
    for e in edges:
        key = json.dumps(e["p"], sort_keys=True)
        by_src.setdefault(key, []).append(e["l"])
    lines, taken = [], 0
    plain0 = {"kind": "plain", "has": True, "val": 0}
    cur = None
    for n, key in enumerate(sorted(by_src)):
        regs = json.loads(key)
        regs = regs + [plain0] * (nreg - len(regs))
        calls = sorted(by_src[key], key=lambda c: (c["op"] in MUTATING, json.dumps(c, sort_keys=True)))
        if n % per_exec == 0:
            lines.append(ev("Reset", n=nreg))
            cur = [plain0] * nreg
        for c in calls:
            for i, x in enumerate(regs):
                if cur[i] != x:
                    lines.append(load_event(i + 1, x, rnd))
                    cur[i] = x
            lines.append({"op": c["op"], "a": c["a"]})
            taken += 1
            a = c["a"]
            if c["op"] in MUTATING:
                for x in ("i", "j"):
                    if x in a:
                        cur[a[x] - 1] = None
            if a.get("d", 0):
                cur[a["d"] - 1] = None
    return lines, taken


def sim_scripts(simdir, nreg):
    lines, n = [], 0
    for fn in sorted(os.listdir(simdir)):
        states = tlaval.parse_sim_trace(os.path.join(simdir, fn))
        if len(states) < 2:
            continue
        lines.append(ev("Reset", n=nreg))
        for i, x in enumerate(states[0]["r"]):
            lines.append(load_event(i + 1, x))
        for s in states[1:]:
            lines.append({"op": s["last"]["op"], "a": s["last"]["a"]})
        n += 1
    return lines, n


class Gen:
    """Random expression sequences.  The shadow tracks kinds exactly and presence / value only where it
    knows them from its own Loads (to respect the one C++ precondition: no division or modulo by a
    present zero); it predicts no results."""

    def __init__(self, rnd, t, nreg):
        self.r, self.t, self.n = rnd, t, nreg
        self.kind = ["plain"] * (nreg + 1)
        self.has = [True] * (nreg + 1)      # True / False / None (unknown)
        self.val = [0] * (nreg + 1)         # int / None (unknown)
        self.un = [x[0] for x in t["UNOP"] + t["UFUN"] + t["UPRED"]]
        self.bin = [x[0] for x in t["BINOP"] + t["BFUN"]]
        self.boolres = set(x[0] for x in t["UNOP"] + t["BINOP"] if x[3] == "B") | set(x[0] for x in t["UPRED"])
        self.asg = [(x[0], x[2]) for x in t["ASGOP"]]
        self.cmp = [x[0] for x in t["CMPOP"]]
        self.tern = [x[0] for x in t["TFUN"]]
        self.dcompounds = 0

    def dvalue(self):
        return self.r.choice([-3, -2, -1, 0, 0, 1, 2, 3, NANV, NANV])

    def value(self, kind=None):
        if kind in D_KINDS:
            return self.dvalue()
        c = self.r.random()
        if c < 0.55:
            return self.r.choice([-2, -1, 0, 0, 1, 2, 3, 7])
        if c < 0.75:
            return self.r.choice([M, -M, M - 1, -M + 1, 214, -215, 23000, -23001])
        return self.r.randrange(-M, M + 1)

    def fam(self, k):
        return "o" if k in OPT_KINDS else "m" if k in MSK_KINDS else "p"

    def regs(self, pred):
        return [i for i in range(1, self.n + 1) if pred(self.kind[i])]

    def load(self, i, kind=None, has=None, v=None):
        r = self.r
        kind = kind or r.choice(["opt", "optref", "masked", "mref", "plain", "opt", "optcr", "optvr", "int", "masked",
                                 "dopt", "dmasked", "dplain"])
        hows = {"dplain": ["dplain"], "dopt": ["dopt2"], "dmasked": ["dmasked2"], "plain": ["plain"], "int": ["int"], "opt": ["opt2", "opt2", "opt1", "optdef", "missing", "optional_vv"],
                "optref": ["optref", "optional_rr"], "optcr": ["optcr"], "optvr": ["optvr", "optional_rv"],
                "masked": ["masked2", "masked2", "masked1", "maskedf", "masked_value1", "masked_value2", "maskeddef"],
                "mref": ["mref", "masked_value_rr"]}[kind]
        how = r.choice(hows) if has is None else CANON_HOW[kind]
        if has is None:
            has = r.random() < 0.6
        if v is None:
            v = self.value(kind)
        self.kind[i] = kind
        if how in ("plain", "int", "dplain", "opt1", "masked1", "masked_value1"):
            has = True
        if how in ("optdef", "missing", "maskedf"):
            has, v = True, 0
            self.has[i], self.val[i] = False, None
        elif how == "maskeddef":
            has, v = True, 0
            self.has[i], self.val[i] = None, None
        else:
            self.has[i], self.val[i] = has, v
        return ev("Load", i=i, how=how, has=has, v=v)

    def forget(self, i, kind=None):
        if kind:
            self.kind[i] = kind
        self.has[i], self.val[i] = None, None

    def div_safe(self, idxs, j):
        """x / r[j] is inside the C++ contract: the divisor is known non-zero, or some operand is known missing."""
        if self.val[j] is not None and self.val[j] != 0:
            return True
        return any(self.has[i] is False for i in idxs)

    def pick_operands(self, n):
        """n registers with at least one lifted operand, no mixing of the two families or of the value types."""
        r = self.r
        for _ in range(40):
            idx = [r.randrange(1, self.n + 1) for _ in range(n)]
            fams = set(self.fam(self.kind[i]) for i in idx)
            if ("o" in fams) != ("m" in fams) and len(set(self.kind[i] in D_KINDS for i in idx)) == 1:
                return idx
        return None

    def isd(self, idx):
        return self.kind[idx[0]] in D_KINDS

    def step(self):
        r = self.r
        for _ in range(200):
            c = r.random()
            if c < 0.16:
                return self.load(r.randrange(1, self.n + 1))
            if c < 0.20:     # the property's own example: division / modulo by a missing zero
                idx = self.pick_operands(2)
                if not idx or self.kind[idx[1]] in PLAIN_KINDS or self.kind[idx[0]] == "optcr" or self.isd(idx):
                    continue
                i, j = idx
                if i == j:
                    continue
                first = self.load(j, self.kind[j], False, 0)
                if r.random() < 0.5 and self.kind[i] in WRITABLE:
                    f = r.choice(["div_eq", "mod_eq"])
                    nxt = ev("Compound", f=f, i=i, j=j)
                    self.has[i] = False
                else:
                    nxt = ev("Binary", f=r.choice(["div", "mod"]), i=i, j=j, d=0)
                return [first, nxt]
            if c < 0.30:
                idx = self.pick_operands(1)
                if not idx:
                    continue
                f = r.choice(D_UN if self.isd(idx) else self.un)
                d = 0 if f in self.boolres or self.isd(idx) or r.random() < 0.5 else r.randrange(1, self.n + 1)
                e = ev("Unary", f=f, i=idx[0], d=d)
                if d:
                    self.forget(d, "opt" if self.fam(self.kind[idx[0]]) == "o" else "masked")
                return e
            if c < 0.52:
                idx = self.pick_operands(2)
                if not idx:
                    continue
                f = r.choice(D_BIN if self.isd(idx) else self.bin)
                if f in ("div", "mod") and not self.div_safe(idx, idx[1]):
                    continue
                fam = "opt" if "o" in [self.fam(self.kind[i]) for i in idx] else "masked"
                d = 0 if f in self.boolres or self.isd(idx) or r.random() < 0.5 else r.randrange(1, self.n + 1)
                e = ev("Binary", f=f, i=idx[0], j=idx[1], d=d)
                if d:
                    self.forget(d, fam)
                return e
            if c < 0.60:
                idx = self.pick_operands(3)
                if not idx:
                    continue
                fam = "opt" if "o" in [self.fam(self.kind[i]) for i in idx] else "masked"
                d = 0 if self.isd(idx) or r.random() < 0.5 else r.randrange(1, self.n + 1)
                e = ev("Ternary", f=r.choice(self.tern), i=idx[0], j=idx[1], k=idx[2], d=d)
                if d:
                    self.forget(d, fam)
                return e
            if c < 0.72:
                idx = self.pick_operands(2)
                if not idx or self.kind[idx[0]] not in WRITABLE:
                    continue
                if self.isd(idx):
                    # double registers must stay small (products are followed by TLC's 32-bit integers):
                    # at most 4 compound assignments on doubles per execution, i.e. |value| <= 3 * 2^4
                    if self.dcompounds >= 4:
                        continue
                    self.dcompounds += 1
                f, base = r.choice(D_ASG if self.isd(idx) else self.asg)
                if base in ("div", "mod") and not self.div_safe(idx, idx[1]):
                    continue
                i, j = idx
                hi, hj = self.has[i], self.has[j]
                self.has[i] = False if (hi is False or hj is False) else (True if (hi and hj) else None)
                self.val[i] = None
                return ev("Compound", f=f, i=i, j=j)
            if c < 0.78:
                idx = self.pick_operands(2)
                if not idx:
                    continue
                return ev("Compare", f=r.choice(self.cmp), i=idx[0], j=idx[1])
            if c < 0.84:
                ok = self.regs(lambda k: k in OPT_KINDS or k in PLAIN_KINDS)
                if len(ok) < 1:
                    continue
                i, j = r.choice(ok), r.choice(ok)
                lifted = r.random() < 0.6
                ks = {self.kind[i], self.kind[j]}
                if lifted and ks == {"int"}:
                    continue
                if len(set(k in D_KINDS for k in ks)) != 1:
                    continue
                dd = bool(ks & set(D_KINDS))
                if not lifted and not (ks & set(OPT_KINDS)):
                    continue
                cnd = {"lifted": lifted, "has": (r.random() < 0.7) if lifted else True, "val": r.random() < 0.5}
                d = 0 if dd or r.random() < 0.5 else r.randrange(1, self.n + 1)
                e = ev("Select", c=cnd, i=i, j=j, d=d)
                if d:
                    self.forget(d, "opt")
                return e
            if c < 0.87:
                ok = self.regs(lambda k: k in OPT_KINDS)
                if not ok:
                    continue
                i = r.choice(ok)
                return ev("ValueOr", i=i, dv=self.value(self.kind[i]))
            if c < 0.91:
                i = r.randrange(1, self.n + 1)
                k = self.kind[i]
                paths = (["member", "rvalue"] if k not in PLAIN_KINDS else []) + (["free"] if k in OPT_KINDS or k == "plain" else []) + \
                        (["conv"] if k in MSK_KINDS else [])
                if not paths:
                    continue
                return ev("Get", i=i, path=r.choice(paths))
            if c < 0.95:
                i = r.randrange(1, self.n + 1)
                k = self.kind[i]
                t = r.randrange(4)
                if t == 0 and k in WRITABLE:
                    b = r.random() < 0.5
                    self.has[i] = b
                    return ev("SetFlag", i=i, b=b)
                if t == 1 and k != "optcr":
                    v = self.value(k)
                    self.val[i] = v
                    return ev("SetVal", i=i, v=v)
                if t == 2 and k in VALREF:
                    v, h = self.value(), r.random() < 0.5
                    self.val[i] = v
                    if k != "optvr":
                        self.has[i] = h
                    return ev("Poke", i=i, has=h, v=v)
                if t == 3 and k in WRITABLE:
                    v = self.value(k)
                    if k in OPT_KINDS:
                        self.has[i], self.val[i] = True, v
                    elif self.has[i]:
                        self.val[i] = v
                    elif self.has[i] is None:
                        self.val[i] = None
                    return ev("AssignVal", i=i, v=v)
                continue
            # assignment between registers, swap
            i, j = r.randrange(1, self.n + 1), r.randrange(1, self.n + 1)
            ki, kj = self.kind[i], self.kind[j]
            if r.random() < 0.5:
                if ki in WRITABLE and kj not in PLAIN_KINDS and self.fam(ki) == self.fam(kj) and not (ki == kj and ki in VALREF) \
                        and (ki in D_KINDS) == (kj in D_KINDS):
                    if ki in OPT_KINDS or ki == kj:
                        self.has[i], self.val[i] = self.has[j], self.val[j]
                    else:
                        self.forget(i)
                    return ev("AssignReg", i=i, j=j)
            elif ki == kj and ki in WRITABLE:
                self.has[i], self.has[j] = self.has[j], self.has[i]
                self.val[i], self.val[j] = self.val[j], self.val[i]
                return ev("Swap", i=i, j=j, how=r.choice(["member", "free"]) if ki in MSK_KINDS else "member")
        return self.load(1)


def random_script(seed, t, nexec, nops, nreg=4):
    rnd = random.Random(seed * 7919 + 13)
    lines = []
    for _ in range(nexec):
        g = Gen(rnd, t, nreg)
        lines.append(ev("Reset", n=nreg))
        for i in range(1, nreg + 1):
            lines.append(g.load(i))
        k = 0
        while k < nops:
            e = g.step()
            for x in (e if isinstance(e, list) else [e]):
                lines.append(x)
                k += 1
    return lines


def write_script(path, lines):
    with open(path, "w") as f:
        for l in lines:
            f.write(json.dumps(l, separators=(",", ":")) + "\n")


def chunk_by_reset(lines, nchunks):
    starts = [i for i, l in enumerate(lines) if l["op"] == "Reset"]
    if not starts:
        return [lines]
    per = max(1, (len(starts) + nchunks - 1) // nchunks)
    cuts = starts[::per]
    return [lines[a:b] for a, b in zip(cuts, cuts[1:] + [len(lines)])]


def run_script(ctx, drv, script_path, trace_path):
    import subprocess
    env = dict(os.environ); env.update(core.ASAN_ENV)
    with open(script_path) as fin, open(trace_path, "w") as fout:
        p = subprocess.run([drv], stdin=fin, stdout=fout, stderr=subprocess.PIPE, env=env, timeout=1200)
    if p.returncode == 3:
        raise MachineryError("harness rejected script %s: %s" % (script_path, p.stderr.decode()[-500:]))


def build_driver(ctx):
    """The driver instantiates ~1500 lifted overloads: compile its five parts in parallel (-O0: a third of
    the -O1 compile time), then link."""
    drv = os.path.join(ctx.work, "lifted_driver")
    inc = ["-O0", "-g1", "-I", os.path.join(core.HARNESS, "lifted")]
    objs = [os.path.join(ctx.work, "lifted_part%d.o" % i) for i in range(5)]
    core.build_many(ctx, [{"src": DRIVER, "out": o, "flags": inc + ["-c", "-DLIFTED_PART=%d" % i]} for i, o in enumerate(objs)])
    rc, out = core.sh([core.CXX] + core.ASAN + objs + ["-o", drv], timeout=300)
    if rc != 0:
        raise MachineryError("harness does not link:\n%s" % out[-3000:])
    return drv


def classify(findings):
    def f(evj, execution):
        for k in findings:
            m = k.get("match", {})
            if m and all(evj.get(x) == y or evj.get("a", {}).get(x) == y for x, y in m.items()):
                return "%s (%s)" % (k["key"], k["what"])
        if evj.get("op") in ADVISORY_OPS:
            return "ADVISORY " + json.dumps({"op": evj.get("op"), "a": evj.get("a")}, sort_keys=True)
        return None
    return f


def validate(ctx, traces, findings):
    n0 = len(ctx.known)
    res = core.validate_traces(ctx, "LiftedTrace", "LiftedTrace.cfg", traces, classify=classify(findings))
    # advisory rejections (housekeeping calls, not the property): MODEL-DRIFT, not KNOWN-FINDING
    adv = [k for k in ctx.known if k.startswith("ADVISORY ")]
    ctx.known[:] = [k for k in ctx.known if not k.startswith("ADVISORY ")]
    for k in adv[:5]:
        ctx.drift.append("a housekeeping call (construction/accessor/assignment/swap: documented class behaviour, not in "
                         "the property sentence) does not behave as Lifted.tla says: %s" % k[9:])
    return res


def nominal_drift(ctx, traces):
    """Advisory: with every operand present each lifted call is expected to evaluate exactly once
    (the property only forbids evaluation on a missing operand)."""
    odd = {}
    for tp in traces:
        with open(tp) as f:
            for line in f:
                if '"res"' not in line:
                    continue
                try:
                    e = json.loads(line)
                except Exception:
                    continue
                if e["op"] in ("Binary", "Ternary", "Compound") and e["res"]["has"] and e["res"]["d"] != 1 \
                        and not e["st"]["r"][e["a"]["i"] - 1]["kind"].startswith("d") and not e["st"]["r"][e["a"]["j"] - 1]["kind"].startswith("d"):
                    odd.setdefault((e["op"], e["a"]["f"], e["res"]["d"]), 0)
                    odd[(e["op"], e["a"]["f"], e["res"]["d"])] += 1
    for (op, f, d), n in sorted(odd.items())[:5]:
        ctx.drift.append("%s %s with all operands present evaluated the underlying operation %d times (%d calls)" % (op, f, d, n))


def replay(ctx, path):
    lines = [l for l in core.read_ndjson(path) if "_meta" not in l]
    drv = build_driver(ctx)
    sp, tp = os.path.join(ctx.work, "replay.script"), os.path.join(ctx.work, "replay.ndjson")
    write_script(sp, lines)
    run_script(ctx, drv, sp, tp)
    r = core.validate_trace(ctx, "LiftedTrace", "LiftedTrace.cfg", tp)
    if r["accepted"]:
        print("replay accepted: the recorded calls now conform to Lifted.tla")
        return 0
    print("VIOLATION property=C04 replay=%s" % path)
    print("  rejected at event %d; spec expected: %s" % (r["fail_line"] + 1, r.get("expected")))
    return 1


def selftest(ctx):
    """Binding self-test: a recorded trace is accepted; the same trace with one corrupted field (a value, a
    presence flag, an evaluation count) or one removed event is rejected at exactly that line."""
    t = parse_ops_def()
    drv = build_driver(ctx)
    lines = random_script(ctx.seed, t, 8, 50)
    sp, tp = os.path.join(ctx.work, "st.script"), os.path.join(ctx.work, "st.ndjson")
    write_script(sp, lines)
    run_script(ctx, drv, sp, tp)
    rec = [l for l in open(tp).read().splitlines() if l.strip()]
    idx = [i for i, l in enumerate(rec) if '"op":"Binary"' in l and '"has":true' in l.split('"res"')[1].split('"st"')[0]
           and '"d":0},"res":{"kind":"opt"' in l][2]
    miss = [i for i, l in enumerate(rec) if l.split('"res"')[1].split('"st"')[0].find('"has":false') >= 0 and '"op":"Binary"' in l][0]

    def check(name, mutated, want_line):
        p = os.path.join(ctx.work, "st-%s.ndjson" % name)
        with open(p, "w") as f:
            f.write("\n".join(mutated) + "\n")
        r = core.validate_trace(ctx, "LiftedTrace", "LiftedTrace.cfg", p, explain=False)
        got = None if r["accepted"] else r["fail_line"] + 1
        ok = got == want_line
        print("selftest %-14s expected %s, got %s  %s" % (name, "acceptance" if want_line is None else "rejection at line %d" % want_line,
                                                          "acceptance" if got is None else "rejection at line %d" % got, "ok" if ok else "FAILED"))
        return ok
    e = json.loads(rec[idx])
    ok = check("original", rec, None)
    m = list(rec); m[idx] = rec[idx].replace('"val":%d,"d"' % e["res"]["val"], '"val":%d,"d"' % (e["res"]["val"] + 1), 1)
    ok &= check("value", m, idx + 1)
    m = list(rec); m[idx] = rec[idx].replace('"res":{"kind":"opt","has":true', '"res":{"kind":"opt","has":false', 1)
    ok &= check("presence", m, idx + 1)
    m = list(rec)
    m[miss] = re.sub(r'"evals":(\d+)', lambda x: '"evals":%d' % (int(x.group(1)) + 1), rec[miss].replace('"d":0},"st"', '"d":1},"st"', 1))
    ok &= check("evaluated", m, miss + 1)
    m = list(rec); del m[idx]
    ok &= check("removed-event", m, idx + 1)
    return 0 if ok else 2


def run(ctx):
    from concurrent.futures import ThreadPoolExecutor
    q = ctx.quick
    findings = core.load_findings("C04")
    t = parse_ops_def()

    # ---- 0. the operation table is the headers' and the generated spec module is the table's
    want = gen_ops_tla(t)
    with open(OPS_TLA) as f:
        if f.read() != want:
            raise MachineryError("specs/LiftedOps.tla is not what ops.def generates: run `python3 -m checks.c04 gen`")
    diffs = table_vs_headers(t, core.INCLUDE)
    for d in diffs:
        ctx.drift.append("operation table harness/lifted/ops.def differs from the headers: " + d)
    nops = sum(len(v) for v in t.values())
    ctx.notes["lifted_operations_in_table"] = nops

    # ---- build the harness in the background while TLC runs
    pool = ThreadPoolExecutor(max_workers=2)
    fut_drv = pool.submit(build_driver, ctx)

    # ---- 1. L1 model checking (multi-step, small values, theorems of the spec) runs in the background
    def model_check():
        return core.tlc_model_check(ctx, "LiftedMC", "Lifted_mc.cfg" if q else "Lifted_mc_thorough.cfg",
                                    "L1 multi-step exploration: propagation, never-evaluated, equality/select/value_or laws",
                                    coverage=not q, workers=4 if q else 6, timeout=1500)
    fut_mc = pool.submit(model_check)

    # ---- 2. S->C: every single call, enumerated by TLC
    rnd = random.Random(ctx.seed)
    edges = []

    def enumerate_calls(cfg):
        r3 = core.tlc(ctx, "LiftedMC", cfg, name="s2c-enumerate-" + cfg[:-4], heap="8g", timeout=1500, workers=3 if q else 4)
        if r3["violated"]:
            raise MachineryError("s2c enumeration failed: %s" % r3["outfile"])
        es = emitted(r3["out"])
        # every transition TLC found must have been written out (TLC's own count is the reference)
        m = re.search(r"Finished computing initial states: (\d+) distinct state", r3["out"])
        if not m or r3["distinct"] - int(m.group(1)) != len(es):
            raise MachineryError("s2c enumeration %s: TLC found %s transitions but %d were written out, see %s"
                                 % (cfg, r3["distinct"] - int(m.group(1)) if m else "?", len(es), r3["outfile"]))
        r3["out"] = ""
        return cfg, es, r3
    cfgs = ["Lifted_s2c.cfg", "Lifted_s2c_house.cfg", "Lifted_s2c_double_quick.cfg"] if q else \
           ["Lifted_s2c_thorough.cfg", "Lifted_s2c_closures.cfg", "Lifted_s2c_house.cfg", "Lifted_s2c_double.cfg"]
    with ThreadPoolExecutor(max_workers=4) as ex:
        for cfg, es, r3 in ex.map(enumerate_calls, cfgs):
            ctx.log("TLC %s: %d single-call transitions from %d initial register files, %.1fs" % (cfg, len(es), r3["distinct"] - len(es), r3["wall_s"]))
            ctx.cov["transitions"] += len(es)
            edges.extend(es)
    fams = {}
    for e in edges:
        ks = tuple(e["p"][int(e["l"]["a"][x]) - 1]["kind"] for x in ("i", "j", "k") if x in e["l"]["a"])
        fams.setdefault((e["l"]["op"], e["l"]["a"].get("f", e["l"]["a"].get("how", e["l"]["a"].get("path", ""))), ks), 0)
    ctx.notes["s2c_overload_families"] = len(fams)      # (call, operation, kinds of the operand registers)
    lines, taken = edge_scripts(edges, 3, rnd)
    ctx.notes["s2c_transitions_enumerated"] = len(edges)
    ctx.notes["s2c_transitions_replayed"] = taken
    ctx.log("S->C: %d single calls in %d overload families -> %d script events" % (taken, len(fams), len(lines)))
    scripts = []
    for i, ch in enumerate(chunk_by_reset(lines, 8 if q else 14)):
        scripts.append(("s2c-%02d" % i, ch))

    # ---- 2b. TLC simulation walks: histories, results stored back into registers
    simdir = ctx.sub("sim")
    nsim = 150 if q else 5000
    core.tlc(ctx, "LiftedMC", "Lifted_sim.cfg", name="s2c-generate",
             extra=["-generate", "file=%s/t,num=%d" % (simdir, nsim), "-depth", "25", "-seed", str(ctx.seed)], workers=1)
    lines, nwalks = sim_scripts(simdir, 3)
    ctx.notes["s2c_simulation_walks"] = nwalks
    scripts.append(("sim", lines))

    # ---- 3. C->S: seeded random expression sequences
    nexec, nops_ = (150, 60) if q else (6000, 80)
    lines = random_script(ctx.seed, t, nexec, nops_)
    for i, ch in enumerate(chunk_by_reset(lines, 2 if q else 16)):
        scripts.append(("rnd-%d" % i, ch))

    for fnd in findings:
        if "probe" in fnd:
            scripts.append(("probe-" + fnd["id"], fnd["probe"]["script"]))

    # ---- the harness (built in the background)
    drv = fut_drv.result()
    ctx.log("harness built")
    traces, tdir = [], ctx.sub("traces")

    def one(item):
        name, ls = item
        sp, tp = os.path.join(tdir, name + ".script"), os.path.join(tdir, name + ".ndjson")
        write_script(sp, ls)
        run_script(ctx, drv, sp, tp)
        return tp
    with ThreadPoolExecutor(max_workers=8) as ex:
        traces = list(ex.map(one, scripts))
    ctx.log("harness ran %d scripts" % len(scripts))
    for name, ls in scripts:
        ctx.cov["traces_validated_against_impl"] += sum(1 for l in ls if l["op"] == "Reset")
    ctx.sample({"script": [json.dumps(x) for x in scripts[0][1][:10]]})
    ctx.sample({"script": [json.dumps(x) for x in scripts[-1][1][:10]]})

    # ---- what was exercised, counted from the scripts themselves: calls per action and per operation
    per_action, per_fun = {}, {}
    for name, ls in scripts:
        for l in ls:
            per_action[l["op"]] = per_action.get(l["op"], 0) + 1
            if "f" in l["a"]:
                per_fun[l["a"]["f"]] = per_fun.get(l["a"]["f"], 0) + 1
    ctx.notes["calls_per_action"] = per_action
    never = sorted(x[0] for v in t.values() for x in v if x[0] not in per_fun)
    never += sorted(a for a in ("Load", "Unary", "Binary", "Ternary", "Compare", "Compound", "Select", "ValueOr", "Get", "SetFlag",
                                "SetVal", "Poke", "AssignVal", "AssignReg", "Swap") if a not in per_action)
    ctx.notes["operations_never_called"] = never

    # ---- validate every trace against L1
    validate(ctx, traces, findings)

    # ---- the model-checking job (ran in the background)
    r = fut_mc.result()
    if r["violated"]:
        raise MachineryError("L1 spec Lifted.tla violates its own theorem %s (oracle bug), see %s" % (r["violated"], r["outfile"]))
    if not q:
        cov = {k: v for k, v in r.get("coverage", {}).items() if k.startswith("N") and k != "Next"}
        ctx.notes["l1_action_coverage"] = cov
        ctx.notes["vacuous_actions"] = sorted(k for k, v in cov.items() if v[1] == 0) + never
    nominal_drift(ctx, traces)
    ctx.cov["evaluations"] = ctx.cov["events_validated"]
    ctx.cov["distinct_nontrivial"] = len(fams)
    ctx.log("validated %d events in %d traces (%d executions)" % (ctx.cov["events_validated"], len(traces), ctx.cov["traces_validated_against_impl"]))

    return core.finish(
        ctx, "model_checking",
        rule="TLC enumerates every single lifted call of Lifted.tla: each of the %d table operations x every kind pattern "
             "(plain/int/opt/optref%s/masked/mref in every argument position, families not mixed) x every presence pattern x "
             "operand values %s; each transition is one call on the real xoptional/xmasked_value objects over a counting operand "
             "type and TLC compares has/visible, value, evaluation-counter delta, all registers and reference-closure referents. "
             "Plus TLC simulation walks and seeded random expression sequences (values up to +-46000, results stored back)."
             % (nops, "" if q else "/optcr/optvr", "{-1,0,2}" if q else "{-46000,-1,0,2,3}"),
        assumptions=["the operand type Probe (harness/lifted/probe.hpp) and Lifted.tla's Apply1/2/3 define the same toy algebra",
                     "real floating-point operands are exercised with small integers and NaN only (double registers, a subset of "
                     "integer-exact operations: DFuns in Lifted.tla); infinities and inexact results are not",
                     "xoptional x xmasked_value mixes (xmasked_value<xoptional<T>>) are not modelled"],
        exhaustive=False)


if __name__ == "__main__":
    if len(sys.argv) > 1 and sys.argv[1] == "gen":
        with open(OPS_TLA, "w") as f:
            f.write(gen_ops_tla(parse_ops_def()))
        print("wrote", OPS_TLA)
    elif len(sys.argv) > 1 and sys.argv[1] == "diff":
        print(table_vs_headers(parse_ops_def(), core.INCLUDE) or "ops.def matches the headers")

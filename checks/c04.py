"""C04 - missing / masked values propagate through every lifted operator and are never evaluated.

 0. The operation table harness/lifted/ops.def (every operator and <cmath> name the two headers lift) is
    re-extracted from the headers' macro invocations and compared (a difference is MODEL-DRIFT);
    specs/LiftedOps.tla is generated from the same table (`python3 -m checks.c04 gen`).
 1. TLC: Lifted.tla (L1) multi-step exploration, theorems of the spec itself (propagation, never
    evaluated, equality laws, select / value_or laws, coherence of registers that share a cell).
 2. S->C: TLC enumerates every single call: operation x kind pattern x presence pattern x value set
    (Lifted_s2c*.cfg: the integer algebra, reference closures, real doubles incl. NaN / infinities /
    inexact results, masked optionals, two closures over one referent); each transition is replayed as
    one call on real xoptional / xmasked_value objects over the counting operand type Probe.  TLC
    simulation walks add histories.
 3. C->S: seeded random expression sequences over the registers (all kinds, results stored back,
    extreme values, division by a missing zero, aliasing registers).
 4. (round 3) LiftedExt.tla: the same rule over other value types -- xoptional<xcomplex<double>>, nested
    xoptional<xoptional<int>>, xoptional<double> / xmasked_value<double> compared bit for bit (both zeros and
    infinities, NaN with both signs, denormal, largest finite), two-call expressions a + b * c -- and, advisory,
    the neighbours: implicit xmasked_value -> xoptional conversion, json round trip, member equal(), missing<T>(),
    free has_value / value.  TLC enumerates the cases, harness/lifted/ext.cpp executes them, TLC validates each.
    The register machine also has a proxy-flag closure kind (optbr: xoptional<T&, bitset reference>).
 Every recorded trace is validated by TLC against LiftedTrace.tla (L1 is the oracle): has/visible,
 value, evaluation-counter delta, all registers, the referents of reference closures and which
 registers share a cell.

 Robustness (round 2): the harness is built first as one program; if it does not build against the
 tree, every overload family is compiled as its own small probe (a family that does not compile is a
 VIOLATION naming the overload), and a degraded harness without those operations runs the rest.  A
 crash / sanitizer report / CPU-limit ends an execution with a Crash event and the driver is restarted
 for the remaining executions.  A rejection at a housekeeping call is advisory and validation resumes
 behind it (Sync) instead of skipping the execution.  Reported violations are re-executed once.
"""
import json, os, random, re, subprocess, sys, threading
from vlib import core, tlaval
from vlib.core import MachineryError

OPS_DEF = os.path.join(core.HARNESS, "lifted", "ops.def")
OPS_TLA = os.path.join(core.SPECS, "LiftedOps.tla")
DRIVER = os.path.join(core.HARNESS, "lifted", "driver.cpp")
NPARTS = 8
M = 46000

OPT_KINDS = ("opt", "optref", "optcr", "optvr", "optbr", "dopt")
MSK_KINDS = ("masked", "mref", "dmasked", "mo")
PLAIN_KINDS = ("plain", "int", "dplain", "po")
D_KINDS = ("dplain", "dopt", "dmasked")            # double-valued registers (real IEEE operands)
MIX_KINDS = ("mo", "po")                           # xmasked_value<xoptional<T>> and the bare xoptional<T> beside it
NANV = 2147480000                                  # how a NaN is written in scripts and traces
NAV = 2147470000                                   # a mo / po register whose inner optional is missing
DTAB = list(range(1000000, 1000020))               # indices into the harness's table of remarkable doubles
WRITABLE = ("opt", "optref", "optvr", "optbr", "masked", "mref", "dopt", "dmasked", "mo")
D_NOFUNS = {"mod", "band", "bor", "bxor", "bitnot", "mod_eq", "band_eq", "bor_eq", "bxor_eq"}
CATS = ("cl", "lv", "rv")                          # value category / constness of the right operand of a compound assignment
VALREF = ("optref", "optcr", "optvr", "mref", "optbr")
FLAGREF = ("optref", "optcr", "mref", "optbr")
BITFLAG = ("optbr",)                               # the flag is a proxy for one bit of a caller's bitset
# the constructor used to put a register of a given kind into a given abstract state
CANON_HOW = {"plain": "plain", "int": "int", "opt": "opt2", "optref": "optref", "optcr": "optcr", "optvr": "optvr", "optbr": "optbr",
             "masked": "masked2", "mref": "mref", "dplain": "dplain", "dopt": "dopt2", "dmasked": "dmasked2",
             "mo": "mo2", "po": "po2"}
ALT_HOW = {"opt": ["opt2", "optional_vv", "opt_from_ref", "opt_from_cref", "opt_from_vr", "opt_from_int", "opt_from_intmv"],
           "optref": ["optref", "optional_rr"], "optvr": ["optvr", "optional_rv"],
           "masked": ["masked2", "masked_value2"], "mref": ["mref", "masked_value_rr"]}
HOUSE_OPS = {"Get", "SetFlag", "SetVal", "AssignVal", "AssignReg", "Swap"}     # (Get member stays available without them)
MAX_VIOLATIONS = 12       # a pervasive defect: this many rejections with replays are enough
MAX_EXPLAIN = 12
CONFIRM = 4


def is_advisory(evj):
    """Calls whose semantics is documented class behaviour, not part of the property sentence: a rejection at
    one of these events is advisory (MODEL-DRIFT), never a VIOLATION.  Verdict-relevant are the lifted calls
    the statement names (operators, comparisons, compound assignments, lifted functions, select, value_or) and
    what defines "an operand that is present / missing and holds v": construction from (value, flag), the
    member accessors has_value() / visible() / value(), and the caller's own writes to the referents of a
    reference closure."""
    op, a = evj.get("op"), evj.get("a", {})
    if op in ("SetFlag", "SetVal", "AssignVal", "AssignReg", "Swap"):
        return True
    if op == "Load":
        return a.get("how") not in CANON_HOW.values()
    if op == "Get":
        return a.get("path") != "member"
    return False


# ------------------------------------------------------------------ the operation table
def parse_ops_def(path=OPS_DEF):
    t = {"UNOP": [], "BINOP": [], "CMPOP": [], "ASGOP": [], "UFUN": [], "UPRED": [], "BFUN": [], "TFUN": []}
    with open(path) as f:
        for line in f:
            m = re.match(r"\s*L_(\w+)\((.*)\)\s*$", line)
            if m and m.group(1) in t:
                t[m.group(1)].append([x.strip() for x in m.group(2).split(",")])
    return t


def extract_from_headers(include):
    """The operations the two headers lift, read off their operator declarations and macro invocations."""
    xo = open(os.path.join(include, "xtl", "xoptional.hpp")).read()
    xm = open(os.path.join(include, "xtl", "xmasked_value.hpp")).read()
    opt, msk = {}, {}
    # xoptional: free operators taking an xoptional, member compound assignments, macro invocations
    free = re.findall(r"operator\s*([-+*/%&|^<>=!]+)\s*\(const (?:xoptional<T1, B1>|T1)& e1, const (?:xoptional<T2, B2>|T2)& e2\)", xo)
    unary = re.findall(r"operator\s*([-+~!])\s*\(const xoptional<T, B>& e\)", xo)
    opt["unop"] = sorted(set(unary))
    opt["binop"] = sorted(set(x for x in free if x not in ("==", "!=")) - set())
    opt["cmpop"] = sorted(set(x for x in free if x in ("==", "!=")))
    opt["asgop"] = sorted(set(re.findall(r"xoptional& operator\s*([-+*/%&|^]=)\s*\(const xoptional<CTO, CBO>&\);", xo)))
    opt["asgop_plain"] = sorted(set(re.findall(r"xoptional& operator\s*([-+*/%&|^]=)\s*\(const T&\);", xo)))
    for key, mac in (("ufun", "UNARY_OPTIONAL"), ("upred", "UNARY_BOOL_OPTIONAL"), ("bfun", "BINARY_OPTIONAL"), ("tfun", "TERNARY_OPTIONAL")):
        opt[key] = re.findall(r"^\s+%s\((\w+)\)\s*$" % mac, xo, re.M)
    # xmasked_value: macro invocations + explicitly written unary operators and ==, !=
    msk["unop"] = sorted(set(re.findall(r"operator\s*([-+~!])\s*\(const xmasked_value<T, B>& e\)", xm)))
    msk["binop"] = sorted(set(re.findall(r"^\s+DEFINE_(?:BOOL_)?OPERATOR\((\S+)\);", xm, re.M)))
    msk["cmpop"] = sorted(set(re.findall(r"inline bool operator\s*(==|!=)\s*\(", xm)))
    msk["asgop"] = sorted(set(x for x in re.findall(r"^\s+DEFINE_ASSIGN_OPERATOR\((\S+)\);", xm, re.M) if x != "="))
    for key, mac in (("ufun", "DEFINE_UNARY_OPERATOR"), ("upred", "DEFINE_UNARY_BOOL_OPERATOR"), ("bfun", "DEFINE_BINARY_OPERATOR"), ("tfun", "DEFINE_TERNARY_OPERATOR")):
        msk[key] = re.findall(r"^\s+%s\((\w+)\)\s*$" % mac, xm, re.M)
    return opt, msk


def table_vs_headers(t, include):
    """List of differences between ops.def and what the headers define (empty = in sync)."""
    want = {"unop": sorted(x[1] for x in t["UNOP"]), "binop": sorted(x[1] for x in t["BINOP"]),
            "cmpop": sorted(x[1] for x in t["CMPOP"]), "asgop": sorted(x[1] for x in t["ASGOP"]),
            "ufun": [x[0] for x in t["UFUN"]], "upred": [x[0] for x in t["UPRED"]],
            "bfun": [x[0] for x in t["BFUN"]], "tfun": [x[0] for x in t["TFUN"]]}
    try:
        opt, msk = extract_from_headers(include)
    except Exception as e:          # (advisory step: a tree it cannot read is not a machinery failure of the check)
        return ["the headers could not be scanned for their operation list: %s" % e]
    diffs = []
    for name, got in (("xoptional.hpp", opt), ("xmasked_value.hpp", msk)):
        for key, w in want.items():
            g = got[key]
            if sorted(g) != sorted(w):
                diffs.append("%s %s: header has %s, table lacks/has extra %s" % (
                    name, key, sorted(set(g) - set(w)), sorted(set(w) - set(g))))
    if sorted(opt["asgop_plain"]) != want["asgop"]:
        diffs.append("xoptional.hpp compound assignment with a plain right operand: %s" % opt["asgop_plain"])
    return diffs


def gen_ops_tla(t):
    def s(names):
        return "{" + ", ".join('"%s"' % n for n in names) + "}"
    code = [(x[0], x[2]) for x in t["UNOP"] + t["BINOP"] + t["CMPOP"]] + [(x[0], x[1]) for x in t["UFUN"] + t["UPRED"] + t["BFUN"] + t["TFUN"]]
    boolres = [x[0] for x in t["UNOP"] if x[3] == "B"] + [x[0] for x in t["BINOP"] if x[3] == "B"] + [x[0] for x in t["UPRED"]]
    lines = [
        "------------------------------ MODULE LiftedOps ------------------------------",
        "(* GENERATED from harness/lifted/ops.def by `python3 -m checks.c04 gen` - do not edit.     *)",
        "(* The operators and <cmath> names that xoptional.hpp and xmasked_value.hpp lift, with the *)",
        "(* codes of the toy algebra shared with harness/lifted/probe.hpp.                          *)",
        "UnOps     == " + s(x[0] for x in t["UNOP"]),
        "BinOps    == " + s(x[0] for x in t["BINOP"]),
        "ToyBinOps == " + s(x[0] for x in t["BINOP"] if x[4] == "TOY"),
        "CmpOps    == " + s(x[0] for x in t["CMPOP"]),
        "AsgOps    == " + s(x[0] for x in t["ASGOP"]),
        "AsgBase   == [" + ", ".join("%s |-> \"%s\"" % (x[0], x[2]) for x in t["ASGOP"]) + "]",
        "UFuns     == " + s(x[0] for x in t["UFUN"]),
        "UPreds    == " + s(x[0] for x in t["UPRED"]),
        "BFuns     == " + s(x[0] for x in t["BFUN"]),
        "TFuns     == " + s(x[0] for x in t["TFUN"]),
        "BoolRes   == " + s(boolres),
        "AllFuns   == UnOps \\cup BinOps \\cup CmpOps \\cup AsgOps \\cup UFuns \\cup UPreds \\cup BFuns \\cup TFuns",
        "Code      == [" + ", ".join("%s |-> %s" % c for c in code) + "]",
        "=============================================================================",
    ]
    out = []
    for l in lines:           # wrap long lines at commas (TLA+ has no line-length limit, but keep it readable)
        while len(l) > 118:
            cut = l.rfind(", ", 0, 118) + 1
            out.append(l[:cut])
            l = "              " + l[cut:].lstrip()
        out.append(l)
    return "\n".join(out) + "\n"


# ------------------------------------------------------------------ scripts
def ev(op, **a):
    return {"op": op, "a": a}


def load_event(i, reg, rnd=None):
    """The Load that puts register i into abstract state reg = {kind, has, val}."""
    how = CANON_HOW[reg["kind"]]
    if rnd is not None and reg["kind"] in ALT_HOW and reg["val"] != NAV:
        how = rnd.choice(ALT_HOW[reg["kind"]])
    return ev("Load", i=i, how=how, has=bool(reg["has"]), v=reg["val"])


def emitted(out):
    res = []
    for line in out.splitlines():
        if line.startswith('"@E@'):
            res.append(json.loads(json.loads(line)[3:]))
    return res


MUTATING = {"Compound", "SetFlag", "SetVal", "Poke", "AssignVal", "AssignReg", "Swap", "Load", "Alias"}


def edge_scripts(edges, nreg, rnd, per_exec=40):
    """Every call TLC enumerated, grouped by source register file (registers + which of them share a cell).
    Before a call the registers that are not (known to be) in the source state are loaded; calls that only
    compute come first, after a mutating call the touched registers are loaded again.  A Reset starts a new
    execution every per_exec sources."""
    by_src = {}
    for e in edges:
        key = json.dumps([e["p"], e.get("va"), e.get("fa")], sort_keys=True)
        by_src.setdefault(key, []).append(e["l"])
    lines, taken = [], 0
    plain0 = {"kind": "plain", "has": True, "val": 0}
    cur = None
    for n, key in enumerate(sorted(by_src)):
        regs, va, fa = json.loads(key)
        regs = regs + [plain0] * (nreg - len(regs))
        va = (va or list(range(1, len(regs) + 1))) + list(range(len(va or regs) + 1, nreg + 1))
        fa = (fa or list(range(1, len(regs) + 1))) + list(range(len(fa or regs) + 1, nreg + 1))
        # the source state of register i: its content and the register whose cells it shares (0 = its own)
        src = []
        for i, x in enumerate(regs):
            j = va[i] if (x["kind"] in VALREF and va[i] != i + 1 and regs[va[i] - 1]["kind"] in VALREF) else 0
            src.append((json.dumps(x, sort_keys=True), j, fa[i] if j else 0))
        shared = any(s[1] for s in src)
        calls = sorted(by_src[key], key=lambda c: (c["op"] in MUTATING or bool(c["a"].get("d", 0)), json.dumps(c, sort_keys=True)))
        if n % per_exec == 0:
            lines.append(ev("Reset", n=nreg))
            cur = [(json.dumps(plain0, sort_keys=True), 0, 0)] * nreg
        for c in calls:
            for i, x in enumerate(regs):
                if cur[i] != src[i]:
                    j = src[i][1]
                    if j:
                        lines.append(ev("Alias", i=i + 1, how=x["kind"], j=j, has=bool(x["has"])))
                    else:
                        lines.append(load_event(i + 1, x, rnd))
                        for k in range(i + 1, nreg):        # registers closing over the cells of i have lost them
                            if src[k][1] == i + 1:
                                cur[k] = None
                    cur[i] = src[i]
            lines.append({"op": c["op"], "a": c["a"]})
            taken += 1
            a = c["a"]
            if c["op"] in MUTATING:
                if shared:
                    cur = [None] * nreg
                for x in ("i", "j"):
                    if x in a:
                        cur[a[x] - 1] = None
            if a.get("d", 0):
                cur[a["d"] - 1] = None
                if shared:
                    cur = [None] * nreg
    return lines, taken


def sim_scripts(simdir, nreg):
    lines, n = [], 0
    for fn in sorted(os.listdir(simdir)):
        states = tlaval.parse_sim_trace(os.path.join(simdir, fn))
        if len(states) < 2:
            continue
        lines.append(ev("Reset", n=nreg))
        for i, x in enumerate(states[0]["r"]):
            lines.append(load_event(i + 1, x))
        for s in states[1:]:
            lines.append({"op": s["last"]["op"], "a": s["last"]["a"]})
        n += 1
    return lines, n


class Gen:
    """Random expression sequences.  The shadow tracks kinds exactly and presence / value only where it
    knows them from its own Loads (to respect the one C++ precondition: no division or modulo by a
    present zero); it predicts no results."""

    def __init__(self, rnd, t, nreg):
        self.r, self.t, self.n = rnd, t, nreg
        self.kind = ["plain"] * (nreg + 1)
        self.has = [True] * (nreg + 1)      # True / False / None (unknown)
        self.val = [0] * (nreg + 1)         # int / None (unknown)
        self.cellv = list(range(nreg + 1))  # which registers share a value cell / a flag cell (ids as in the spec)
        self.cellf = list(range(nreg + 1))
        self.un = [x[0] for x in t["UNOP"] + t["UFUN"] + t["UPRED"]]
        self.bin = [x[0] for x in t["BINOP"] + t["BFUN"]]
        self.boolres = set(x[0] for x in t["UNOP"] + t["BINOP"] if x[3] == "B") | set(x[0] for x in t["UPRED"])
        self.asg = [(x[0], x[2]) for x in t["ASGOP"]]
        self.cmp = [x[0] for x in t["CMPOP"]]
        self.tern = [x[0] for x in t["TFUN"]]
        self.d_un = [f for f in self.un if f not in D_NOFUNS]
        self.d_bin = [f for f in self.bin if f not in D_NOFUNS]
        self.d_asg = [(f, b) for f, b in self.asg if f not in D_NOFUNS]

    def dvalue(self):
        return self.r.choice([-3, -2, -1, 0, 0, 1, 2, 3, 7, 1000, NANV, NANV] + DTAB)

    def value(self, kind=None):
        if kind in D_KINDS:
            return self.dvalue()
        c = self.r.random()
        if kind in MIX_KINDS and c < 0.3:
            return NAV
        if c < 0.55:
            return self.r.choice([-2, -1, 0, 0, 1, 2, 3, 7])
        if c < 0.75:
            return self.r.choice([M, -M, M - 1, -M + 1, 214, -215, 23000, -23001])
        return self.r.randrange(-M, M + 1)

    def fam(self, k):
        return "o" if k in OPT_KINDS else "m" if k in MSK_KINDS else "p"

    def regs(self, pred):
        return [i for i in range(1, self.n + 1) if pred(self.kind[i])]

    # ---- which registers share cells (mirrors Lifted.tla's va / fa)
    def fresh(self, ids, i):
        used = set(ids[j] for j in range(1, self.n + 1) if j != i)
        return min(k for k in range(1, self.n + 1) if k not in used)

    def recreate(self, i):
        self.cellv[i] = self.fresh(self.cellv, i)
        self.cellf[i] = self.fresh(self.cellf, i)

    def sharers(self, i):
        """Registers whose view may change when register i is written (value cell or flag cell in common)."""
        out = []
        for k in range(1, self.n + 1):
            if k == i:
                continue
            if (self.kind[k] in VALREF and self.kind[i] in VALREF and self.cellv[k] == self.cellv[i]) or \
                    (self.kind[k] in FLAGREF and self.kind[i] in FLAGREF and self.cellf[k] == self.cellf[i]):
                out.append(k)
        return out

    def wrote(self, i):
        """Register i was written through: the shadow forgets the content of every register sharing a cell with it."""
        for k in self.sharers(i):
            self.has[k], self.val[k] = None, None

    def load(self, i, kind=None, has=None, v=None):
        r = self.r
        kind = kind or r.choice(["opt", "optref", "masked", "mref", "plain", "opt", "optcr", "optvr", "optbr", "int", "masked",
                                 "dopt", "dmasked", "dplain", "mo", "mo", "po"])
        hows = {"dplain": ["dplain"], "dopt": ["dopt2"], "dmasked": ["dmasked2"], "plain": ["plain"], "int": ["int"],
                "opt": ["opt2", "opt2", "opt1", "optdef", "missing", "optional_vv", "opt_from_ref", "opt_from_cref", "opt_from_vr", "opt_from_int", "opt_from_intmv"],
                "optref": ["optref", "optional_rr"], "optcr": ["optcr"], "optvr": ["optvr", "optional_rv"], "optbr": ["optbr"],
                "masked": ["masked2", "masked2", "masked1", "maskedf", "masked_value1", "masked_value2", "maskeddef"],
                "mref": ["mref", "masked_value_rr"], "mo": ["mo2"], "po": ["po2"]}[kind]
        how = r.choice(hows) if has is None else CANON_HOW[kind]
        if has is None:
            has = r.random() < 0.6
        if v is None:
            v = self.value(kind)
        self.kind[i] = kind
        self.recreate(i)
        if how in ("plain", "int", "dplain", "opt1", "masked1", "masked_value1", "po2"):
            has = True
        if how in ("optdef", "missing", "maskedf"):
            has, v = True, 0
            self.has[i], self.val[i] = False, None
        elif how == "maskeddef":
            has, v = True, 0
            self.has[i], self.val[i] = None, None
        else:
            self.has[i], self.val[i] = has, (v if v not in DTAB else None)
        return ev("Load", i=i, how=how, has=has, v=v)

    def alias(self):
        """A second (third) closure over the cells of an existing reference closure."""
        r = self.r
        srcs = self.regs(lambda k: k in VALREF)
        if not srcs:
            return None
        j = r.choice(srcs)
        i = r.choice([k for k in range(1, self.n + 1) if k != j])
        hows = ["optvr"] + (["optref", "optcr", "mref", "mref", "optref"] if self.kind[j] in FLAGREF and self.kind[j] not in BITFLAG else [])
        how = r.choice(hows)
        has = r.random() < 0.6 if how == "optvr" else True
        self.kind[i] = how
        self.cellv[i] = self.cellv[j]
        self.val[i] = self.val[j]
        if how == "optvr":
            self.cellf[i] = self.fresh(self.cellf, i)
            self.has[i] = has
        else:
            self.cellf[i] = self.cellf[j]
            self.has[i] = self.has[j]
        return ev("Alias", i=i, how=how, j=j, has=has)

    def forget(self, i, kind=None):
        if kind:
            self.kind[i] = kind
            self.recreate(i)
        self.has[i], self.val[i] = None, None

    def div_safe(self, idxs, j):
        """x / r[j] is inside the C++ contract: the divisor is known non-zero (or a missing inner optional),
        or some operand is known missing / known to hold a missing inner optional."""
        if self.val[j] is not None and self.val[j] != 0:
            return True
        return any(self.has[i] is False or self.val[i] == NAV for i in idxs)

    def pick_operands(self, n):
        """n registers with at least one lifted operand, no mixing of the two families or of the value types."""
        r = self.r
        for _ in range(40):
            idx = [r.randrange(1, self.n + 1) for _ in range(n)]
            ks = [self.kind[i] for i in idx]
            fams = set(self.fam(k) for k in ks)
            if ("o" in fams) != ("m" in fams) and len(set(k in D_KINDS for k in ks)) == 1 and len(set(k in MIX_KINDS for k in ks)) == 1:
                return idx
        return None

    def isd(self, idx):
        return self.kind[idx[0]] in D_KINDS

    def ismix(self, idx):
        return self.kind[idx[0]] in MIX_KINDS

    def dest(self, idx, boolres):
        """Register the result is stored to (0 = not stored): value results of the integer algebra only."""
        if boolres or self.isd(idx) or self.r.random() < 0.5:
            return 0
        return self.r.randrange(1, self.n + 1)

    def res_kind(self, idx):
        if self.ismix(idx):
            return "mo"
        return "opt" if "o" in [self.fam(self.kind[i]) for i in idx] else "masked"

    def step(self):
        r = self.r
        for _ in range(200):
            c = r.random()
            if c < 0.14:
                return self.load(r.randrange(1, self.n + 1))
            if c < 0.18:
                e = self.alias()
                if e is None:
                    continue
                return e
            if c < 0.22:     # the property's own example: division / modulo by a missing zero
                idx = self.pick_operands(2)
                if not idx or self.kind[idx[1]] in PLAIN_KINDS or self.kind[idx[0]] == "optcr" or self.isd(idx) or self.ismix(idx):
                    continue
                i, j = idx
                if i == j:
                    continue
                first = self.load(j, self.kind[j], False, 0)
                if r.random() < 0.5 and self.kind[i] in WRITABLE:
                    f = r.choice(["div_eq", "mod_eq"])
                    nxt = ev("Compound", f=f, i=i, j=j, cj=r.choice(CATS))
                    self.has[i] = False
                    self.wrote(i)
                else:
                    nxt = ev("Binary", f=r.choice(["div", "mod"]), i=i, j=j, d=0)
                return [first, nxt]
            if c < 0.31:
                idx = self.pick_operands(1)
                if not idx:
                    continue
                f = r.choice(self.d_un if self.isd(idx) else self.un)
                d = self.dest(idx, f in self.boolres)
                e = ev("Unary", f=f, i=idx[0], d=d)
                if d:
                    self.forget(d, self.res_kind(idx))
                return e
            if c < 0.52:
                idx = self.pick_operands(2)
                if not idx:
                    continue
                d_ = self.isd(idx)
                f = r.choice(self.d_bin if d_ else self.bin)
                if f in ("div", "mod") and not d_ and not self.div_safe(idx, idx[1]):
                    continue
                d = self.dest(idx, f in self.boolres)
                e = ev("Binary", f=f, i=idx[0], j=idx[1], d=d)
                if d:
                    self.forget(d, self.res_kind(idx))
                return e
            if c < 0.60:
                idx = self.pick_operands(3)
                if not idx:
                    continue
                d = self.dest(idx, False)
                e = ev("Ternary", f=r.choice(self.tern), i=idx[0], j=idx[1], k=idx[2], d=d)
                if d:
                    self.forget(d, self.res_kind(idx))
                return e
            if c < 0.72:
                idx = self.pick_operands(2)
                if not idx or self.kind[idx[0]] not in WRITABLE:
                    continue
                d_ = self.isd(idx)
                f, base = r.choice(self.d_asg if d_ else self.asg)
                if base in ("div", "mod") and not d_ and not self.div_safe(idx, idx[1]):
                    continue
                i, j = idx
                hi, hj = self.has[i], self.has[j]
                self.has[i] = False if (hi is False or hj is False) else (True if (hi and hj) else None)
                self.val[i] = None
                self.wrote(i)
                return ev("Compound", f=f, i=i, j=j, cj=r.choice(CATS))
            if c < 0.78:
                idx = self.pick_operands(2)
                if not idx:
                    continue
                return ev("Compare", f=r.choice(self.cmp), i=idx[0], j=idx[1])
            if c < 0.84:
                ok = self.regs(lambda k: (k in OPT_KINDS or k in PLAIN_KINDS) and k not in MIX_KINDS)
                if len(ok) < 1:
                    continue
                i, j = r.choice(ok), r.choice(ok)
                lifted = r.random() < 0.6
                ks = {self.kind[i], self.kind[j]}
                if lifted and ks == {"int"}:
                    continue
                if len(set(k in D_KINDS for k in ks)) != 1:
                    continue
                dd = bool(ks & set(D_KINDS))
                if not lifted and not (ks & set(OPT_KINDS)):
                    continue
                cnd = {"lifted": lifted, "has": (r.random() < 0.7) if lifted else True, "val": r.random() < 0.5}
                d = 0 if dd or r.random() < 0.5 else r.randrange(1, self.n + 1)
                e = ev("Select", c=cnd, i=i, j=j, d=d)
                if d:
                    self.forget(d, "opt")
                return e
            if c < 0.87:
                ok = self.regs(lambda k: k in OPT_KINDS)
                if not ok:
                    continue
                i = r.choice(ok)
                dv = self.value(self.kind[i])
                if dv in DTAB:
                    continue
                return ev("ValueOr", i=i, dv=dv, form=r.choice(["lv", "rv", "crv"]))
            if c < 0.91:
                i = r.randrange(1, self.n + 1)
                k = self.kind[i]
                if k in MIX_KINDS:
                    paths = ["member"] if k == "mo" else []
                else:
                    paths = (["member", "rvalue", "stream"] if k not in PLAIN_KINDS else []) + (["free"] if k in OPT_KINDS or k == "plain" else []) + \
                            (["conv"] if k in MSK_KINDS else [])
                if not paths:
                    continue
                return ev("Get", i=i, path=r.choice(paths))
            if c < 0.95:
                i = r.randrange(1, self.n + 1)
                k = self.kind[i]
                t = r.randrange(4)
                if t == 0 and k in WRITABLE:
                    b = r.random() < 0.5
                    self.has[i] = b
                    self.wrote(i)
                    return ev("SetFlag", i=i, b=b)
                if t == 1 and k not in ("optcr", "mo", "po"):
                    v = self.value(k)
                    if v in DTAB:
                        continue
                    self.val[i] = v
                    self.wrote(i)
                    return ev("SetVal", i=i, v=v)
                if t == 2 and k in VALREF:
                    v, h = self.value(), r.random() < 0.5
                    self.val[i] = v
                    if k != "optvr":
                        self.has[i] = h
                    self.wrote(i)
                    return ev("Poke", i=i, has=h, v=v)
                if t == 3 and k in WRITABLE and k not in MIX_KINDS:
                    v = self.value(k)
                    if v in DTAB:
                        continue
                    if k in OPT_KINDS:
                        self.has[i], self.val[i] = True, v
                    elif self.has[i]:
                        self.val[i] = v
                    elif self.has[i] is None:
                        self.val[i] = None
                    self.wrote(i)
                    return ev("AssignVal", i=i, v=v)
                continue
            # assignment between registers, swap
            i, j = r.randrange(1, self.n + 1), r.randrange(1, self.n + 1)
            ki, kj = self.kind[i], self.kind[j]
            if ki in MIX_KINDS or kj in MIX_KINDS:
                continue
            if r.random() < 0.5:
                if ki in WRITABLE and kj not in PLAIN_KINDS and self.fam(ki) == self.fam(kj) and not (ki == kj and ki in VALREF) \
                        and (ki in D_KINDS) == (kj in D_KINDS):
                    if ki in OPT_KINDS or ki == kj:
                        self.has[i], self.val[i] = self.has[j], self.val[j]
                    else:
                        self.has[i], self.val[i] = None, None
                    self.wrote(i)
                    return ev("AssignReg", i=i, j=j)
            elif ki == kj and ki in WRITABLE:
                self.has[i], self.has[j] = self.has[j], self.has[i]
                self.val[i], self.val[j] = self.val[j], self.val[i]
                self.wrote(i); self.wrote(j)
                if j in self.sharers(i):
                    self.has[i] = self.has[j] = None
                    self.val[i] = self.val[j] = None
                return ev("Swap", i=i, j=j, how=r.choice(["member", "free"]) if ki in MSK_KINDS else "member")
        return self.load(1)


def random_script(seed, t, nexec, nops, nreg=4):
    rnd = random.Random(seed * 7919 + 13)
    lines = []
    for _ in range(nexec):
        g = Gen(rnd, t, nreg)
        lines.append(ev("Reset", n=nreg))
        for i in range(1, nreg + 1):
            lines.append(g.load(i))
        k = 0
        while k < nops:
            e = g.step()
            for x in (e if isinstance(e, list) else [e]):
                lines.append(x)
                k += 1
    return lines


def upstream_script():
    """The call sequences of the upstream tests (test_xoptional.cpp, test_xmasked_value.cpp) that fall inside the
    register machine, transcribed call by call (doubles 1.2 / 2.3 / 5.2 ... replaced by small integers and the
    harness's remarkable doubles; xoptional<double&, bool&> by the reference kinds over the counting type).  The
    upstream assertions compare a few results; here every call and every register is validated against L1."""
    L = []
    R = lambda n: L.append(ev("Reset", n=n))
    Ld = lambda i, how, has, v: L.append(ev("Load", i=i, how=how, has=has, v=v))
    B = lambda f, i, j, d=0: L.append(ev("Binary", f=f, i=i, j=j, d=d))
    U = lambda f, i, d=0: L.append(ev("Unary", f=f, i=i, d=d))
    T = lambda f, i, j, k, d=0: L.append(ev("Ternary", f=f, i=i, j=j, k=k, d=d))
    C = lambda f, i, j: L.append(ev("Compare", f=f, i=i, j=j))
    A = lambda f, i, j: L.append(ev("Compound", f=f, i=i, j=j))
    G = lambda i, path="member": L.append(ev("Get", i=i, path=path))
    # xoptional.scalar_tests / free_functions
    R(3); Ld(1, "optdef", True, 0); G(1); G(1, "free"); Ld(2, "opt1", True, 1); G(2); G(2, "free")
    Ld(1, "optional_rr", False, 3); G(1); L.append(ev("AssignVal", i=1, v=1)); G(1); G(1, "free")
    Ld(2, "optional_rv", True, 3); L.append(ev("AssignVal", i=2, v=2)); G(2); L.append(ev("SetVal", i=2, v=2)); G(2, "free")
    # xoptional.comparison
    R(3); Ld(1, "dopt2", True, 1); Ld(2, "dopt2", True, 1); Ld(3, "dopt2", False, 0)
    C("eq", 1, 2); C("ne", 1, 3); C("eq", 3, 3); C("ne", 1, 2)
    Ld(3, "dplain", True, 1); C("eq", 1, 3); C("eq", 3, 1); C("ne", 3, 2)
    # xoptional.io
    R(2); Ld(1, "dopt2", True, 1000002); G(1, "stream"); Ld(2, "dopt2", False, 0); G(2, "stream"); Ld(2, "missing", True, 0); G(2, "stream")
    # xoptional.implicit_constructor / conversions
    R(2); Ld(1, "opt_from_int", True, 3); G(1); Ld(2, "opt_from_ref", True, 4); B("plus", 1, 2); Ld(1, "opt_from_cref", False, 5); B("plus", 1, 2)
    # xoptional.xoptional_proxy: reference closures o1 (12), o2 (23), o3 (45); + - * / < fma; % & | ^ ~ || &&
    R(4); Ld(1, "optref", True, 12); Ld(2, "optref", True, 23); Ld(3, "optref", True, 45)
    for f in ("plus", "minus", "mul", "div", "lt"):
        B(f, 1, 2)
    T("fma", 1, 2, 3)
    Ld(1, "optref", True, 9); Ld(2, "optref", True, 4)
    for f in ("mod", "band", "bor", "bxor", "lor", "land"):
        B(f, 1, 2)
    U("bitnot", 1)
    # ... and the same on doubles 1.5, -2.5, 0.1
    R(4); Ld(1, "dopt2", True, 1000002); Ld(2, "dopt2", True, 1000003); Ld(3, "dopt2", True, 1000004)
    for f in ("plus", "minus", "mul", "div", "lt"):
        B(f, 1, 2)
    T("fma", 1, 2, 3)
    # xoptional.select
    R(3); Ld(1, "dopt2", False, 0); Ld(2, "dplain", True, 3)
    L.append(ev("Select", c={"lifted": False, "has": True, "val": True}, i=1, j=2, d=0))
    L.append(ev("Select", c={"lifted": False, "has": True, "val": False}, i=1, j=2, d=0))
    Ld(1, "dplain", True, 2)
    L.append(ev("Select", c={"lifted": True, "has": True, "val": True}, i=1, j=2, d=0))
    L.append(ev("Select", c={"lifted": True, "has": True, "val": False}, i=1, j=2, d=0))
    # xmasked_value.ctor / value / visible / conversion
    R(3); Ld(1, "masked1", True, 5); G(1); Ld(2, "masked2", False, 5); G(2); Ld(3, "maskedf", True, 0); G(3)
    Ld(1, "mref", True, 5); L.append(ev("SetVal", i=1, v=3)); G(1); L.append(ev("SetFlag", i=1, b=False)); G(1); G(1, "conv")
    # xmasked_value.comparison
    R(3); Ld(1, "dmasked2", True, 5); Ld(2, "dmasked2", True, 5); Ld(3, "dmasked2", False, 5)
    C("eq", 1, 2); C("ne", 1, 2); C("eq", 1, 3); C("eq", 3, 3); C("ne", 1, 3)
    Ld(2, "dplain", True, 5); C("eq", 1, 2); C("eq", 2, 1); C("eq", 3, 2); C("ne", 2, 3)
    # xmasked_value.swap
    R(2); Ld(1, "masked2", True, 5); Ld(2, "masked2", False, 3); L.append(ev("Swap", i=1, j=2, how="member")); L.append(ev("Swap", i=1, j=2, how="free"))
    # xmasked_value.arithm_neg / plus / minus / mult / div, operator_less ... more_equal (m visible, then masked)
    for vis in (True, False):
        R(3); Ld(1, "dmasked2", vis, 10); Ld(2, "dplain", True, 2); Ld(3, "dmasked2", True, 1000000)
        U("neg", 1); U("pos", 1)
        for f in ("plus", "minus", "mul", "div", "lt", "le", "gt", "ge"):
            B(f, 1, 1); B(f, 1, 2); B(f, 2, 1); B(f, 1, 3); B(f, 3, 1)
    # xmasked_value.operator_or / operator_and / operator_not
    for vis in (True, False):
        R(3); Ld(1, "dmasked2", vis, 1); Ld(2, "dplain", True, 0); Ld(3, "dplain", True, 1)
        for f in ("lor", "land"):
            B(f, 1, 1); B(f, 1, 2); B(f, 2, 1); B(f, 1, 3); B(f, 3, 1)
        U("lognot", 1)
    # xmasked_value.assign: c = v, c += 1, c -= 1, c *= 2, c -= b; masked: the assignments do nothing
    R(3); Ld(1, "mref", True, 5); Ld(2, "plain", True, 1); Ld(3, "plain", True, 2)
    L.append(ev("AssignVal", i=1, v=3)); A("plus_eq", 1, 2); A("minus_eq", 1, 2); A("mul_eq", 1, 3); A("minus_eq", 1, 1)
    L.append(ev("AssignVal", i=1, v=3)); L.append(ev("SetFlag", i=1, b=False)); L.append(ev("AssignVal", i=1, v=126)); G(1); A("mul_eq", 1, 3); G(1)
    R(3); Ld(1, "dmasked2", True, 1000002); Ld(2, "dplain", True, 1); Ld(3, "dplain", True, 2)
    A("plus_eq", 1, 2); A("minus_eq", 1, 2); A("mul_eq", 1, 3); A("div_eq", 1, 3); L.append(ev("SetFlag", i=1, b=False)); A("mul_eq", 1, 3)
    # xmasked_value.unary_op / unary_bool_op / binary_op / ternary_op (doubles; then masked optionals)
    R(3); Ld(1, "dmasked2", True, 5); Ld(2, "dmasked2", True, 11); Ld(3, "dmasked2", False, 0)
    for f in ("abs", "sqrt", "exp", "isfinite", "isnan"):
        U(f, 1); U(f, 3)
    B("pow", 1, 1); Ld(3, "dplain", True, 2); B("pow", 1, 3); B("pow", 3, 1)
    T("fma", 1, 2, 2); Ld(3, "dmasked2", False, 0); T("fma", 1, 3, 2); T("fma", 2, 1, 3)
    Ld(3, "dplain", True, 2); T("fma", 1, 2, 3); T("fma", 1, 3, 2); T("fma", 3, 1, 2); T("fma", 3, 3, 2); T("fma", 3, 2, 3); T("fma", 2, 3, 3)
    R(4); Ld(1, "po2", True, 2); Ld(2, "mo2", True, 5); Ld(3, "mo2", True, 11); Ld(4, "mo2", False, 0)
    T("fma", 2, 3, 1); T("fma", 2, 1, 3); T("fma", 1, 2, 3); T("fma", 1, 2, 4); T("fma", 1, 1, 3); T("fma", 1, 3, 1); T("fma", 3, 1, 1)
    B("pow", 2, 2); B("pow", 2, 1); B("pow", 1, 2); B("lor", 2, 1); B("lor", 1, 2); B("land", 2, 2); U("lognot", 2)
    return L


def write_script(path, lines):
    with open(path, "w") as f:
        for l in lines:
            f.write((l if isinstance(l, str) else json.dumps(l, separators=(",", ":"))) + "\n")


def chunk_by_reset(lines, nchunks):
    starts = [i for i, l in enumerate(lines) if l["op"] == "Reset"]
    if not starts:
        return [lines]
    per = max(1, (len(starts) + nchunks - 1) // nchunks)
    cuts = starts[::per]
    return [lines[a:b] for a, b in zip(cuts, cuts[1:] + [len(lines)])]


# ------------------------------------------------------------------ running the harness
def run_script(ctx, drv, script_path, trace_path):
    """Feed the script to the driver and record its trace.  A crash (abort of the counting operand type on a
    division by zero, a sanitizer report, an uncaught exception, the per-call CPU limit, a kill by the outer
    time-out) ends the current execution with a Crash event that carries the call during which it happened;
    the driver is started again at the next Reset so that the remaining executions are not lost."""
    env = dict(os.environ); env.update(core.ASAN_ENV)
    with open(script_path) as f:
        script = [l.rstrip("\n") for l in f if l.strip()]
    pos, out, restarts, hangs = 0, [], 0, 0
    while pos < len(script):
        try:
            p = subprocess.run([drv], input=("\n".join(script[pos:]) + "\n").encode(), stdout=subprocess.PIPE, stderr=subprocess.PIPE,
                               env=env, timeout=1500)
            rc, so, se = p.returncode, p.stdout.decode(errors="replace"), p.stderr.decode(errors="replace")
        except subprocess.TimeoutExpired as ex:
            rc, so, se = 124, (ex.stdout or b"").decode(errors="replace"), "[time-out]"
        if rc == 3:
            raise MachineryError("harness rejected script %s: %s" % (script_path, se[-500:]))
        got = [l for l in so.split("\n") if l.strip()]
        why = None
        if got and got[-1].startswith('{"op":"Crash"'):
            why = json.loads(got[-1]).get("why", "crash")
            got = got[:-1]
        normal = [l for l in got if not l.startswith('{"op":"Crash"')]
        if normal and len(normal) <= len(script) - pos:
            try:                       # a line cut off by a kill
                json.loads(normal[-1])
            except Exception:
                normal = normal[:-1]
        out.extend(normal)
        n = len(normal)
        if n >= len(script) - pos and why is None:
            break
        if why is None:
            why = "timeout" if rc == 124 else "exit-%s" % rc
        at = pos + n
        if at >= len(script):          # (crashed after the last call: while destroying the registers)
            out.append(json.dumps({"op": "Crash", "a": {"call": {"op": "exit", "a": {"z": 0}}, "why": why}}, separators=(",", ":")))
            break
        out.append(json.dumps({"op": "Crash", "a": {"call": json.loads(script[at]), "why": why, "stderr": se[-300:] if why in ("asan",) else ""}}, separators=(",", ":")))
        nxt = at + 1
        while nxt < len(script) and not script[nxt].startswith('{"op":"Reset"'):
            nxt += 1
        pos = nxt
        restarts += 1
        hangs += why in ("cpu-limit", "timeout")
        if restarts > 200 or hangs >= 3:      # (every call that does not return costs its whole CPU budget)
            break
    with open(trace_path, "w") as f:
        f.write("\n".join(out) + ("\n" if out else ""))
    return restarts


class BuildFailed(Exception):
    def __init__(self, out):
        Exception.__init__(self, out)
        self.out = out


def build_driver(ctx, tag="", cxx=None, opt="-O0", ops_def=None, no_house=False):
    """The driver instantiates ~2000 lifted overloads: compile its eight parts in parallel (-O0: a third of
    the -O1 compile time), then link.  Raises BuildFailed with the compiler output."""
    drv = os.path.join(ctx.work, "lifted_driver" + tag)
    extra = [opt, "-g1", "-I", os.path.join(core.HARNESS, "lifted")]
    if ops_def:
        extra.append('-DLIFTED_OPS_DEF="%s"' % ops_def)
    if no_house:
        extra.append("-DLIFTED_NO_HOUSE")
    objs = [os.path.join(ctx.work, "lifted%s_part%d.o" % (tag, i)) for i in range(NPARTS)]
    try:
        core.build_many(ctx, [{"src": DRIVER, "out": o, "flags": extra + ["-c", "-DLIFTED_PART=%d" % i], "cxx": cxx} for i, o in enumerate(objs)])
    except MachineryError as e:
        raise BuildFailed(str(e))
    rc, out = core.sh([cxx or core.CXX] + core.ASAN + objs + ["-o", drv], timeout=300)
    if rc != 0:
        raise BuildFailed("harness does not link:\n%s" % out[-3000:])
    return drv


# ------------------------------------------------------------------ overload probes (when the harness does not build)
KIND_TYPE = {"plain": "Probe", "int": "int", "opt": "Opt", "optref": "ORef", "optcr": "OCRef", "optvr": "OVRef", "optbr": "OBRef", "masked": "Msk",
             "mref": "MRef", "dplain": "double", "dopt": "DOpt", "dmasked": "DMsk", "mo": "MO", "po": "Opt"}
KIND_CPP = {"plain": "Probe", "int": "int", "opt": "xoptional<Probe, bool>", "optref": "xoptional<Probe&, bool&>",
            "optcr": "xoptional<const Probe&, const bool&>", "optvr": "xoptional<Probe&, bool>",
            "optbr": "xoptional<Probe&, xdynamic_bitset<unsigned char>::reference>", "masked": "xmasked_value<Probe, bool>",
            "mref": "xmasked_value<Probe&, bool&>", "dplain": "double", "dopt": "xoptional<double, bool>", "dmasked": "xmasked_value<double, bool>",
            "mo": "xmasked_value<xoptional<Probe, bool>, bool>", "po": "xoptional<Probe, bool>"}
FAMILIES = [("opt", ["plain", "int", "opt", "optref", "optcr", "optvr", "optbr"], {"opt", "optref", "optcr", "optvr", "optbr"}),
            ("masked", ["plain", "int", "masked", "mref"], {"masked", "mref"}),
            ("dopt", ["dplain", "dopt"], {"dopt"}), ("dmasked", ["dplain", "dmasked"], {"dmasked"}),
            ("mix", ["mo", "po"], {"mo"})]
PROBE_HEAD = """// generated by checks/c04.py: one lifted operation, every operand-kind pattern, each an explicit instantiation
#include <xtl/xoptional.hpp>
#include <xtl/xmasked_value.hpp>
#include <xtl/xdynamic_bitset.hpp>
#include "probe.hpp"
#include <cmath>
using pr::Probe;
using Opt = xtl::xoptional<Probe, bool>; using ORef = xtl::xoptional<Probe&, bool&>; using OCRef = xtl::xoptional<const Probe&, const bool&>;
using OVRef = xtl::xoptional<Probe&, bool>; using Msk = xtl::xmasked_value<Probe, bool>; using MRef = xtl::xmasked_value<Probe&, bool&>;
using DOpt = xtl::xoptional<double, bool>; using DMsk = xtl::xmasked_value<double, bool>; using MO = xtl::xmasked_value<Opt, bool>;
using BitSet = xtl::xdynamic_bitset<unsigned char>; using OBRef = xtl::xoptional<Probe&, BitSet::reference>;
template <class X> void sink(X&&) {}
"""


def patterns(kinds, lifted, arity):
    import itertools
    return [p for p in itertools.product(kinds, repeat=arity) if any(k in lifted for k in p)]


def probe_units(t):
    """[(name, description, expression template, arity, compound?, kind patterns)] for every lifted operation."""
    units = []
    for x in t["UNOP"]:
        units.append((x[0], "operator%s" % x[1], "%s a" % x[1], 1, False))
    for x in t["UFUN"] + t["UPRED"]:
        units.append((x[0], x[0], "%s(a)" % x[0], 1, False))
    for x in t["BINOP"] + t["CMPOP"]:
        units.append((x[0], "operator%s" % x[1], "a %s b" % x[1], 2, False))
    for x in t["BFUN"]:
        units.append((x[0], x[0], "%s(a, b)" % x[0], 2, False))
    for x in t["TFUN"]:
        units.append((x[0], x[0], "%s(a, b, c)" % x[0], 3, False))
    for x in t["ASGOP"]:
        units.append((x[0], "operator%s" % x[1], "a %s b" % x[1], 2, True))
    return units


def probe_tu(unit, only=None):
    """(source text, {line: kind pattern}) of the probe translation unit of one operation."""
    name, desc, expr, arity, compound = unit
    args = ["a", "b", "c"][:arity]
    src = PROBE_HEAD
    tp = ", ".join("class %s" % x.upper() for x in args)
    if compound:
        src += "template <%s> void use(A& a, const B& b) { %s; }\n" % (tp, expr)
    else:
        src += "template <%s> void use(%s) { sink(%s); }\n" % (tp, ", ".join("const %s& %s" % (x.upper(), x) for x in args), expr)
    lines = {}
    n = src.count("\n")
    for fam, kinds, lifted in FAMILIES:
        if fam in ("dopt", "dmasked") and name in D_NOFUNS:
            continue
        for p in patterns(kinds, lifted, arity):
            if compound and (p[0] not in lifted or p[0] == "optcr"):
                continue
            if fam == "mix" and name in ("eq", "ne") and False:
                continue
            if only is not None and list(p) != list(only):
                continue
            ts = [KIND_TYPE[k] for k in p]
            if compound:
                src += "template void use<%s>(%s&, const %s&);\n" % (", ".join(ts), ts[0], ts[1])
            else:
                src += "template void use<%s>(%s);\n" % (", ".join(ts), ", ".join("const %s&" % x for x in ts))
            n += 1
            lines[n] = p
    return src, lines


CORE_PROBE = PROBE_HEAD + """// construction from (value, flag) and the member accessors: what defines a present / missing operand
template <class W, class V, class F> int core_o(V&& v, F&& f) { W w(static_cast<V&&>(v), static_cast<F&&>(f)); const W& c = w; sink(c.value()); return bool(c.has_value()) ? 1 : 0; }
template <class W, class V, class F> int core_m(V&& v, F&& f) { W w(static_cast<V&&>(v), static_cast<F&&>(f)); const W& c = w; sink(c.value()); return bool(c.visible()) ? 1 : 0; }
int run()
{
    Probe p(1); bool b = true; double d = 1; BitSet bs(3, true);
    return core_o<OBRef>(p, bs[1]) + core_o<Opt>(Probe(1), true) + core_o<ORef>(p, b) + core_o<OCRef>(p, b) + core_o<OVRef>(p, true) + core_o<DOpt>(1.0, true)
         + core_m<Msk>(Probe(1), true) + core_m<MRef>(p, b) + core_m<DMsk>(d, true) + core_m<MO>(Opt(Probe(1), true), true);
}
"""
SELECT_PROBE = PROBE_HEAD + """template <class C, class A, class B> void use(const C& c, const A& a, const B& b) { sink(xtl::select(c, a, b)); }
template <class A, class U> void vor(const A& a, const U& u) { sink(a.value_or(u)); }
using OB = xtl::xoptional<bool, bool>;
"""


def compile_probe(ctx, path):
    cmd = [core.CXX, "-std=c++14", "-fsyntax-only", "-Wno-deprecated-declarations", "-I", core.INCLUDE,
           "-I", os.path.join(core.HARNESS, "lifted"), path]
    return core.sh(cmd, timeout=600)


def attribute(out, base, lines):
    """{kind pattern: first error line} from a compiler log: an error belongs to the explicit instantiation
    named by the closest preceding 'required from here' line of the probe file."""
    res, cur = {}, None
    for l in out.splitlines():
        m = re.search(re.escape(base) + r":(\d+):\d+:\s+required from here", l)
        if m and int(m.group(1)) in lines:
            cur = lines[int(m.group(1))]
            continue
        m = re.search(re.escape(base) + r":(\d+):\d+: error", l)
        if m and int(m.group(1)) in lines:
            cur = lines[int(m.group(1))]
        if "error" in l and cur is not None and cur not in res:
            res[cur] = re.sub(r"^\S+:\d+:\d+:\s*", "", l.strip())[:300]
    return res


def probe_overloads(ctx, t):
    """Compile every lifted operation as its own probe.  Returns (failing, core_ok): failing = [(op name,
    description, kind pattern or None, compiler message)]."""
    from concurrent.futures import ThreadPoolExecutor
    pdir = ctx.sub("probes")
    empty = os.path.join(pdir, "empty.cpp")
    with open(empty, "w") as f:
        f.write(PROBE_HEAD + "int main() { return 0; }\n")
    rc, out = compile_probe(ctx, empty)
    if rc != 0:
        raise MachineryError("the two headers do not compile at all against %s (nothing can be decided about C04):\n%s" % (core.INCLUDE, out[-3000:]))
    failing = []
    cp = os.path.join(pdir, "core.cpp")
    with open(cp, "w") as f:
        f.write(CORE_PROBE)
    rc, out = compile_probe(ctx, cp)
    core_ok = rc == 0
    if not core_ok:
        failing.append(("core", "construction from (value, flag) / has_value() / visible() / value()", None,
                        " | ".join(l.strip() for l in out.splitlines() if "error" in l)[:400]))
    # select and value_or
    sp = os.path.join(pdir, "select.cpp")
    src, n, slines = SELECT_PROBE, SELECT_PROBE.count("\n"), {}
    for cnd in ("bool", "OB"):
        for a in ("plain", "int", "opt", "optref", "optcr", "optvr", "optbr"):
            for b in ("plain", "int", "opt", "optref", "optcr", "optvr", "optbr"):
                if {a, b} <= {"plain", "int"} and (cnd == "bool" or {a, b} == {"int"}):
                    continue
                src += "template void use<%s, %s, %s>(const %s&, const %s&, const %s&);\n" % (cnd, KIND_TYPE[a], KIND_TYPE[b], cnd, KIND_TYPE[a], KIND_TYPE[b])
                n += 1
                slines[n] = ("select", cnd, a, b)
    for a in ("opt", "optref", "optcr", "optvr", "optbr"):
        src += "template void vor<%s, Probe>(const %s&, const Probe&);\n" % (KIND_TYPE[a], KIND_TYPE[a])
        n += 1
        slines[n] = ("value_or", a)
    src += "template void vor<DOpt, double>(const DOpt&, const double&);\n"
    slines[n + 1] = ("value_or", "dopt")
    with open(sp, "w") as f:
        f.write(src)
    rc, out = compile_probe(ctx, sp)
    if rc != 0:
        att = attribute(out, "select.cpp", slines)
        for pat, msg in sorted(att.items()) or [(None, " | ".join(l.strip() for l in out.splitlines() if "error" in l)[:300])]:
            nm = pat[0] if pat else "select"
            failing.append((nm, nm, pat[1:] if pat else None, msg))

    units = probe_units(t)

    def one(u):
        src, lines = probe_tu(u)
        p = os.path.join(pdir, "op_%s.cpp" % u[0])
        with open(p, "w") as f:
            f.write(src)
        rc, out = compile_probe(ctx, p)
        if rc == 0:
            return []
        if rc == 124:
            return [(u[0], u[1], None, "compiling the probe timed out")]
        att = attribute(out, os.path.basename(p), lines)
        if not att:
            return [(u[0], u[1], None, " | ".join(l.strip() for l in out.splitlines() if "error" in l)[:300])]
        return [(u[0], u[1], pat, msg) for pat, msg in sorted(att.items())]
    with ThreadPoolExecutor(max_workers=core.NCPU) as ex:
        for res in ex.map(one, units):
            failing.extend(res)
    ctx.notes["overload_probes_compiled"] = len(units) + 2
    return failing, core_ok


def degraded_ops_def(ctx, skip):
    p = os.path.join(ctx.work, "ops_degraded.def")
    with open(OPS_DEF) as f, open(p, "w") as g:
        for line in f:
            m = re.match(r"\s*L_\w+\((\w+)\s*,", line)
            if m and m.group(1) in skip:
                continue
            g.write(line)
    return p


# ------------------------------------------------------------------ validation
def script_form(trace_lines):
    """The calls of a recorded execution (what was observed dropped; a Crash event stands for the call during
    which it happened; Sync events are the validator's own)."""
    out = []
    for l in trace_lines:
        d = json.loads(l) if isinstance(l, str) else dict(l)
        if d.get("op") == "Sync":
            continue
        if d.get("op") == "Crash":
            d = d.get("a", {}).get("call", {"op": "exit"})
            if d.get("op") in ("exit", "giving-up"):
                continue
        d.pop("res", None)
        d.pop("st", None)
        out.append(json.dumps(d, separators=(",", ":")))
    return out


def advisory_key(evj):
    a = evj.get("a", {})
    return json.dumps([evj.get("op"), a.get("how"), a.get("path")])


class Validator:
    """Validates the trace files in parallel TLC processes.  At a rejection the event is classified; validation
    goes on behind an advisory event from the state the harness recorded there (Sync), after the next Reset
    otherwise.  A housekeeping call that has been rejected twice is no longer validated at all (its events are
    replaced by Sync events), so a pervasive advisory deviation costs a few TLC runs, not one per occurrence."""

    def __init__(self, ctx, findings):
        self.ctx, self.findings = ctx, findings
        self.lock = threading.Lock()
        self.xlock = threading.Lock()
        self.explains = 0
        self.adv_explains = 0
        self.rejections = []       # dicts: path, idx, ev, expected, execution, cls
        self.nviol = 0
        self.adv_count = {}
        self.muted = set()

    def classify(self, evj):
        for k in self.findings:
            m = k.get("match", {})
            if m and all(evj.get(x) == y or evj.get("a", {}).get(x) == y for x, y in m.items()):
                return "known", "%s (%s)" % (k["key"], k["what"])
        if evj.get("op") in ("Reset", "Sync"):
            return "machinery", None
        if is_advisory(evj):
            return "advisory", None
        return "violation", None

    def mute(self, lines):
        if not self.muted:
            return lines
        out = []
        for l in lines:
            if l.startswith('{"op":"Reset"') or l.startswith('{"op":"Sync"') or '"st":' not in l:
                out.append(l)
                continue
            op = l[7:l.index('"', 7)]
            if not any(op == json.loads(k)[0] for k in self.muted):
                out.append(l)
                continue
            evj = json.loads(l)
            if is_advisory(evj) and advisory_key(evj) in self.muted:
                out.append(json.dumps({"op": "Sync", "a": {"z": 0}, "st": evj["st"]}, separators=(",", ":")))
            else:
                out.append(l)
        return out

    def one(self, path):
        ctx = self.ctx
        with open(path) as f:
            orig = [l.rstrip("\n") for l in f if l.strip()]
        cur, base, synced, attempt = orig, 0, False, 0
        curpath = path
        while True:
            r = core.validate_trace(ctx, "LiftedTrace", "LiftedTrace.cfg", curpath, explain=False)
            with self.lock:
                ctx.cov["events_validated"] += max(0, r["matched"] - (1 if synced else 0))
            if r["accepted"]:
                return
            k = r["fail_line"]
            oidx = base + k - (1 if synced else 0)
            resync_failed = synced and k == 0
            try:
                evj = json.loads(orig[min(oidx, len(orig) - 1)])
            except Exception:
                evj = {"op": "?"}
            cls, key = ("advisory", None) if resync_failed else self.classify(evj)
            if cls == "violation" and cur[k].startswith('{"op":"Sync"'):
                cls = "advisory"          # (a muted housekeeping event whose recorded state is not even self-consistent)
            with self.lock:
                if cls == "advisory":
                    do_explain = self.adv_explains < 4 and not resync_failed
                    self.adv_explains += do_explain
                else:
                    do_explain = self.explains < MAX_EXPLAIN and cls != "known"
                    self.explains += do_explain
            if do_explain:
                with self.xlock:
                    expected = core.explain_event(ctx, "LiftedTrace", "LiftedTrace.cfg", cur, k)
            else:
                expected = "(not explained: enough rejections explained already)"
            s = oidx
            while s > 0 and not orig[s].startswith('{"op":"Reset"'):
                s -= 1
            with self.lock:
                if not resync_failed:
                    self.rejections.append({"path": path, "idx": oidx, "ev": evj, "line": orig[oidx] if oidx < len(orig) else "", "expected": expected,
                                            "execution": orig[s:oidx + 1], "cls": cls, "key": key})
                if cls == "violation":
                    self.nviol += 1
                if cls == "advisory" and not resync_failed:
                    ak = advisory_key(evj)
                    self.adv_count[ak] = self.adv_count.get(ak, 0) + 1
                    if self.adv_count[ak] >= 2:
                        self.muted.add(ak)
                stop = self.nviol >= MAX_VIOLATIONS
            attempt += 1
            if stop or attempt > 40:
                return
            if cls == "advisory" and "st" in evj and not resync_failed:
                # resume behind the rejected housekeeping call, from the state the harness recorded there
                sync = json.dumps({"op": "Sync", "a": {"z": 0}, "st": evj["st"]}, separators=(",", ":"))
                cur, base, synced = [sync] + orig[oidx + 1:], oidx + 1, True
            else:
                nxt = oidx + 1
                while nxt < len(orig) and not orig[nxt].startswith('{"op":"Reset"'):
                    nxt += 1
                if nxt >= len(orig):
                    return
                cur, base, synced = orig[nxt:], nxt, False
            if len(cur) <= (1 if synced else 0):
                return
            with self.lock:
                cur = self.mute(cur)
            curpath = "%s.rest%d" % (path, attempt)
            with open(curpath, "w") as f:
                f.write("\n".join(cur) + "\n")

    def run(self, traces):
        from concurrent.futures import ThreadPoolExecutor
        with ThreadPoolExecutor(max_workers=max(1, core.NCPU // 2)) as ex:
            list(ex.map(self.one, traces))
        return self.rejections


def report(ctx, rejections, drivers, confirm=True):
    """Turn the rejections into verdicts: VIOLATION (with a replay, re-executed once), KNOWN-FINDING, advisory."""
    adv = {}
    nconf = 0
    rejections = sorted(rejections, key=lambda x: (x["path"], x["idx"]))
    for rj in rejections:
        evj = rj["ev"]
        if rj["cls"] == "machinery":
            raise MachineryError("trace validation lost track at event %d of %s (%s): %s" % (rj["idx"] + 1, rj["path"], evj.get("op"), rj["expected"][:500]))
        if rj["cls"] == "known":
            if rj["key"] not in ctx.known:
                ctx.known.append(rj["key"])
            continue
        if rj["cls"] == "advisory":
            k = json.dumps({"op": evj.get("op"), "a": {x: y for x, y in evj.get("a", {}).items() if x in ("how", "path", "f")}}, sort_keys=True)
            adv.setdefault(k, [0, rj])
            adv[k][0] += 1
            continue
        replay_lines = script_form(rj["execution"])
        flavour = "clang" if rj["path"].endswith("-clang.ndjson") or "-clang.ndjson.rest" in rj["path"] else "gcc"
        drv = drivers.get(flavour)
        if flavour != "gcc":
            replay_lines = [json.dumps({"_meta": {"build": flavour}})] + replay_lines
        if confirm and drv and nconf < CONFIRM:
            nconf += 1
            sp = os.path.join(ctx.work, "confirm-%d.script" % nconf)
            tp = os.path.join(ctx.work, "confirm-%d.ndjson" % nconf)
            write_script(sp, [l for l in replay_lines if "_meta" not in l])
            run_script(ctx, drv, sp, tp)
            r2 = core.validate_trace(ctx, "LiftedTrace", "LiftedTrace.cfg", tp, explain=False)
            if r2["accepted"]:
                raise MachineryError("non-reproducible rejection: event %d of %s was rejected, its re-execution (%s) is accepted" % (rj["idx"] + 1, rj["path"], sp))
        what = "call crashed / did not return (%s): %s" % (evj["a"].get("why"), json.dumps(evj["a"].get("call"))) if evj.get("op") == "Crash" else rj["line"][:700]
        ctx.violation("trace rejected by LiftedTrace at event %d of %s: %s ; spec expected: %s" % (
            rj["idx"] + 1, os.path.basename(rj["path"]), what, rj["expected"][:1200]), replay_lines=replay_lines)
    for k, (n, rj) in sorted(adv.items())[:6]:
        ctx.drift.append("a housekeeping call (construction variant / free, rvalue, conversion or stream accessor / assignment / swap: documented "
                         "class behaviour, not in the property sentence) does not behave as Lifted.tla says, %d time(s): %s ; spec expected: %s" % (
                             n, rj["line"][:300], rj["expected"][:300]))


def nominal_drift(ctx, traces):
    """Advisory: with every operand present each lifted call is expected to evaluate exactly once
    (the property only forbids evaluation on a missing operand)."""
    odd = {}
    for tp in traces:
        with open(tp) as f:
            for line in f:
                if '"res"' not in line:
                    continue
                try:
                    e = json.loads(line)
                except Exception:
                    continue
                if e["op"] in ("Binary", "Ternary", "Compound") and e["res"]["has"] and e["res"]["d"] != 1 and e["res"]["val"] != NAV \
                        and not e["st"]["r"][e["a"]["i"] - 1]["kind"].startswith("d") and not e["st"]["r"][e["a"]["j"] - 1]["kind"].startswith("d"):
                    odd.setdefault((e["op"], e["a"]["f"], e["res"]["d"]), 0)
                    odd[(e["op"], e["a"]["f"], e["res"]["d"])] += 1
    for (op, f, d), n in sorted(odd.items())[:5]:
        ctx.drift.append("%s %s with all operands present evaluated the underlying operation %d times (%d calls)" % (op, f, d, n))


# ------------------------------------------------------------------ second part: other value types and the neighbours (LiftedExt.tla)
EXT_SRC = os.path.join(core.HARNESS, "lifted", "ext.cpp")
EXT_ADVISORY = {"Conv", "JsonTrip", "EqualM", "Factory"}      # documented behaviour beside the statement
JSON_INC = "/root/miniconda/include"


def ext_build(ctx):
    """(binary or None, compiler output).  Built with the json round trip when nlohmann_json is installed."""
    out = os.path.join(ctx.work, "lifted_ext")
    flags = ["-O0", "-g1", "-I", os.path.join(core.HARNESS, "lifted")]
    if os.path.exists(os.path.join(JSON_INC, "nlohmann", "json.hpp")):
        flags += ["-DHAVE_NLOHMANN_JSON", "-isystem", JSON_INC]
    rc, o = core.try_build(ctx, EXT_SRC, out, flags=flags, asan=True)
    return (out if rc == 0 else None), o


def ext_run(ctx, drv, cases, trace_path):
    """Run the cases; a crash ends with a Crash line for the case during which it happened, the driver goes on behind it."""
    env = dict(os.environ); env.update(core.ASAN_ENV)
    pos, out, restarts = 0, [], 0
    while pos < len(cases) and restarts < 30:
        try:
            p = subprocess.run([drv], input=("\n".join(cases[pos:]) + "\n").encode(), stdout=subprocess.PIPE, stderr=subprocess.PIPE, env=env, timeout=900)
            rc, so, se = p.returncode, p.stdout.decode(errors="replace"), p.stderr.decode(errors="replace")
        except subprocess.TimeoutExpired as ex:
            rc, so, se = 124, (ex.stdout or b"").decode(errors="replace"), "[time-out]"
        if rc == 3:
            raise MachineryError("ext harness rejected its script: %s" % se[-400:])
        got = [l for l in so.split("\n") if l.strip() and not l.startswith('{"op":"Crash"')]
        if got:
            try:
                json.loads(got[-1])
            except Exception:
                got = got[:-1]
        out.extend(got)
        pos += len(got)
        if pos >= len(cases):
            break
        out.append(json.dumps({"op": "Crash", "a": {"call": json.loads(cases[pos]), "why": "exit-%s" % rc}}, separators=(",", ":")))
        pos += 1
        restarts += 1
    with open(trace_path, "w") as f:
        f.write("\n".join(out) + "\n")
    return restarts


def ext_validate(ctx, trace_path, max_rej=10):
    """[(event, expected)] of the rejected cases (each case is independent: validation goes on behind a rejection)."""
    with open(trace_path) as f:
        cur = [l.rstrip("\n") for l in f if l.strip()]
    rej, n = [], 0
    while cur and len(rej) < max_rej:
        n += 1
        p = "%s.part%d" % (trace_path, n)
        with open(p, "w") as f:
            f.write("\n".join(cur) + "\n")
        r = core.validate_trace(ctx, "LiftedExtTrace", "LiftedExtTrace.cfg", p, explain=False)
        ctx.cov["events_validated"] += r["matched"]
        if r["accepted"]:
            break
        k = r["fail_line"]
        expected = core.explain_event(ctx, "LiftedExtTrace", "LiftedExtTrace.cfg", [cur[k]], 0) if len(rej) < 4 else "(not explained)"
        rej.append((json.loads(cur[k]), expected))
        cur = cur[k + 1:]
    return rej


def ext_case_of(evj):
    d = evj.get("a", {}).get("call") if evj.get("op") == "Crash" else evj
    return {"op": d.get("op"), "a": d.get("a")}


def ext_stage(ctx, q):
    """LiftedExt.tla: TLC enumerates the cases (value type x operation x lifted/plain pattern x presence pattern x values),
    the harness executes each on the real types, TLC validates every recorded case."""
    r = core.tlc(ctx, "LiftedExtMC", "LiftedExt_quick.cfg" if q else "LiftedExt_thorough.cfg", name="ext-enumerate", timeout=1200,
                 workers=min(core.NCPU, 2 if q else 4), heap="6g")
    if r["violated"]:
        raise MachineryError("LiftedExt.tla violates its own law %s (oracle bug), see %s" % (r["violated"], r["outfile"]))
    seen, cases = set(), []
    for line in r["out"].splitlines():
        if line.startswith('"@X@'):
            c = json.loads(line)[3:]
            if c not in seen:
                seen.add(c); cases.append(c)
    if len(cases) != r["distinct"] - 1:
        raise MachineryError("ext enumeration: TLC found %d cases but %d were written out, see %s" % (r["distinct"] - 1, len(cases), r["outfile"]))
    r["out"] = ""
    ctx.cov["transitions"] += len(cases)
    ctx.cov["states"] += r["distinct"]
    per = {}
    for c in cases:
        d = json.loads(c)
        key = "%s %s" % (d["op"], d["a"].get("ty", d["a"].get("fam", d["a"].get("how", ""))))
        per[key] = per.get(key, 0) + 1
    ctx.notes["ext_cases_per_family"] = per
    ctx.log("TLC LiftedExt: %d cases (%d families), %.1fs" % (len(cases), len(per), r["wall_s"]))
    drv, out = ext_build(ctx)
    if drv is None:
        ctx.drift.append("ADVISORY the second C04 harness (other value types: xoptional<xcomplex<double>>, nested xoptional, bit-exact doubles; "
                         "masked -> optional conversion, json, equal()) does not build against this tree; its cases are skipped: %s"
                         % " | ".join(l.strip() for l in out.splitlines() if "error" in l)[:600])
        ctx.notes["ext_harness"] = "does not build"
        return
    rnd = random.Random(ctx.seed * 31 + 7)
    rnd.shuffle(cases)                 # (the order of independent cases is the seed's)
    tp = os.path.join(ctx.sub("ext"), "ext.ndjson")
    restarts = ext_run(ctx, drv, cases, tp)
    rej = ext_validate(ctx, tp)
    ctx.cov["traces_validated_against_impl"] += 1
    ctx.notes["ext_cases_executed"] = len(cases)
    ctx.log("ext: %d cases executed%s, %d rejected" % (len(cases), " (%d crashes)" % restarts if restarts else "", len(rej)))
    nconf = 0
    for evj, expected in rej:
        case = ext_case_of(evj)
        if case["op"] in EXT_ADVISORY:
            ctx.drift.append("ADVISORY %s (documented behaviour beside the property statement) deviates from LiftedExt.tla: %s ; %s"
                             % (case["op"], json.dumps(evj)[:400], expected[:300]))
            continue
        if nconf < 3:                   # a rejection is reported only if it repeats
            nconf += 1
            cp = os.path.join(ctx.sub("ext"), "confirm-%d.ndjson" % nconf)
            ext_run(ctx, drv, [json.dumps(case, separators=(",", ":"))], cp)
            if core.validate_trace(ctx, "LiftedExtTrace", "LiftedExtTrace.cfg", cp, explain=False)["accepted"]:
                raise MachineryError("non-reproducible rejection of the ext case %s" % json.dumps(case))
        what = "call crashed (%s): %s" % (evj["a"].get("why"), json.dumps(case)) if evj.get("op") == "Crash" else json.dumps(evj)[:700]
        ctx.violation("case rejected by LiftedExtTrace: %s ; spec expected: %s" % (what, expected[:900]), replay_lines=[{"ext": 1}, case])


def ext_replay(ctx, path, lines):
    drv, out = ext_build(ctx)
    if drv is None:
        raise MachineryError("ext harness does not build: %s" % out[-2000:])
    tp = os.path.join(ctx.work, "replay-ext.ndjson")
    ext_run(ctx, drv, [json.dumps(l, separators=(",", ":")) for l in lines if "ext" not in l], tp)
    r = core.validate_trace(ctx, "LiftedExtTrace", "LiftedExtTrace.cfg", tp, explain=False)
    if r["accepted"]:
        print("replay accepted: the recorded case now conforms to LiftedExt.tla")
        return 0
    print("VIOLATION property=C04 replay=%s" % path)
    print("  rejected: %s" % open(tp).read().splitlines()[r["fail_line"]][:600])
    return 1


def replay(ctx, path):
    lines = [l for l in core.read_ndjson(path) if "_meta" not in l]
    if lines and "ext" in lines[0]:
        return ext_replay(ctx, path, lines)
    if lines and "probe" in lines[0]:
        t = parse_ops_def()
        pr = lines[0]["probe"]
        pdir = ctx.sub("probes")
        p = os.path.join(pdir, "replay.cpp")
        if pr["op"] == "core":
            src = CORE_PROBE
        elif pr["op"] in ("select", "value_or"):
            print("re-run the check: select / value_or probes are compiled as one unit"); return 2
        else:
            unit = [u for u in probe_units(t) if u[0] == pr["op"]][0]
            src, _ = probe_tu(unit, only=pr.get("kinds"))
        with open(p, "w") as f:
            f.write(src)
        rc, out = compile_probe(ctx, p)
        if rc == 0:
            print("replay accepted: the overload compiles now"); return 0
        print("VIOLATION property=C04 replay=%s" % path)
        print("  still does not compile: " + " | ".join(l.strip() for l in out.splitlines() if "error" in l)[:600])
        return 1
    clang = any(l.get("_meta", {}).get("build") == "clang" for l in core.read_ndjson(path) if "_meta" in l)
    try:
        drv = build_driver(ctx, tag="_clang", cxx="clang++", opt="-O2") if clang else build_driver(ctx)
    except BuildFailed as e:
        raise MachineryError("harness does not build: %s" % e.out[-3000:])
    sp, tp = os.path.join(ctx.work, "replay.script"), os.path.join(ctx.work, "replay.ndjson")
    write_script(sp, script_form(lines))
    run_script(ctx, drv, sp, tp)
    r = core.validate_trace(ctx, "LiftedTrace", "LiftedTrace.cfg", tp)
    if r["accepted"]:
        print("replay accepted: the recorded calls now conform to Lifted.tla")
        return 0
    print("VIOLATION property=C04 replay=%s" % path)
    print("  rejected at event %d; spec expected: %s" % (r["fail_line"] + 1, r.get("expected")))
    return 1


def selftest(ctx):
    """Binding self-test: a recorded trace is accepted; the same trace with one corrupted field (a value, a
    presence flag, an evaluation count, the result of the underlying double operation, a shared cell) or one
    removed event is rejected at exactly that line; a crashing call ends in a Crash event and the driver goes on."""
    t = parse_ops_def()
    try:
        drv = build_driver(ctx)
    except BuildFailed as e:
        raise MachineryError("harness does not build: %s" % e.out[-3000:])
    lines = random_script(ctx.seed, t, 8, 50)
    sp, tp = os.path.join(ctx.work, "st.script"), os.path.join(ctx.work, "st.ndjson")
    write_script(sp, lines)
    run_script(ctx, drv, sp, tp)
    rec = [l for l in open(tp).read().splitlines() if l.strip()]
    resof = lambda l: l.split('"res"')[1].split('"st"')[0]
    idx = [i for i, l in enumerate(rec) if '"op":"Binary"' in l and '"has":true' in resof(l)
           and '"d":0},"res":{"kind":"opt"' in l][2]
    miss = [i for i, l in enumerate(rec) if resof(l).find('"has":false') >= 0 and '"op":"Binary"' in l and '"kind":"d' not in resof(l)][0]
    dbl = [i for i, l in enumerate(rec) if '"op":"Binary"' in l and '"has":true' in resof(l) and '"kind":"dopt"' in resof(l)][0]

    def check(name, mutated, want_line):
        p = os.path.join(ctx.work, "st-%s.ndjson" % name)
        with open(p, "w") as f:
            f.write("\n".join(mutated) + "\n")
        r = core.validate_trace(ctx, "LiftedTrace", "LiftedTrace.cfg", p, explain=False)
        got = None if r["accepted"] else r["fail_line"] + 1
        ok = got == want_line
        print("selftest %-14s expected %s, got %s  %s" % (name, "acceptance" if want_line is None else "rejection at line %d" % want_line,
                                                          "acceptance" if got is None else "rejection at line %d" % got, "ok" if ok else "FAILED"))
        return ok
    e = json.loads(rec[idx])
    ok = check("original", rec, None)
    m = list(rec); m[idx] = rec[idx].replace('"val":%d,"d"' % e["res"]["val"], '"val":%d,"d"' % (e["res"]["val"] + 1), 1)
    ok &= check("value", m, idx + 1)
    m = list(rec); m[idx] = rec[idx].replace('"res":{"kind":"opt","has":true', '"res":{"kind":"opt","has":false', 1)
    ok &= check("presence", m, idx + 1)
    m = list(rec)
    m[miss] = re.sub(r'"evals":(\d+)', lambda x: '"evals":%d' % (int(x.group(1)) + 1), rec[miss].replace('"d":0,"u":0},"st"', '"d":1,"u":0},"st"', 1))
    ok &= check("evaluated", m, miss + 1)
    ed = json.loads(rec[dbl])
    m = list(rec); m[dbl] = rec[dbl].replace('"u":%d},"st"' % ed["res"]["u"], '"u":%d},"st"' % (ed["res"]["u"] + 1), 1)
    ok &= check("underlying", m, dbl + 1)
    m = list(rec); del m[idx]
    ok &= check("removed-event", m, idx + 1)
    # a crash (division by a present zero aborts the counting operand type) must not lose the next execution
    crash = [ev("Reset", n=2), ev("Load", i=1, how="opt2", has=True, v=4), ev("Load", i=2, how="opt2", has=True, v=0),
             ev("Binary", f="div", i=1, j=2, d=0), ev("Reset", n=2), ev("Load", i=1, how="opt2", has=True, v=4)]
    sp2, tp2 = os.path.join(ctx.work, "st-crash.script"), os.path.join(ctx.work, "st-crash.ndjson")
    write_script(sp2, crash)
    n = run_script(ctx, drv, sp2, tp2)
    got = [json.loads(l)["op"] for l in open(tp2) if l.strip()]
    good = n == 1 and got == ["Reset", "Load", "Load", "Crash", "Reset", "Load"]
    print("selftest crash          driver restarted %d time(s), trace %s  %s" % (n, got, "ok" if good else "FAILED"))
    ok &= good
    r = core.validate_trace(ctx, "LiftedTrace", "LiftedTrace.cfg", tp2, explain=False)
    good = (not r["accepted"]) and r["fail_line"] == 3
    print("selftest crash-event    rejected at line %s  %s" % (r.get("fail_line", -1) + 1, "ok" if good else "FAILED"))
    ok &= good
    # the overload probes (used only when the harness does not build) must all compile where the harness builds
    failing, core_ok = probe_overloads(ctx, t)
    good = core_ok and not failing
    print("selftest probes         %d probe units compiled, %d failing  %s" % (ctx.notes.get("overload_probes_compiled", 0), len(failing), "ok" if good else "FAILED: %s" % failing[:3]))
    ok &= good
    return 0 if ok else 2


# ------------------------------------------------------------------ the check
def run(ctx):
    from concurrent.futures import ThreadPoolExecutor
    q = ctx.quick
    findings = core.load_findings("C04")
    t = parse_ops_def()

    # ---- 0. the operation table is the headers' and the generated spec module is the table's
    want = gen_ops_tla(t)
    with open(OPS_TLA) as f:
        if f.read() != want:
            raise MachineryError("specs/LiftedOps.tla is not what ops.def generates: run `python3 -m checks.c04 gen`")
    diffs = table_vs_headers(t, core.INCLUDE)
    for d in diffs:
        ctx.drift.append("operation table harness/lifted/ops.def differs from the headers: " + d)
    nops = sum(len(v) for v in t.values())
    ctx.notes["lifted_operations_in_table"] = nops

    # ---- build the harness in the background while TLC runs
    pool = ThreadPoolExecutor(max_workers=4)

    def build_main():
        try:
            return build_driver(ctx), None
        except BuildFailed as e:
            return None, e.out
    fut_drv = pool.submit(build_main)
    fut_clang = None
    if not q:
        # a second build with the other compiler and optimisation on (the presence tests are branches an optimiser may reorder)
        def build_clang():
            try:
                return build_driver(ctx, tag="_clang", cxx="clang++", opt="-O2"), None
            except BuildFailed as e:
                return None, e.out
        fut_clang = pool.submit(build_clang)

    # ---- 1. L1 model checking (multi-step, small values, theorems of the spec) runs in the background
    def model_check():
        return core.tlc_model_check(ctx, "LiftedMC", "Lifted_mc.cfg" if q else "Lifted_mc_thorough.cfg",
                                    "L1 multi-step exploration: propagation, never-evaluated, equality/select/value_or laws, shared cells coherent",
                                    coverage=not q, workers=min(core.NCPU, 4 if q else 6), timeout=1500)
    fut_mc = pool.submit(model_check)
    # ---- 1b. the second part (other value types, neighbours): enumerate, execute, validate -- in the background
    fut_ext = pool.submit(ext_stage, ctx, q)

    # ---- 2. S->C: every single call, enumerated by TLC
    rnd = random.Random(ctx.seed)

    def enumerate_calls(cfg):
        r3 = core.tlc(ctx, "LiftedMC", cfg, name="s2c-enumerate-" + cfg[:-4], heap="8g", timeout=1500, workers=min(core.NCPU, 3 if q else 4))
        if r3["violated"]:
            raise MachineryError("s2c enumeration failed: %s" % r3["outfile"])
        es = emitted(r3["out"])
        # every transition TLC found must have been written out (TLC's own count is the reference)
        m = re.search(r"Finished computing initial states: (\d+) distinct state", r3["out"])
        if not m or r3["distinct"] - int(m.group(1)) != len(es):
            raise MachineryError("s2c enumeration %s: TLC found %s transitions but %d were written out, see %s"
                                 % (cfg, r3["distinct"] - int(m.group(1)) if m else "?", len(es), r3["outfile"]))
        r3["out"] = ""
        return cfg, es, r3
    cfgs = ["Lifted_s2c.cfg", "Lifted_s2c_house.cfg", "Lifted_s2c_double_quick.cfg", "Lifted_s2c_dnum.cfg", "Lifted_s2c_mix_quick.cfg", "Lifted_s2c_alias_quick.cfg", "Lifted_s2c_bits_quick.cfg"] if q else \
           ["Lifted_s2c_thorough.cfg", "Lifted_s2c_closures.cfg", "Lifted_s2c_house.cfg", "Lifted_s2c_double.cfg", "Lifted_s2c_dnum.cfg", "Lifted_s2c_mix.cfg", "Lifted_s2c_alias.cfg", "Lifted_s2c_bits.cfg"]
    edges = []
    with ThreadPoolExecutor(max_workers=max(1, min(4, core.NCPU // 2))) as ex:
        for cfg, es, r3 in ex.map(enumerate_calls, cfgs):
            ctx.log("TLC %s: %d single-call transitions from %d initial register files, %.1fs" % (cfg, len(es), r3["distinct"] - len(es), r3["wall_s"]))
            ctx.cov["transitions"] += len(es)
            edges.extend(es)
    fams = {}
    for e in edges:
        ks = tuple(e["p"][int(e["l"]["a"][x]) - 1]["kind"] for x in ("i", "j", "k") if x in e["l"]["a"])
        fams.setdefault((e["l"]["op"], e["l"]["a"].get("f", e["l"]["a"].get("how", e["l"]["a"].get("path", ""))), ks), 0)
    ctx.notes["s2c_overload_families"] = len(fams)      # (call, operation, kinds of the operand registers)
    ctx.notes["s2c_transitions_enumerated"] = len(edges)

    # ---- the harness (built in the background); if it does not build: probes, then a degraded harness
    drv, err = fut_drv.result()
    degraded, skip_ops, no_house = False, set(), False
    if drv is None:
        ctx.log("the conformance driver does not build against this tree; compiling every overload family as its own probe")
        failing, core_ok = probe_overloads(ctx, t)
        skip_ops.update(name for name, desc, pat, msg in failing)
        # a handful of violations with replays: one per operation first, then further operand patterns
        first, more, seen = [], [], set()
        for f in failing:
            (more if f[0] in seen else first).append(f)
            seen.add(f[0])
        for name, desc, pat, msg in (first + more)[:MAX_VIOLATIONS]:
            shown = "%s(%s)" % (desc, ", ".join(KIND_CPP.get(k, k) for k in pat)) if pat else desc
            ctx.violation("the lifted overload %s does not compile: %s" % (shown, msg),
                          replay_lines=[{"probe": {"op": name, "kinds": list(pat) if pat else None}}])
        ctx.notes["overloads_that_do_not_compile"] = sorted("%s%s" % (n, list(p) if p else "") for n, d, p, m in failing)[:60]
        degraded = True
        if core_ok and not (skip_ops & {"select", "value_or"}):
            od = degraded_ops_def(ctx, skip_ops) if skip_ops else None
            for nh in (False, True):
                try:
                    drv = build_driver(ctx, tag="_degraded%d" % nh, ops_def=od, no_house=nh)
                    no_house = nh
                    break
                except BuildFailed as e2:
                    err = e2.out
        if drv is None:
            fut_ext.result()
            pool.shutdown()
            if not ctx.violations:
                raise MachineryError("harness does not compile and no overload probe explains it:\n%s" % (err or "")[-4000:])
            ctx.notes["harness_build_failed"] = (err or "")[-1500:]
            ctx.log("no harness can be built against this tree (run-time part skipped); reporting the %d violation(s) found by the probes" % len(ctx.violations))
            return finish(ctx, q, nops)
        if no_house:
            ctx.drift.append("the housekeeping calls of the harness (free / rvalue / conversion / stream accessors, writes through accessors, "
                             "plain assignment, swap) do not compile against this tree; they are left out")
        ctx.log("degraded harness built without %s%s: the single-call enumeration runs on it" % (sorted(skip_ops) or "nothing", ", without housekeeping calls" if no_house else ""))
        ctx.notes["degraded_harness"] = {"without_operations": sorted(skip_ops), "without_housekeeping": no_house}
        edges = [e for e in edges if e["l"]["a"].get("f") not in skip_ops and not (no_house and (e["l"]["op"] in HOUSE_OPS and e["l"]["a"].get("path") != "member"))]
    else:
        ctx.log("harness built")

    lines, taken = edge_scripts(edges, 3, rnd)
    if no_house:
        lines = [l for l in lines if not (l["op"] == "Load" and l["a"]["how"] not in CANON_HOW.values())]
    ctx.notes["s2c_transitions_replayed"] = taken
    ctx.log("S->C: %d single calls in %d overload families -> %d script events" % (taken, len(fams), len(lines)))
    scripts = []
    for i, ch in enumerate(chunk_by_reset(lines, 8 if q else 14)):
        scripts.append(("s2c-%02d" % i, ch))

    nwalks = 0
    if not degraded:
        # ---- 2b. TLC simulation walks: histories, results stored back into registers
        simdir = ctx.sub("sim")
        nsim = 150 if q else 5000
        core.tlc(ctx, "LiftedMC", "Lifted_sim.cfg", name="s2c-generate",
                 extra=["-generate", "file=%s/t,num=%d" % (simdir, nsim), "-depth", "25", "-seed", str(ctx.seed)], workers=1)
        lines, nwalks = sim_scripts(simdir, 3)
        scripts.append(("sim", lines))

        # ---- 3. C->S: seeded random expression sequences
        nexec, nops_ = (150, 60) if q else (6000, 80)
        lines = random_script(ctx.seed, t, nexec, nops_)
        for i, ch in enumerate(chunk_by_reset(lines, 2 if q else 16)):
            scripts.append(("rnd-%d" % i, ch))

        # ---- 3b. the upstream tests' own call sequences, every step validated
        scripts.append(("upstream", upstream_script()))

        for fnd in findings:
            if "probe" in fnd:
                scripts.append(("probe-" + fnd["id"], fnd["probe"]["script"]))
    ctx.notes["s2c_simulation_walks"] = nwalks

    traces, tdir = [], ctx.sub("traces")
    crashes = [0]

    def one(item, driver=None, suffix=""):
        name, ls = item
        sp, tp = os.path.join(tdir, name + suffix + ".script"), os.path.join(tdir, name + suffix + ".ndjson")
        write_script(sp, ls)
        crashes[0] += run_script(ctx, driver or drv, sp, tp)
        return tp
    with ThreadPoolExecutor(max_workers=min(8, core.NCPU)) as ex:
        traces = list(ex.map(one, scripts))
    ctx.log("harness ran %d scripts%s" % (len(scripts), " (%d crashes, driver restarted)" % crashes[0] if crashes[0] else ""))
    ctx.notes["driver_restarts_after_crash"] = crashes[0]

    # ---- thorough: the same single-call scripts on a clang++ -O2 build
    cdrv = None
    if fut_clang is not None:
        cdrv, cerr = fut_clang.result()
        if cdrv is None:
            if drv is not None and not degraded:
                ctx.violation("the conformance driver builds with g++ but not with clang++ -O2 against this tree: %s" % (
                    " | ".join(l.strip() for l in (cerr or "").splitlines() if "error" in l)[:800]), replay_lines=[{"build": "clang++ -O2"}])
        else:
            s2c = [s for s in scripts if s[0].startswith("s2c-")]
            with ThreadPoolExecutor(max_workers=min(8, core.NCPU)) as ex:
                traces += list(ex.map(lambda it: one(it, cdrv, "-clang"), s2c))
            ctx.notes["second_build"] = "clang++ -O2: %d single-call scripts" % len(s2c)
            ctx.log("clang++ -O2 harness ran %d scripts" % len(s2c))
    pool.shutdown()

    for name, ls in scripts:
        ctx.cov["traces_validated_against_impl"] += sum(1 for l in ls if l["op"] == "Reset")
    ctx.sample({"script": [json.dumps(x) for x in scripts[0][1][:10]]})
    ctx.sample({"script": [json.dumps(x) for x in scripts[-1][1][:10]]})

    # ---- what was exercised, counted from the scripts themselves: calls per action and per operation
    per_action, per_fun = {}, {}
    for name, ls in scripts:
        for l in ls:
            per_action[l["op"]] = per_action.get(l["op"], 0) + 1
            if "f" in l["a"]:
                per_fun[l["a"]["f"]] = per_fun.get(l["a"]["f"], 0) + 1
    ctx.notes["calls_per_action"] = per_action
    never = sorted(x[0] for v in t.values() for x in v if x[0] not in per_fun)
    never += sorted(a for a in ("Load", "Alias", "Unary", "Binary", "Ternary", "Compare", "Compound", "Select", "ValueOr", "Get", "SetFlag",
                                "SetVal", "Poke", "AssignVal", "AssignReg", "Swap") if a not in per_action)
    ctx.notes["operations_never_called"] = never

    # ---- validate every trace against L1
    v = Validator(ctx, findings)
    rejections = v.run(traces)
    report(ctx, rejections, {"gcc": drv, "clang": cdrv})

    fut_ext.result()
    # ---- the model-checking job (ran in the background)
    r = fut_mc.result()
    if r["violated"]:
        raise MachineryError("L1 spec Lifted.tla violates its own theorem %s (oracle bug), see %s" % (r["violated"], r["outfile"]))
    if not q:
        cov = {k: v for k, v in r.get("coverage", {}).items() if k.startswith("N") and k != "Next"}
        ctx.notes["l1_action_coverage"] = cov
        ctx.notes["vacuous_actions"] = sorted(k for k, v in cov.items() if v[1] == 0) + (never if not degraded else [])
    nominal_drift(ctx, traces)
    ctx.cov["evaluations"] = ctx.cov["events_validated"]
    ctx.cov["distinct_nontrivial"] = len(fams)
    ctx.log("validated %d events in %d traces (%d executions)" % (ctx.cov["events_validated"], len(traces), ctx.cov["traces_validated_against_impl"]))
    return finish(ctx, q, nops)


def finish(ctx, q, nops):
    return core.finish(
        ctx, "model_checking",
        rule="TLC enumerates every single lifted call of Lifted.tla: each of the %d table operations x every kind pattern "
             "(plain/int/opt/optref%s/masked/mref in every argument position, families not mixed; double operands; masked optionals "
             "xmasked_value<xoptional<T>> beside bare xoptional<T>; two reference closures over one referent) x every presence pattern x "
             "operand values %s (doubles: small integers, NaN, 0.5, +inf%s); each transition is one call on the real "
             "xoptional/xmasked_value objects over a counting operand type and TLC compares has/visible, value, evaluation-counter delta, "
             "all registers, reference-closure referents and shared cells; for doubles the value must also be what the same operation gives "
             "on the underlying doubles. Plus TLC simulation walks and seeded random expression sequences (values up to +-46000, results stored back). "
             "Second part (LiftedExt.tla): TLC enumerates operation x lifted/plain pattern x presence pattern x table values for "
             "xoptional<xcomplex<double>>, xoptional<xoptional<int>>, xoptional<double> and xmasked_value<double> with bit-exact comparison "
             "(+-0, +-inf, +-NaN, denormal, max), the two-call expressions a+b*c, a+(b-c), a*(b-c), a*(b*c), compound assignments; each case executed once. "
             "Round 4: the value category / constness of the right operand (const lvalue, non-const lvalue, rvalue) is a parameter of every compound assignment "
             "of Lifted.tla and of every binary call, comparison and compound assignment of LiftedExt.tla; LiftedExt's CompareF / CallF / CompoundF enumerate "
             "xoptional<int, FT> operands over the flag types bool, int, unsigned char and int& (xoptional<int&, int&>) with flag values 0, 1, 2, 4 in every pairing "
             "(presence = truth of the flag)."
             % (nops, "" if q else "/optcr/optvr", "{-1,0,2}" if q else "{-46000,-1,0,2,3}", "" if q else ", -inf, 1/3, 1e308, a denormal, -0.0"),
        assumptions=["the operand type Probe (harness/lifted/probe.hpp) and Lifted.tla's Apply1/2/3 define the same toy algebra",
                     "for double operands the harness records, next to every lifted result, the result of the same operation on the underlying "
                     "doubles (std:: functions / built-in operators on plain doubles, independent of xtl); L1 demands equality with it, and computes "
                     "the IEEE result itself for small integer and NaN operands of the integer-exact operations (DFuns); inexact values are compared "
                     "through a 27-bit hash of their bit pattern; +0.0 and -0.0 are not distinguished",
                     "verdict-relevant calls: the lifted operations the statement names, construction from (value, flag), the member accessors, the "
                     "caller's writes to referents; other constructors / factories / converting constructors, free / rvalue / conversion / stream "
                     "accessors, plain assignment and swap are advisory (MODEL-DRIFT); validation resumes behind an advisory rejection",
                     "configurations: g++ -O0 with AddressSanitizer in both tiers, clang++ -O2 (single-call scripts) in the thorough tier; NDEBUG and "
                     "XTL_NO_EXCEPTIONS do not occur in the two headers",
                     "LiftedExt: a present result must equal, bit for bit, what the harness computes with the same expression on the underlying values "
                     "(two NaN results match whatever their sign / payload); xcomplex and nested optionals are enumerated with every operand lifted (xtl's "
                     "common_optional_t offers no mixed lifted / plain form for class types whose value_type is another type); the implicit "
                     "xmasked_value -> xoptional conversion, the json round trip, the member equal(), missing<T>() and the free accessors on plain values "
                     "are advisory (MODEL-DRIFT); std::hash is not provided for either class; xoptional<half> arithmetic does not instantiate"],
        exhaustive=False)


if __name__ == "__main__":
    if len(sys.argv) > 1 and sys.argv[1] == "gen":
        with open(OPS_TLA, "w") as f:
            f.write(gen_ops_tla(parse_ops_def()))
        print("wrote", OPS_TLA)
    elif len(sys.argv) > 1 and sys.argv[1] == "diff":
        print(table_vs_headers(parse_ops_def(), core.INCLUDE) or "ops.def matches the headers")

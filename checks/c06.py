"""C06 - xtl::any keeps, copies and returns exactly what was stored, with exact-type casts.

 1. TLC: Any.tla (L1) explored through the liberal generator AnyMC.tla (every alternative the standard
    allows: steal / relocate / leave a moved-from object, pointer swap / relocating swap ...): invariants
    (no leak, no dangling any, copies independent) and action properties (strong guarantee, observers pure,
    noexcept operations never throw, untouched objects unchanged).
 2. TLC: AnyImpl.tla (L2, transcription of xany.hpp: vtable pointer, in-place buffer vs heap, copy-and-swap,
    three-way swap, vtable_stack::swap by three moves) refines Any.tla - every reachable representation
    state x every call x every argument x every fuse setting.
 3. S->C: the transitions of that exploration (canonical state, call) are replayed on real xtl::any objects
    (state re-established through varying constructor histories); TLC simulation walks of AnyImpl add long
    histories.  What the model predicted for the call (element-event shape, exception, in-place flag) is
    compared too: a mismatch is MODEL-DRIFT (advisory).
 4. C->S: seeded random call sequences over three any objects (fuse probability 0.3, self-assignment and
    self-swap included).
 Every recorded line (call, element events of instrumented payload types, result, what the observers say about
 all three objects) is validated by TLC against AnyTrace.tla: L1 is the oracle, and the only source of verdicts.
 The harness runs under ASan+LSan; a sanitizer report or std::terminate ends the trace with a Crash line,
 which no spec action matches.
"""
import json, os, random, re, subprocess
from concurrent.futures import ThreadPoolExecutor
from vlib import core, tlaval
from vlib.core import MachineryError

TYPES = ["Small", "Big", "STM"]
VALUE_FORMS = ["lv", "clv", "rv", "crv"]
CAST_FORMS = ["p_m", "p_mc", "p_c", "p_cc", "p_n", "p_nc", "v_m", "v_mc", "v_c", "v_cc", "v_r", "r_m", "r_mc", "r_c", "r_r"]
ALL_OPS = ["DefaultConstruct", "Construct", "CopyConstruct", "MoveConstruct", "CopyAssign", "MoveAssign", "AssignValue", "Swap",
           "StdSwap", "AReset", "AClear", "Destroy", "DestroyIf", "HasValue", "Empty", "Type", "Cast", "SetVia"]
PURE_OPS = {"HasValue", "Empty", "Type"}          # calls after which the S->C scripts need not re-establish the state
TRACE_SPEC, TRACE_CFG = "AnyTrace", "AnyTrace.cfg"
# development on a shared machine: VERIF_DEV_WORKERS=4 caps TLC workers and parallel processes (default: all cores)
NW = max(1, min(core.NCPU, int(os.environ.get("VERIF_DEV_WORKERS", core.NCPU) or core.NCPU)))


def ev(op, k, **a):
    a.setdefault("fuse", 0)
    return {"op": op, "k": k, "a": a}


RESET = {"op": "Reset", "k": 1, "a": {"z": 0}}


# ------------------------------------------------------------------ C->S: random scripts
class Gen:
    """Random script generator.  It tracks only which slots hold a constructed any (a C++ precondition of
    placement construction / explicit destruction); it predicts no results.  A constructor call with an armed
    fuse may or may not have produced an object, so it is followed by DestroyIf."""

    def __init__(self, rnd):
        self.r = rnd
        self.c = [False] * 3

    def fuse(self, p=0.3):
        x = self.r.random()
        return 0 if x >= p else (1 if x < p * 0.8 else 2)

    def val(self):
        return self.r.choice([1, 2, 3, 7, 42, 1000, 65535, 2000000000])

    def step(self):
        r = self.r
        raw = [k for k in range(3) if not self.c[k]]
        con = [k for k in range(3) if self.c[k]]
        out = []
        if raw and (not con or r.random() < 0.35):
            k = r.choice(raw)
            f = self.fuse()
            t = r.random()
            if t < 0.5 or not con:
                if t < 0.08:
                    out.append(ev("DefaultConstruct", k + 1, fuse=f))
                else:
                    out.append(ev("Construct", k + 1, t=r.choice(TYPES), v=self.val(), form=r.choice(VALUE_FORMS), fuse=f))
            else:
                j = r.choice(con)
                out.append(ev("CopyConstruct" if t < 0.78 else "MoveConstruct", k + 1, j=j + 1, fuse=f))
            if f and out[-1]["op"] in ("Construct", "CopyConstruct"):
                out.append(ev("DestroyIf", k + 1))
            else:
                self.c[k] = True
            return out
        k = r.choice(con)
        j = r.choice(con) if r.random() > 0.12 else k
        c = r.random()
        f = self.fuse()
        if c < 0.12:
            return [ev("CopyAssign", k + 1, j=j + 1, fuse=f)]
        if c < 0.22:
            return [ev("MoveAssign", k + 1, j=j + 1, fuse=f)]
        if c < 0.34:
            return [ev("AssignValue", k + 1, t=r.choice(TYPES), v=self.val(), form=r.choice(VALUE_FORMS), fuse=f)]
        if c < 0.48:
            return [ev(r.choice(["Swap", "Swap", "StdSwap"]), k + 1, j=j + 1, fuse=f)]
        if c < 0.53:
            return [ev(r.choice(["AReset", "AClear"]), k + 1, fuse=f)]
        if c < 0.60:
            self.c[k] = False
            return [ev(r.choice(["Destroy", "DestroyIf"]), k + 1, fuse=f)]
        if c < 0.66:
            return [ev(r.choice(["HasValue", "Empty", "Type"]), k + 1, fuse=f)]
        if c < 0.90:
            return [ev("Cast", k + 1, t=r.choice(TYPES + ["Int"]), form=r.choice(CAST_FORMS), fuse=f)]
        return [ev("SetVia", k + 1, t=r.choice(TYPES), v=self.val(), fuse=0)]


def random_script(seed, nexec, nops):
    rnd = random.Random(seed * 7919 + 13)
    lines = []
    for _ in range(nexec):
        g = Gen(rnd)
        lines.append(RESET)
        n = 0
        while n < nops:
            s = g.step()
            lines.extend(s)
            n += len(s)
        for k in range(3):
            lines.append(ev("DestroyIf", k + 1))
    return lines


# ------------------------------------------------------------------ S->C: scripts from TLC's exploration of AnyImpl
def emitted(out, rnd, limit):
    """Transitions written by the Emit action constraint of AnyImpl.tla.  Returns (sample, total, per-op counts);
    the sample is drawn uniformly (probability limit/total) so that memory stays bounded."""
    lines = [l for l in out.splitlines() if l.startswith('"@E@')]
    total = len(lines)
    keep = 1.0 if not limit or total <= limit else limit / float(total)
    res, per_op = [], {}
    for line in lines:
        m = re.search(r'\\"op\\":\\"(\w+)\\"', line)
        if m:
            per_op[m.group(1)] = per_op.get(m.group(1), 0) + 1
        if keep >= 1.0 or rnd.random() < keep:
            res.append(json.loads(json.loads(line)[3:]))
    return res, total, per_op


def op_counts(out):
    """'@O@op:outcome' lines written by AnyMC's EmitOp (thorough tier): transitions per operation and outcome."""
    c = {}
    for m in re.finditer(r'^"@O@([\w:]+)"$', out, flags=re.M):
        c[m.group(1)] = c.get(m.group(1), 0) + 1
    return c


def establish(k, vt, pv, rnd):
    """Calls that bring raw slot k (1-based) into representation state (vt, pv), through varying histories."""
    if vt == "raw":
        return []
    if vt == "null":
        c = rnd.random()
        if c < 0.5:
            return [ev("DefaultConstruct", k)]
        if c < 0.8:
            return [ev("Construct", k, t=rnd.choice(TYPES), v=9, form=rnd.choice(VALUE_FORMS)), ev(rnd.choice(["AReset", "AClear"]), k)]
        return [ev("Construct", k, t=rnd.choice(TYPES), v=9, form="rv"), ev("MoveAssign", k, j=k), ev("AClear", k)]
    c = rnd.random()
    if c < 0.6:
        return [ev("Construct", k, t=vt, v=pv, form=rnd.choice(VALUE_FORMS))]
    if c < 0.8:     # a different type first, then assignment from a value
        return [ev("Construct", k, t=rnd.choice(TYPES), v=8, form=rnd.choice(VALUE_FORMS)),
                ev("AssignValue", k, t=vt, v=pv, form=rnd.choice(VALUE_FORMS))]
    if c < 0.9:     # empty first
        return [ev("DefaultConstruct", k), ev("AssignValue", k, t=vt, v=pv, form=rnd.choice(VALUE_FORMS))]
    return [ev("Construct", k, t=vt, v=5, form="clv"), ev("SetVia", k, t=vt, v=pv)]


def edge_scripts(edges, rnd):
    """One execution per source state: Reset, establish the state, then for each sampled transition out of it
    the call, followed by re-establishing the slots the call names.  Returns (lines, expectations) where
    expectations[i] is what AnyImpl predicted for script line i (None for set-up lines)."""
    by_src = {}
    for e in edges:
        by_src.setdefault(json.dumps(e["p"], sort_keys=True), []).append(e)
    lines, exp, taken = [], [], 0

    def put(ls, x=None):
        for l in ls:
            lines.append(l)
            exp.append(None)
        if x is not None:
            exp[-1] = x

    for key in sorted(by_src):
        st = json.loads(key)
        calls = by_src[key]
        calls.sort(key=lambda c: (c["l"]["op"] not in PURE_OPS, rnd.random()))
        put([RESET])
        for k in (1, 2, 3):
            put(establish(k, st["vt"][k - 1], st["pv"][k - 1], rnd))
        for c in calls:
            call = {"op": c["l"]["op"], "k": c["l"]["k"], "a": c["l"]["a"]}
            put([call], c["x"])
            taken += 1
            if call["op"] in PURE_OPS:
                continue
            touched = sorted({call["k"], call["a"].get("j", call["k"])})
            put([ev("DestroyIf", k) for k in touched])
            for k in touched:
                put(establish(k, st["vt"][k - 1], st["pv"][k - 1], rnd))
        put([ev("DestroyIf", k) for k in (1, 2, 3)])
    return lines, exp, taken


def sim_scripts(simdir):
    lines, exp, n = [], [], 0
    for fn in sorted(os.listdir(simdir)):
        states = tlaval.parse_sim_trace(os.path.join(simdir, fn))
        if len(states) < 2:
            continue
        lines.append(RESET); exp.append(None)
        for s in states[1:]:
            la = s["last"]
            lines.append({"op": la["op"], "k": la["k"], "a": la["a"]})
            exp.append({"shape": ["%s:%s:%s" % (e["e"], e["kind"], e["t"]) for e in la["ev"]], "exc": la["res"]["exc"], "inp": la["inp"]})
        for k in (1, 2, 3):
            lines.append(ev("DestroyIf", k)); exp.append(None)
        n += 1
    return lines, exp, n


# ------------------------------------------------------------------ harness
def write_script(path, lines):
    with open(path, "w") as f:
        for l in lines:
            f.write(json.dumps(l, separators=(",", ":")) + "\n")


def chunk_by_reset(lines, exp, nchunks):
    starts = [i for i, l in enumerate(lines) if l["op"] == "Reset"]
    if not starts:
        return [(lines, exp)]
    per = max(1, -(-len(starts) // nchunks))
    cuts = starts[::per]
    return [(lines[a:b], exp[a:b]) for a, b in zip(cuts, cuts[1:] + [len(lines)])]


def run_script(drv, script_path, trace_path):
    env = dict(os.environ); env.update(core.ASAN_ENV)
    with open(script_path) as fin, open(trace_path, "w") as fout:
        p = subprocess.run([drv], stdin=fin, stdout=fout, stderr=subprocess.PIPE, env=env, timeout=1800)
    err = p.stderr.decode(errors="replace")
    if p.returncode == 3:
        raise MachineryError("harness rejected script %s: %s" % (script_path, err[-800:]))
    return p.returncode, err


def calls_only(lines):
    out = []
    for l in lines:
        if isinstance(l, str):
            try:
                l = json.loads(l)
            except Exception:
                continue
        if "_meta" in l or l.get("op") in ("Crash", "CrashIn") or "k" not in l:
            continue
        out.append({"op": l["op"], "k": l["k"], "a": l["a"]})
    return out


DESYNC = "__desync__"


def classify(findings, desyncs):
    def f(evj, execution):
        if evj.get("op") == "Desync":
            # the first thing L1 could not accept in this execution is that the SCRIPT left the preconditions:
            # not a statement about xtl (see run(): drift for model-generated walks, machinery error otherwise)
            desyncs.append((evj, execution))
            return DESYNC
        for k in findings:
            m = k.get("match", {})
            if m and all(evj.get(x) == y or evj.get("a", {}).get(x) == y for x, y in m.items()):
                return "%s (%s)" % (k["key"], k["what"])
        return None
    return f


def compare_prediction(ctx, name, trace_path, exp):
    """L2 binding (advisory): element-event shape, exception and in-place flags predicted by AnyImpl."""
    n = bad = 0
    with open(trace_path) as f:
        for i, line in enumerate(f):
            if i >= len(exp):
                break
            x = exp[i]
            if x is None or not line.startswith("{"):
                continue
            try:
                d = json.loads(line)
            except Exception:
                break
            if d.get("op") in ("Crash", "CrashIn", "Desync"):
                break       # lines after this no longer correspond to script lines
            shape = ["%s:%s:%s" % (e["e"], e["kind"], e["t"]) for e in d["ev"]]
            inp = [s["inp"] for s in d["st"]]
            n += 1
            if shape != x["shape"] or d["res"]["exc"] != x["exc"] or inp != x["inp"]:
                bad += 1
                if bad <= 3 and len(ctx.drift) < 6:
                    ctx.drift.append("AnyImpl.tla predicted %s for %s in %s line %d, the code did %s" % (
                        json.dumps(x), json.dumps({k: d[k] for k in ("op", "k", "a")}), name, i + 1,
                        json.dumps({"shape": shape, "exc": d["res"]["exc"], "inp": inp})))
    return n, bad


def counterexample_script(out):
    """The call sequence of a TLC error trace of AnyImpl (values of the ghost variable last)."""
    calls = []
    for blk in re.split(r"^State \d+: .*$", out, flags=re.M)[1:]:
        blk = blk.split("\n\n")[0]
        try:
            st = tlaval.parse_state(blk)
        except Exception:
            continue
        la = st.get("last")
        if la and la.get("op") not in (None, "Init"):
            calls.append({"op": la["op"], "k": la["k"], "a": la["a"]})
    return calls


def build_driver(ctx):
    drv = os.path.join(ctx.work, "any_driver")
    core.build(ctx, os.path.join(core.HARNESS, "any", "driver.cpp"), drv)
    return drv


def replay(ctx, path):
    """./verif replay C06 <file>: re-run the recorded calls on the current tree and validate against L1."""
    lines = calls_only(core.read_ndjson(path))
    drv = build_driver(ctx)
    sp, tp = os.path.join(ctx.work, "replay.script"), os.path.join(ctx.work, "replay.ndjson")
    write_script(sp, lines)
    rc, err = run_script(drv, sp, tp)
    r = core.validate_trace(ctx, TRACE_SPEC, TRACE_CFG, tp)
    if r["accepted"] and rc == 0:
        print("replay accepted: the recorded calls now conform to Any.tla")
        return 0
    print("VIOLATION property=C06 replay=%s" % path)
    if not r["accepted"]:
        print("  rejected at event %d; %s" % (r["fail_line"] + 1, r.get("expected")))
    else:
        print("  harness exit status %d: %s" % (rc, err[-1500:]))
    return 1


def selftest(ctx):
    """./verif selftest C06: the trace spec is bound to the log - a corrupted field and a removed line are rejected
    exactly where they are."""
    drv = build_driver(ctx)
    lines = random_script(ctx.seed, 6, 40)
    sp, tp = os.path.join(ctx.work, "st.script"), os.path.join(ctx.work, "st.ndjson")
    write_script(sp, lines)
    run_script(drv, sp, tp)
    r = core.validate_trace(ctx, TRACE_SPEC, TRACE_CFG, tp)
    print("clean trace: accepted=%s (%d lines)" % (r["accepted"], r["total"]))
    ok = r["accepted"]
    with open(tp) as f:
        tl = [l.rstrip("\n") for l in f]
    # (a) corrupt the value the observers report, on a line in the middle where some object has a value
    idx = next(i for i in range(len(tl) // 2, len(tl)) if '"has":true' in tl[i])
    d = json.loads(tl[idx])
    s = next(x for x in d["st"] if x["has"])
    s["v"] += 1
    bad = tl[:idx] + [json.dumps(d, separators=(",", ":"))] + tl[idx + 1:]
    p2 = os.path.join(ctx.work, "st-corrupt.ndjson")
    open(p2, "w").write("\n".join(bad) + "\n")
    r2 = core.validate_trace(ctx, TRACE_SPEC, TRACE_CFG, p2)
    print("corrupted st.v at line %d: accepted=%s rejected at line %s" % (idx + 1, r2["accepted"], r2.get("fail_line", -1) + 1))
    ok = ok and not r2["accepted"] and r2["fail_line"] == idx
    # (b) corrupt an element event: the source of a copy
    idx = next(i for i in range(len(tl) // 3, len(tl))
               if any(x["kind"] == "copy" and x["e"] == "ctor" for x in json.loads(tl[i]).get("ev", [])))
    d = json.loads(tl[idx])
    e = next(x for x in d["ev"] if x["kind"] == "copy" and x["e"] == "ctor")
    e["src"] += 1000
    bad = tl[:idx] + [json.dumps(d, separators=(",", ":"))] + tl[idx + 1:]
    p3 = os.path.join(ctx.work, "st-corrupt-ev.ndjson")
    open(p3, "w").write("\n".join(bad) + "\n")
    r3 = core.validate_trace(ctx, TRACE_SPEC, TRACE_CFG, p3)
    print("corrupted ev.src at line %d: accepted=%s rejected at line %s" % (idx + 1, r3["accepted"], r3.get("fail_line", -1) + 1))
    ok = ok and not r3["accepted"] and r3["fail_line"] == idx
    # (c) remove a line that constructed an object: the next line that shows the object is rejected
    idx = next(i for i in range(len(tl) // 2, len(tl)) if tl[i].startswith('{"op":"Construct"') and '"exc":"none"' in tl[i])
    p4 = os.path.join(ctx.work, "st-removed.ndjson")
    open(p4, "w").write("\n".join(tl[:idx] + tl[idx + 1:]) + "\n")
    r4 = core.validate_trace(ctx, TRACE_SPEC, TRACE_CFG, p4)
    print("removed line %d: accepted=%s rejected at line %s" % (idx + 1, r4["accepted"], r4.get("fail_line", -1) + 1))
    ok = ok and not r4["accepted"] and r4["fail_line"] == idx
    print("selftest %s" % ("ok" if ok else "FAILED"))
    return 0 if ok else 2


def run(ctx):
    q = ctx.quick
    findings = core.load_findings("C06")
    rnd = random.Random(ctx.seed)

    # ---- 1., 2., 3b. and the harness build run side by side (each TLC run is given part of the machine)
    simdir = ctx.sub("sim")
    nsim = 60 if q else 1500
    w = max(2, NW // 2)
    with ThreadPoolExecutor(max_workers=4) as pool:
        # 1. L1 model checking through the liberal generator
        f1 = pool.submit(core.tlc_model_check, ctx, "AnyMC", "Any_mc.cfg" if q else "Any_mc_thorough.cfg",
                         "L1: every outcome the standard allows; lifetimes balance, strong guarantee, observers pure",
                         workers=w)
        # 2. L2 => L1 refinement (also writes the transitions for S->C)
        f2 = pool.submit(core.tlc_model_check, ctx, "AnyImpl", "AnyImpl_mc.cfg" if q else "AnyImpl_mc_thorough.cfg",
                         "L2 (transcription of xany.hpp) refines L1: every representation state x call x argument x fuse",
                         heap="8g", timeout=1500, workers=NW)
        # 3b. TLC simulation walks of AnyImpl (long histories)
        f3 = pool.submit(core.tlc, ctx, "AnyImpl", "AnyImpl_sim.cfg", name="s2c-simulate",
                         simulate="file=%s/t,num=%d" % (simdir, nsim),
                         extra=["-depth", "40", "-seed", str(ctx.seed)], workers=2, timeout=900)
        f4 = pool.submit(build_driver, ctx)
        r, r2, _, drv = f1.result(), f2.result(), f3.result(), f4.result()

    if r["violated"] or r["rc"] != 0:
        raise MachineryError("L1 spec Any.tla violates its own theorem / rejects its generator (%s): oracle bug, see %s" % (r["violated"], r["outfile"]))
    if not q:
        oc = op_counts(r["out"])
        ctx.notes["l1_transitions_per_operation_and_outcome"] = oc
        ctx.notes["l1_vacuous_operations"] = sorted(o for o in ALL_OPS if not any(k.startswith(o + ":") for k in oc))
    r["out"] = ""

    edges, n_emitted, per_op = emitted(r2["out"], rnd, 9000 if q else 110000)
    r2["out"] = r2["out"][-4000:] if not r2["violated"] else "\n".join(l for l in r2["out"].splitlines() if not l.startswith('"@E@'))
    cex = []
    if r2["violated"] or r2["rc"] != 0:
        cex = counterexample_script(r2["out"])
        ctx.notes["l2_refinement"] = "failed"
    else:
        ctx.notes["l2_refinement"] = "holds"
    if not q:
        ctx.notes["l2_transitions_per_operation"] = per_op
        ctx.notes["l2_vacuous_operations"] = sorted(o for o in ALL_OPS if o not in per_op)
        ru = core.tlc(ctx, "AnyImpl", "AnyImpl_unfixed.cfg", name="AnyImpl-without-self-swap-guard", timeout=600)
        ctx.notes["l2_model_of_header_before_fix_C06_01"] = (
            "refinement violated as expected (Swap(k,k) on an in-place payload): %s" % ru["violated"] if ru["violated"]
            else "NOT violated - the model no longer shows defect C06-01")

    scripts = []     # (name, lines, expectations or None)

    # ---- 3. S->C: transitions of the L2 exploration
    lines, exp, taken = edge_scripts(edges, rnd)
    ctx.log("S->C: %d L2 transitions written by TLC, %d replayed (%d script calls)" % (n_emitted, taken, len(lines)))
    ctx.notes["s2c_transitions_enumerated"] = n_emitted
    ctx.notes["s2c_transitions_replayed"] = taken
    for i, (ch, ex) in enumerate(chunk_by_reset(lines, exp, 8 if q else 16)):
        scripts.append(("s2c-%02d" % i, ch, ex))
    if cex:
        scripts.append(("l2-counterexample", [RESET] + cex, None))

    # ---- 3b. the simulation walks
    lines, exp, nwalks = sim_scripts(simdir)
    ctx.notes["s2c_simulation_walks"] = nwalks
    for i, (ch, ex) in enumerate(chunk_by_reset(lines, exp, 1 if q else 4)):
        scripts.append(("sim-%d" % i, ch, ex))

    # ---- 4. C->S: random scripts
    nexec, nops = (120, 45) if q else (8000, 50)
    lines = random_script(ctx.seed, nexec, nops)
    for i, (ch, ex) in enumerate(chunk_by_reset(lines, [None] * len(lines), 4 if q else 16)):
        scripts.append(("rnd-%02d" % i, ch, None))

    # ---- probes for open known findings
    for fnd in findings:
        if "probe" in fnd:
            scripts.append(("probe-" + fnd["id"], fnd["probe"]["script"], None))

    # ---- run the harness
    tdir = ctx.sub("traces")
    jobs = []
    for name, lines, exp in scripts:
        sp, tp = os.path.join(tdir, name + ".script"), os.path.join(tdir, name + ".ndjson")
        write_script(sp, lines)
        jobs.append((name, sp, tp, lines, exp))
    with ThreadPoolExecutor(max_workers=max(2, NW // 2)) as ex:
        rcs = list(ex.map(lambda j: run_script(drv, j[1], j[2]), jobs))
    traces, ncalls, npred, nthrow = [], 0, 0, 0
    for (name, sp, tp, lines, exp), (rc, err) in zip(jobs, rcs):
        traces.append(tp)
        ncalls += sum(1 for l in lines if l["op"] != "Reset")
        ctx.cov["traces_validated_against_impl"] += sum(1 for l in lines if l["op"] == "Reset")
        with open(tp) as f:
            txt = f.read()
        nthrow += txt.count('"exc":"fuse"')
        crashed = '"op":"Crash"' in txt
        if rc != 0 and not crashed:
            # complete trace but the process failed at exit: LeakSanitizer (memory never freed)
            rc2, err2 = run_script(drv, sp, tp + ".again")
            if rc2 != 0:
                ctx.violation("harness exit status %d after a complete run of %s (LeakSanitizer / sanitizer report at exit): %s" % (
                    rc, name, err[-1500:]), replay_lines=lines)
            else:
                raise MachineryError("non-reproducible harness failure (rc=%d) on %s: %s" % (rc, name, err[-800:]))
        if exp is not None:
            n, bad = compare_prediction(ctx, name, tp, exp)
            npred += n
    ctx.notes["calls_executed_on_real_objects"] = ncalls
    ctx.notes["injected_throws_observed"] = nthrow
    ctx.notes["l2_predictions_compared"] = npred
    ctx.sample({"script": [json.dumps(x) for x in scripts[0][1][:10]]})
    ctx.sample({"script": [json.dumps(x) for x in scripts[-1][1][:10]]})
    with open(traces[0]) as f:
        ctx.sample({"trace_lines": [next(f).strip()[:900] for _ in range(3)]})

    # ---- validate every trace against L1
    desyncs = []
    res = core.validate_traces(ctx, TRACE_SPEC, TRACE_CFG, traces, classify=classify(findings, desyncs), parallel=max(1, NW // 2))
    if DESYNC in ctx.known:
        ctx.known.remove(DESYNC)
    for path, rr in res:
        if rr["accepted"] or '"op":"Desync"' not in rr["execution"][-1]:
            continue
        name = os.path.basename(path)
        if name.startswith("sim-") or name.startswith("l2-"):
            # a walk generated from AnyImpl assumed an outcome (an object was / was not constructed) the code did not
            # produce, although everything the code did up to there is accepted by L1: the model is out of date
            if len(ctx.drift) < 8:
                ctx.drift.append("a call sequence generated from AnyImpl.tla left the preconditions on the real code (%s): %s" % (
                    name, rr["execution"][-1][:400]))
        else:
            raise MachineryError("script %s left the C++ preconditions by itself: %s" % (name, rr["execution"][-1][:400]))
    ctx.cov["evaluations"] = ctx.cov["events_validated"]
    ctx.log("validated %d lines in %d traces (%d executions, %d injected throws observed, %d L2 predictions compared)" % (
        ctx.cov["events_validated"], len(traces), ctx.cov["traces_validated_against_impl"], nthrow, npred))

    if (r2["violated"] or r2["rc"] != 0) and not ctx.violations:
        ctx.drift.append("AnyImpl.tla does not refine Any.tla (%s) but the counterexample %s is accepted on the real code: "
                         "the L2 model is out of date; see %s" % (r2["violated"], json.dumps(cex)[:600], r2["outfile"]))
        ctx.notes["l2_refinement"] = "failed-not-reproduced"
    if nthrow == 0:
        raise MachineryError("vacuous run: the fault fuse never fired")

    return core.finish(
        ctx, "model_checking",
        rule="TLC: L1 (Any.tla) over 3 any objects x 3 payload types x 2 values (+moved-from), all outcomes the standard allows, "
             "fuse 0..1; L2 (AnyImpl.tla) => L1 over all 512 representation states x every call x argument x fuse 0..%d; "
             "%d of the L2 transitions and %d simulation walks replayed on real xtl::any objects, %d random executions; "
             "a case is one public call with its element events, result and the observers' report on all three objects, "
             "validated by TLC against L1." % (1 if q else 2, taken, nwalks, nexec),
        assumptions=["payload objects are identified by address through the harness registry; ids are assigned in construction order",
                     "the projection uses has_value()/empty()/type()/any_cast<T>(const any*) of the object under test",
                     "payload types: Small (16 bytes, nothrow move), Big (24 bytes), STM (16 bytes, throwing move); "
                     "over-aligned payloads, ANY_IMPL_ANY_CAST_MOVEABLE and XTL_NO_EXCEPTIONS builds are not exercised"],
        exhaustive=False)

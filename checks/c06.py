"""C06 - xtl::any keeps, copies and returns exactly what was stored, with exact-type casts.

 0. Compile time: TLC enumerates AnyTypes.tla (which any_cast calls both published specifications of any make
    well-formed and what they return, which operations are noexcept, the type relations the property rests on);
    every row becomes static_asserts / real calls for several stored types, compiled with -fsyntax-only against
    xany.hpp BEFORE the driver is built.  A failing row is a VIOLATION.  Call forms on which the specifications
    differ (any_cast<U&&>(any&&) ...) and facilities the tree may or may not have (emplace, make_any) are probed;
    what exists is exercised at run time.
 1. TLC: Any.tla (L1) explored through the liberal generator AnyMC.tla (every alternative the standard
    allows: steal / relocate / leave a moved-from object, pointer swap / relocating swap ...): invariants
    (no leak, no dangling any, copies independent) and action properties (strong guarantee, observers pure and in
    agreement, noexcept operations never throw, untouched objects unchanged).
 2. TLC: AnyImpl.tla (L2, transcription of xany.hpp: vtable pointer, in-place buffer vs heap, copy-and-swap,
    three-way swap, vtable_stack::swap by three moves) refines Any.tla - every reachable representation
    state x every call x every argument x every fuse setting; instrumented payloads and payloads without events.
 3. S->C: the transitions of that exploration (canonical state, call) are replayed on real xtl::any objects
    (state re-established through varying constructor histories); TLC simulation walks of AnyImpl add long
    histories.  What the model predicted for the call (element-event shape, exception, in-place flag) is
    compared too: a mismatch is MODEL-DRIFT (advisory).
 4. C->S: seeded random call sequences over three to five any objects (fuse probability 0.3, self-assignment and
    self-swap included), on several builds of the driver (macros of xany.hpp, compilers, optimisation levels).
 Every recorded line (call, element events of instrumented payload types, result, what the observers say about
 all five objects, owner counts of shared_ptr payloads) is validated by TLC against AnyTrace.tla: L1 is the oracle,
 and the only source of verdicts.  The harness runs under ASan+LSan; a sanitizer report, std::terminate or a call
 that does not return ends the trace with a Crash line, which no spec action matches; the driver is restarted on
 the remaining executions.  A rejection is executed again (same build) and re-validated before it is reported;
 a handful of distinct ones are reported with replay files, the rest are counted.
"""
import json, os, random, re, subprocess, threading
from concurrent.futures import ThreadPoolExecutor
from vlib import core, tlaval
from vlib.core import MachineryError

TRACKED = ["Small", "Big", "STM", "NC"]
UNTRACKED = ["Int", "Str", "CStr", "Fn", "Sp", "Ov", "Nest", "Ov32", "Ov64", "P16", "P17"]
TYPES = TRACKED + UNTRACKED
XTYPES = ["Var", "Fs", "Opt"]      # xtl::variant<int,string>, xfixed_string<23>, xoptional<int>: only in builds where the probe "XTYPES" compiles
OVERALIGNED = ["Ov32", "Ov64"]
ALLOCATING_OPS = ("Construct", "CopyConstruct", "CopyAssign", "AssignValue")
SRC_CATS = ["lv", "clv", "rv", "crv"]      # value category x constness of an any source expression (Any!SrcCats): only "rv" moves
NEVER = ["CharP", "AnyT", "Arr"]
VALUE_FORMS = ["lv", "clv", "rv", "crv"]
PTR_FORMS = ["p_m", "p_mc", "p_c", "p_cc", "p_n", "p_nc"]
CAST_FORMS = PTR_FORMS + ["v_m", "v_mc", "v_c", "v_cc", "v_r", "v_rc", "r_m", "r_mc", "r_c", "r_r"]
OPEN_FORMS = {"lr_r": "LR", "x_r": "XR", "cx_r": "CXR"}        # form -> feature (probed per build)
ALL_OPS = ["DefaultConstruct", "Construct", "CopyConstruct", "MoveConstruct", "ConstructFrom", "CopyAssign", "MoveAssign", "AssignFrom", "AssignValue", "Swap",
           "StdSwap", "AReset", "AClear", "Destroy", "DestroyIf", "HasValue", "Empty", "Type", "Cast", "SetVia"]
PURE_OPS = {"HasValue", "Empty", "Type"}          # calls after which the S->C scripts need not re-establish the state
TRACE_SPEC, TRACE_CFG = "AnyTrace", "AnyTrace.cfg"
NA = 5
# development on a shared machine: VERIF_DEV_WORKERS=4 caps TLC workers and parallel processes (default: all cores)
NW = max(1, min(core.NCPU, int(os.environ.get("VERIF_DEV_WORKERS", core.NCPU) or core.NCPU)))
JENV = {"JAVA_TOOL_OPTIONS": "-XX:ParallelGCThreads=2 -XX:CICompilerCount=2"}      # many JVMs run side by side

# build flavours of the driver: macros of xany.hpp, compiler, optimisation level
FLAVOURS = {
    "std":   {"flags": []},
    "fast":  {"flags": ["-DANY_IMPL_FAST_TYPE_INFO_COMPARE"]},
    "mov":   {"flags": ["-DANY_IMPL_ANY_CAST_MOVEABLE"]},
    "noexc": {"flags": ["-DXTL_NO_EXCEPTIONS"]},
    "clang": {"flags": [], "cxx": "clang++"},
    "O0":    {"flags": ["-O0"]},
    "O2":    {"flags": ["-O2"]},
    # round 3: the language level at which plain `new T` honours over-alignment, and the macro combinations
    "cxx17":    {"flags": ["-std=c++17"], "aligned_new": True},
    "fastmov":  {"flags": ["-DANY_IMPL_FAST_TYPE_INFO_COMPARE", "-DANY_IMPL_ANY_CAST_MOVEABLE"]},
    "movnoexc": {"flags": ["-DANY_IMPL_ANY_CAST_MOVEABLE", "-DXTL_NO_EXCEPTIONS"]},
    "all3":     {"flags": ["-DANY_IMPL_FAST_TYPE_INFO_COMPARE", "-DANY_IMPL_ANY_CAST_MOVEABLE", "-DXTL_NO_EXCEPTIONS"]},
}
NOEXC_FLAVOURS = ("noexc", "movnoexc", "all3")
QUICK_FLAVOURS = ["std", "fast", "mov", "noexc", "cxx17"]
ALL_FLAVOURS = ["std", "fast", "mov", "noexc", "cxx17", "clang", "O0", "O2", "fastmov", "movnoexc", "all3"]
MAX_REPORTED = 5          # distinct violations reported with a replay file
MAX_CONFIRM = 8           # rejections executed again and explained
MAX_RESTARTS_VALIDATE = 4 # rejected executions cut out of one trace file before the rest of the file is given up


def model_check(ctx, module, cfg, what, **kw):
    """core.tlc_model_check; with VERIF_C06_TLC_CACHE=<dir> (development only: mutation experiments change the headers, not the
    specs) the result of a run is kept per (cfg, contents of the Any*.tla/cfg files)."""
    cache = os.environ.get("VERIF_C06_TLC_CACHE")
    if not cache:
        return core.tlc_model_check(ctx, module, cfg, what, **kw)
    import hashlib, pickle
    h = hashlib.sha1()
    for fn in sorted(os.listdir(core.SPECS)):
        if fn.startswith("Any"):
            h.update(open(os.path.join(core.SPECS, fn), "rb").read())
    os.makedirs(cache, exist_ok=True)
    p = os.path.join(cache, "%s-%s-%s.pkl" % (module, cfg, h.hexdigest()[:12]))
    if os.path.exists(p):
        r = pickle.load(open(p, "rb"))
        ctx.cov["states"] += r["distinct"]; ctx.cov["transitions"] += r["generated"]
        ctx.tlc_runs.append({k: r[k] for k in ("name", "module", "cfg", "rc", "wall_s", "generated", "distinct", "depth", "violated")})
        ctx.log("TLC %s: (cached) %d distinct states, %d transitions" % (r["name"], r["distinct"], r["generated"]))
        return r
    r = core.tlc_model_check(ctx, module, cfg, what, **kw)
    pickle.dump(r, open(p, "wb"))
    return r


def ev(op, k, **a):
    a.setdefault("fuse", 0)
    return {"op": op, "k": k, "a": a}


RESET = {"op": "Reset", "k": 1, "a": {"z": 0}}


# ------------------------------------------------------------------ 0. compile-time table and probes
TYPE_BASES = ["int", "std::string", "pt::P16", "const char*", "std::shared_ptr<int>"]
TU_HEAD = r"""// generated by checks/c06.py from the rows TLC enumerated for AnyTypes.tla
#include <cstdio>
#include <xtl/xany.hpp>
#include <memory>
#include <string>
#include <type_traits>
#include <typeinfo>
#include <utility>
namespace pt {
    struct P16 { long long a, b; P16(); P16(const P16&); P16(P16&&) noexcept; P16& operator=(const P16&); };
    int fun(int);
}
"""
OPERAND_T = {"any&": "xtl::any&", "const any&": "const xtl::any&", "any&&": "xtl::any&&", "any*": "xtl::any*", "const any*": "const xtl::any*"}
NOEXCEPT_EXPR = {
    "move_ctor": "std::is_nothrow_move_constructible<xtl::any>::value",
    "move_assign": "std::is_nothrow_move_assignable<xtl::any>::value",
    "swap": "noexcept(std::declval<xtl::any&>().swap(std::declval<xtl::any&>()))",
    "std_swap": "noexcept(std::swap(std::declval<xtl::any&>(), std::declval<xtl::any&>()))",
    "reset": "noexcept(std::declval<xtl::any&>().reset())",
    "clear": "noexcept(std::declval<xtl::any&>().clear())",
    "has_value": "noexcept(std::declval<const xtl::any&>().has_value()) && std::is_same<decltype(std::declval<const xtl::any&>().has_value()), bool>::value",
    "empty": "noexcept(std::declval<const xtl::any&>().empty()) && std::is_same<decltype(std::declval<const xtl::any&>().empty()), bool>::value",
    "type": "noexcept(std::declval<const xtl::any&>().type()) && std::is_same<decltype(std::declval<const xtl::any&>().type()), const std::type_info&>::value",
}
TRAIT_EXPR = {
    "bad_any_cast_is_a_bad_cast": "std::is_base_of<std::bad_cast, xtl::bad_any_cast>::value && std::is_convertible<xtl::bad_any_cast*, std::bad_cast*>::value",
    "copy_constructible": "std::is_copy_constructible<xtl::any>::value",
    "copy_assignable": "std::is_copy_assignable<xtl::any>::value",
    "move_constructible": "std::is_move_constructible<xtl::any>::value",
    "constructible_from_value": "std::is_constructible<xtl::any, {U}>::value && std::is_constructible<xtl::any, {U}&>::value && std::is_constructible<xtl::any, {U} const&>::value",
    "constructible_from_array": "std::is_constructible<xtl::any, const char (&)[4]>::value",
    "constructible_from_function": "std::is_constructible<xtl::any, int (&)(int)>::value",
    "assignable_from_value": "std::is_assignable<xtl::any&, {U}>::value && std::is_assignable<xtl::any&, {U} const&>::value",
    "copy_from_const_rvalue": "std::is_constructible<xtl::any, const xtl::any&&>::value && std::is_assignable<xtl::any&, const xtl::any&&>::value",
}


TRAIT_CALL = {
    "constructible_from_value": "xtl::any a(u); xtl::any c(static_cast<{U} const&>(u)); xtl::any d(std::move(u)); (void)a; (void)c; (void)d; (void)b;",
    "assignable_from_value": "b = u; b = static_cast<{U} const&>(u); b = std::move(u);",
    "constructible_from_array": "xtl::any a(\"abc\"); b = \"abd\"; (void)a; (void)u;",
    "constructible_from_function": "xtl::any a(pt::fun); b = pt::fun; (void)a; (void)u;",
    "copy_constructible": "xtl::any a(b); xtl::any c(static_cast<const xtl::any&>(b)); (void)a; (void)c; (void)u;",
    "copy_assignable": "xtl::any a; a = b; a = static_cast<const xtl::any&>(b); (void)u;",
    "move_constructible": "xtl::any a(std::move(b)); (void)a; (void)u;",
    "copy_from_const_rvalue": "xtl::any a(static_cast<const xtl::any&&>(b)); a = static_cast<const xtl::any&&>(b); (void)u;",
}


def render_type(t, base):
    if t["ref"] == "ptr":
        return ("const " if t["c"] else "") + base + "*" if not base.endswith("*") else base + (" const" if t["c"] else "") + "*"
    s = (base + " const") if t["c"] else base
    return s + {"none": "", "lref": "&", "rref": "&&"}[t["ref"]]


def row_text(row, base=None):
    if row["kind"] == "cast":
        return "any_cast<%s>(%s) -> %s%s" % (render_type(row["target"], base or "U"), row["operand"], render_type(row["ret"], base or "U"),
                                              " noexcept" if row["nothrow"] else "")
    return "%s: %s" % (row["kind"], row["operand"])


def row_lines(row, base, n):
    """C++ lines (each on its own line of the translation unit) that must compile for this row."""
    if row["kind"] == "noexcept":
        return ['static_assert(%s, "C06ROW %d");' % (NOEXCEPT_EXPR[row["operand"]], n)]
    if row["kind"] == "trait":
        out = ['static_assert(%s, "C06ROW %d");' % (TRAIT_EXPR[row["operand"]].replace("{U}", base), n)]
        if row["operand"] in TRAIT_CALL:     # constructor bodies are instantiated only by a real call
            out.append("inline void c06_row_%d(%s& u, xtl::any& b) { %s }" % (n, base, TRAIT_CALL[row["operand"]].replace("{U}", base)))
        return out
    vt = render_type(row["target"], base)
    ret = render_type(row["ret"], base)
    opnd = OPERAND_T[row["operand"]]
    call = "xtl::any_cast<%s>(std::declval<%s>())" % (vt, opnd)
    got = "decltype(%s)" % call
    if row["ret"]["ref"] == "none":
        # a function returning a const scalar by value returns the unqualified type ([expr]/6): compare modulo top-level cv
        got, ret_cmp = "typename std::remove_cv<%s>::type" % got, render_type(dict(row["ret"], c=False), base)
    else:
        ret_cmp = ret
    out = ['static_assert(std::is_same<%s, %s>::value%s, "C06ROW %d");' % (
        got, ret_cmp, (" && noexcept(%s)" % call) if row["nothrow"] else "", n)]
    # a real call: function bodies are instantiated only when the call is made
    if row["operand"] in ("any*", "const any*"):
        out.append("inline void c06_row_%d(%s a) { %s x = xtl::any_cast<%s>(a); (void)x; }" % (n, opnd, ret, vt))
    elif row["operand"] == "any&&":
        out.append("inline void c06_row_%d(xtl::any& a) { %s x = xtl::any_cast<%s>(std::move(a)); (void)x; }" % (n, ret, vt))
    else:
        out.append("inline void c06_row_%d(%s a) { %s x = xtl::any_cast<%s>(a); (void)x; }" % (n, opnd, ret, vt))
    return out


def type_rows(out):
    rows = [json.loads(json.loads(l)[3:]) for l in out.splitlines() if l.startswith('"@R@')]
    return sorted(rows, key=lambda r: json.dumps(r, sort_keys=True))


def syntax_only(path, flags=(), cxx=None):
    cmd = [cxx or core.CXX, "-std=c++14", "-fsyntax-only", "-Wno-deprecated-declarations", "-I", core.INCLUDE] + list(flags) + [path]
    return core.sh(cmd, timeout=600)


def compile_table(ctx, cases, tag, flags=(), cxx=None):
    """cases: [(id, row, base, [lines])].  Returns {case id: compiler message} for the failing ones."""
    tdir = ctx.sub("types")
    p = os.path.join(tdir, "table_%s.cpp" % tag)
    where = {}
    n = TU_HEAD.count("\n")
    with open(p, "w") as f:
        f.write(TU_HEAD)
        for cid, row, base, lines in cases:
            for l in lines:
                f.write(l + "\n")
                n += 1
                where[n] = cid
    rc, out = syntax_only(p, flags, cxx)
    if rc == 0:
        return {}
    if rc == 124:
        raise MachineryError("compiling the C06 type table timed out")
    bad = {}
    for m in re.finditer(re.escape(os.path.basename(p)) + r":(\d+):\d+: +(?:error|required from here)[^\n]*", out):
        ln = int(m.group(1))
        if ln in where:
            bad.setdefault(where[ln], m.group(0)[:300])
    for m in re.finditer(r"C06ROW (\d+)", out):
        bad.setdefault(int(m.group(1)), "static assertion failed")
    if not bad:
        # an error that cannot be attributed to a row: the prologue itself (the header does not compile at all)
        raise MachineryError("the C06 type table does not compile against %s and no row can be blamed:\n%s" % (core.INCLUDE, out[-3000:]))
    return bad


def run_types(ctx, flavours):
    r = core.tlc_model_check(ctx, "AnyTypes", "AnyTypes.cfg", "any_cast overload table / noexcept / type relations: laws hold on every row; table emitted",
                             workers=1, env=JENV)
    if r["violated"] or r["rc"] != 0:
        raise MachineryError("AnyTypes.tla violates its own theorem %s (oracle bug), see %s" % (r["violated"], r["outfile"]))
    rows = type_rows(r["out"])
    if len(rows) < 35:
        raise MachineryError("type table incomplete: %d rows (see %s)" % (len(rows), r["outfile"]))
    cases = []
    for row in rows:
        if row["status"] != "must":
            continue
        for b in (TYPE_BASES if row["kind"] == "cast" or "{U}" in TRAIT_EXPR.get(row["operand"], "") else TYPE_BASES[:1]):
            cases.append((len(cases), row, b, row_lines(row, b, len(cases))))
    nlines = sum(len(c[3]) for c in cases)
    seen, nbad = set(), 0
    for fl in flavours:
        spec = FLAVOURS[fl]
        bad = compile_table(ctx, cases, fl, spec["flags"], spec.get("cxx"))
        ctx.cov["evaluations"] += nlines
        for cid in sorted(bad):
            _, row, base, lines = cases[cid]
            key = json.dumps(row, sort_keys=True)
            nbad += 1
            if key in seen:
                continue
            seen.add(key)
            if len(ctx.violations) < MAX_REPORTED:
                text = "compile-time row fails in build '%s' with U = %s: %s   [%s]   compiler: %s" % (
                    fl, base, row_text(row, base), lines[0][:400], bad[cid])
                report(ctx, text, [{"typerow": row, "base": base}], fl)
    ctx.notes["type_rows"] = len(rows)
    ctx.notes["type_rows_demanded"] = len({json.dumps(c[1], sort_keys=True) for c in cases})
    ctx.notes["type_table_lines_compiled"] = nlines * len(flavours)
    ctx.notes["type_table_failing_cases"] = nbad
    ctx.log("type table: %d rows (%d demanded) x base types = %d lines compiled for %d builds; %d failing" % (
        len(rows), ctx.notes["type_rows_demanded"], nlines, len(flavours), nbad))
    ctx.sample({"type_row": cases[3][1], "base": cases[3][2], "lines": cases[3][3]})
    return rows


PROBE_BODY = {
    "LR": "void f(xtl::any& a) { int& x = xtl::any_cast<int&>(std::move(a)); (void)x; std::string& y = xtl::any_cast<std::string&>(std::move(a)); (void)y; }",
    "XR": "void f(xtl::any& a) { int&& x = xtl::any_cast<int&&>(std::move(a)); (void)x; std::string&& y = xtl::any_cast<std::string&&>(std::move(a)); (void)y; }",
    "CXR": "void f(xtl::any& a) { const int&& x = xtl::any_cast<const int&&>(std::move(a)); (void)x; const std::string&& y = xtl::any_cast<const std::string&&>(std::move(a)); (void)y; }",
    "emplace": "void f(xtl::any& a) { a.emplace<int>(1); }",
    "make_any": "void f() { xtl::any a = xtl::make_any<int>(1); (void)a; }",
    "in_place": "void f() { xtl::any a(xtl::in_place_type_t<int>(), 1); (void)a; }",
    "XTYPES": "#include <xtl/xvariant.hpp>\n#include <xtl/xbasic_fixed_string.hpp>\n#include <xtl/xoptional.hpp>\n"
              "void f() { xtl::any a(xtl::variant<int, std::string>(1)); xtl::any b(xtl::xfixed_string<23>(\"s1\")); xtl::any c(xtl::xoptional<int, bool>(1, true)); "
              "a = b; b = xtl::variant<int, std::string>(std::string(\"x\")); (void)xtl::any_cast<xtl::xoptional<int, bool>&>(c); (void)xtl::any_cast<xtl::xfixed_string<23>>(&b); }",
    "nest_any": "void f(xtl::any& a) { xtl::any b(a); static_assert(sizeof(b) > 0, \"\"); struct W { xtl::any in; }; xtl::any c(W{a}); (void)c; }",
}


def run_probes(ctx, flavours):
    """Which of the optional call forms / facilities compile in which build.  Returns {flavour: set(features)}."""
    pdir = ctx.sub("probes")
    jobs = []
    for fl in flavours:
        for name in ("LR", "XR", "CXR", "XTYPES"):
            jobs.append((fl, name))
    for name in ("emplace", "make_any", "in_place", "nest_any"):
        jobs.append(("std", name))

    def one(j):
        fl, name = j
        p = os.path.join(pdir, "probe_%s_%s.cpp" % (fl, name))
        with open(p, "w") as f:
            f.write("#include <cstdio>\n#include <xtl/xany.hpp>\n#include <string>\n#include <utility>\n" + PROBE_BODY[name] + "\n")
        rc, out = syntax_only(p, FLAVOURS[fl]["flags"], FLAVOURS[fl].get("cxx"))
        if rc == 124:
            raise MachineryError("compile probe %s timed out" % name)
        return rc == 0

    with ThreadPoolExecutor(max_workers=max(2, NW // 2)) as ex:
        res = list(ex.map(one, jobs))
    feats = {fl: set() for fl in flavours}
    table = {}
    for (fl, name), ok in zip(jobs, res):
        table.setdefault(name, {})[fl] = ok
        if ok and name in ("LR", "XR", "CXR", "XTYPES"):
            feats[fl].add(name)
    ctx.notes["compile_probes"] = table
    ctx.log("compile probes: " + "; ".join("%s: %s" % (n, ",".join(f for f, ok in sorted(v.items()) if ok) or "absent") for n, v in sorted(table.items())))
    return feats


# ------------------------------------------------------------------ C->S: random scripts
def val_for(r, t):
    if t == "CStr":
        return r.randrange(8)
    if t == "Fn":
        return r.randrange(4)
    if t in ("Sp", "Nest"):
        return r.choice([1, 2, 3, 7])
    return r.choice([1, 2, 3, 7, 42, 1000, 65535, 2000000000])


def form_for(r, t):
    if t in ("CStr", "Fn") and r.random() < 0.4:
        return "decay"
    return r.choice(VALUE_FORMS)


class Gen:
    """Random script generator.  It tracks only which slots hold a constructed any (a C++ precondition of
    placement construction / explicit destruction); it predicts no results.  A constructor call with an armed
    fuse may or may not have produced an object, so it is followed by DestroyIf."""

    def __init__(self, rnd, nk, feats=(), noexc=False, types=TYPES):
        self.r = rnd
        self.nk = nk
        self.c = [False] * nk
        self.noexc = noexc
        self.types = list(types) + (XTYPES if "XTYPES" in feats else [])
        self.cast_forms = CAST_FORMS + [f for f, ft in OPEN_FORMS.items() if ft in feats]

    def fuse(self, p=0.3):
        x = self.r.random()
        return 0 if x >= p else (1 if x < p * 0.8 else 2)

    def afuse(self, p=0.14):
        """allocation-failure fuse: the n-th request for storage inside the library's part of the call fails"""
        return self.r.choice([1, 1, 2]) if self.r.random() < p else 0

    def typ(self):
        r = self.r
        return r.choice(TRACKED) if r.random() < 0.55 else r.choice(self.types)

    def cast(self, k):
        r = self.r
        t = r.choice(self.types + self.types + NEVER)
        forms = PTR_FORMS if t == "Arr" else self.cast_forms
        if self.noexc and r.random() < 0.8:
            forms = PTR_FORMS          # XTL_NO_EXCEPTIONS: a failing value/reference cast ends the process
        return ev("Cast", k + 1, t=t, form=r.choice(forms), fuse=self.fuse())

    def step(self):
        r = self.r
        raw = [k for k in range(self.nk) if not self.c[k]]
        con = [k for k in range(self.nk) if self.c[k]]
        out = []
        if raw and (not con or r.random() < 0.35):
            k = r.choice(raw)
            f = self.fuse()
            af = self.afuse()
            t = r.random()
            if t < 0.5 or not con:
                if t < 0.08:
                    out.append(ev("DefaultConstruct", k + 1, fuse=f))
                else:
                    ty = self.typ()
                    out.append(ev("Construct", k + 1, t=ty, v=val_for(r, ty), form=form_for(r, ty), fuse=f, afuse=af))
            else:
                j = r.choice(con)
                if t < 0.64:
                    out.append(ev("CopyConstruct", k + 1, j=j + 1, fuse=f, afuse=af))
                elif t < 0.82:
                    cat = r.choice(SRC_CATS)
                    out.append(ev("ConstructFrom", k + 1, j=j + 1, cat=cat, fuse=f, afuse=0 if cat == "rv" else af))
                else:
                    out.append(ev("MoveConstruct", k + 1, j=j + 1, fuse=f))
            if (f or af) and (out[-1]["op"] in ("Construct", "CopyConstruct") or (out[-1]["op"] == "ConstructFrom" and out[-1]["a"]["cat"] != "rv")):
                out.append(ev("DestroyIf", k + 1))
            else:
                self.c[k] = True
            return out
        k = r.choice(con)
        j = r.choice(con) if r.random() > 0.12 else k
        c = r.random()
        f = self.fuse()
        if c < 0.09:
            return [ev("CopyAssign", k + 1, j=j + 1, fuse=f, afuse=self.afuse())]
        if c < 0.15:
            cat = r.choice(SRC_CATS)
            return [ev("AssignFrom", k + 1, j=j + 1, cat=cat, fuse=f, afuse=0 if cat == "rv" else self.afuse())]
        if c < 0.22:
            return [ev("MoveAssign", k + 1, j=j + 1, fuse=f)]
        if c < 0.34:
            ty = self.typ()
            return [ev("AssignValue", k + 1, t=ty, v=val_for(r, ty), form=form_for(r, ty), fuse=f, afuse=self.afuse())]
        if c < 0.48:
            return [ev(r.choice(["Swap", "Swap", "StdSwap"]), k + 1, j=j + 1, fuse=f)]
        if c < 0.53:
            return [ev(r.choice(["AReset", "AClear"]), k + 1, fuse=f)]
        if c < 0.60:
            self.c[k] = False
            return [ev(r.choice(["Destroy", "DestroyIf"]), k + 1, fuse=f)]
        if c < 0.66:
            return [ev(r.choice(["HasValue", "Empty", "Type"]), k + 1, fuse=f)]
        if c < 0.90:
            return [self.cast(k)]
        ty = self.typ()
        return [ev("SetVia", k + 1, t=ty, v=val_for(r, ty), fuse=0)]


def random_script(seed, nexec, nops, feats=(), noexc=False, salt=0):
    rnd = random.Random(seed * 7919 + 13 + salt * 104729)
    lines = []
    for _ in range(nexec):
        nk = rnd.choice([3, 3, 4, 5])
        g = Gen(rnd, nk, feats, noexc)
        lines.append(RESET)
        n = 0
        while n < nops:
            s = g.step()
            lines.extend(s)
            n += len(s)
        for k in range(nk):
            lines.append(ev("DestroyIf", k + 1))
    return lines


# ------------------------------------------------------------------ S->C: scripts from TLC's exploration of AnyImpl
def emitted(out, rnd, limit):
    """Transitions written by the Emit action constraint of AnyImpl.tla.  Returns (sample, total, per-op counts);
    the sample is drawn uniformly (probability limit/total) so that memory stays bounded."""
    lines = sorted(l for l in out.splitlines() if l.startswith('"@E@'))       # TLC's workers print in no fixed order
    total = len(lines)
    keep = 1.0 if not limit or total <= limit else limit / float(total)
    res, per_op = [], {}
    for line in lines:
        m = re.search(r'\\"op\\":\\"(\w+)\\"', line)
        if m:
            per_op[m.group(1)] = per_op.get(m.group(1), 0) + 1
        if keep >= 1.0 or rnd.random() < keep:
            res.append(json.loads(json.loads(line)[3:]))
    return res, total, per_op


def op_counts(out):
    """'@O@op:outcome' lines written by AnyMC's EmitOp (thorough tier): transitions per operation and outcome."""
    c = {}
    for m in re.finditer(r'^"@O@([\w:]+)"$', out, flags=re.M):
        c[m.group(1)] = c.get(m.group(1), 0) + 1
    return c


def vforms(rnd, t):
    return rnd.choice(VALUE_FORMS + (["decay"] if t in ("CStr", "Fn") else []))


def establish(k, vt, pv, rnd):
    """Calls that bring raw slot k (1-based) into representation state (vt, pv), through varying histories."""
    if vt == "raw":
        return []
    if vt == "null":
        c = rnd.random()
        if c < 0.5:
            return [ev("DefaultConstruct", k)]
        t = rnd.choice(TYPES)
        if c < 0.8:
            return [ev("Construct", k, t=t, v=3, form=vforms(rnd, t)), ev(rnd.choice(["AReset", "AClear"]), k)]
        return [ev("Construct", k, t=t, v=3, form="rv"), ev("MoveAssign", k, j=k), ev("AClear", k)]
    c = rnd.random()
    if c < 0.6:
        return [ev("Construct", k, t=vt, v=pv, form=vforms(rnd, vt))]
    if c < 0.8:     # a different type first, then assignment from a value
        t = rnd.choice(TYPES)
        return [ev("Construct", k, t=t, v=3, form=vforms(rnd, t)),
                ev("AssignValue", k, t=vt, v=pv, form=vforms(rnd, vt))]
    if c < 0.9:     # empty first
        return [ev("DefaultConstruct", k), ev("AssignValue", k, t=vt, v=pv, form=vforms(rnd, vt))]
    return [ev("Construct", k, t=vt, v=3, form="clv"), ev("SetVia", k, t=vt, v=pv)]


def edge_scripts(edges, rnd, feats):
    """One execution per source state: Reset, establish the state, then for each sampled transition out of it
    the call, followed by re-establishing the slots the call names.  Returns (lines, expectations) where
    expectations[i] is what AnyImpl predicted for script line i (None for set-up lines)."""
    by_src = {}
    for e in edges:
        fm = e["l"]["a"].get("form")
        if fm in OPEN_FORMS and OPEN_FORMS[fm] not in feats:
            continue            # a call form this build of the library does not accept
        by_src.setdefault(json.dumps(e["p"], sort_keys=True), []).append(e)
    lines, exp, taken = [], [], 0

    def put(ls, x=None):
        for l in ls:
            lines.append(l)
            exp.append(None)
        if x is not None:
            exp[-1] = x

    for key in sorted(by_src):
        st = json.loads(key)
        ks = range(1, len(st["vt"]) + 1)
        calls = by_src[key]
        calls.sort(key=lambda c: json.dumps(c["l"], sort_keys=True))
        rnd.shuffle(calls)
        calls.sort(key=lambda c: c["l"]["op"] not in PURE_OPS)
        put([RESET])
        for k in ks:
            put(establish(k, st["vt"][k - 1], st["pv"][k - 1], rnd))
        for c in calls:
            call = {"op": c["l"]["op"], "k": c["l"]["k"], "a": dict(c["l"]["a"])}
            put([call], c["x"])
            taken += 1
            if call["op"] in PURE_OPS:
                continue
            touched = sorted({call["k"], call["a"].get("j", call["k"])})
            put([ev("DestroyIf", k) for k in touched])
            for k in touched:
                put(establish(k, st["vt"][k - 1], st["pv"][k - 1], rnd))
        put([ev("DestroyIf", k) for k in ks])
    return lines, exp, taken


def sim_scripts(simdir, feats=()):
    lines, exp, n = [], [], 0
    for fn in sorted(os.listdir(simdir)):
        states = tlaval.parse_sim_trace(os.path.join(simdir, fn))
        if len(states) < 2:
            continue
        lines.append(RESET); exp.append(None)
        for s in states[1:]:
            la = s["last"]
            if la["a"].get("form") in OPEN_FORMS and OPEN_FORMS[la["a"]["form"]] not in feats:
                continue        # a call form this build does not accept (a cast through a reference form changes nothing)
            lines.append({"op": la["op"], "k": la["k"], "a": la["a"]})
            exp.append({"shape": ["%s:%s:%s" % (e["e"], e["kind"], e["t"]) for e in la["ev"]], "exc": la["res"]["exc"], "inp": la["inp"]})
        for k in (1, 2, 3):
            lines.append(ev("DestroyIf", k)); exp.append(None)
        n += 1
    return lines, exp, n


# ------------------------------------------------------------------ harness
def write_script(path, lines):
    with open(path, "w") as f:
        for l in lines:
            f.write((l if isinstance(l, str) else json.dumps(l, separators=(",", ":"))) + "\n")


def chunk_by_reset(lines, exp, nchunks):
    starts = [i for i, l in enumerate(lines) if l["op"] == "Reset"]
    if not starts:
        return [(lines, exp)]
    per = max(1, -(-len(starts) // nchunks))
    cuts = starts[::per]
    return [(lines[a:b], exp[a:b]) for a, b in zip(cuts, cuts[1:] + [len(lines)])]


def build_flags(fl, feats):
    spec = FLAVOURS[fl]
    flags = list(spec["flags"]) + ['-DC06_FLAVOUR="%s"' % fl]
    for ft in sorted(feats):
        flags.append("-DC06_HAVE_%s=1" % ft)
    return flags, spec.get("cxx")


def build_driver(ctx, fl="std", feats=()):
    drv = os.path.join(ctx.work, "any_driver_" + fl)
    flags, cxx = build_flags(fl, feats)
    core.build(ctx, os.path.join(core.HARNESS, "any", "driver.cpp"), drv, flags=flags, cxx=cxx)
    return drv


def tail_lines(path, n=3):
    with open(path, "rb") as f:
        f.seek(0, 2)
        size = f.tell()
        f.seek(max(0, size - 65536))
        data = f.read().decode(errors="replace")
    return [l for l in data.splitlines() if l.strip()][-n:]


def ended_early(path):
    """The process ended inside an execution: the last line is a Crash / CrashIn line or a call that ended in std::terminate."""
    t = tail_lines(path, 1)
    if not t:
        return None
    last = t[-1]
    if last.startswith('{"op":"Crash"') or last.startswith('{"op":"CrashIn"'):
        return "crash"
    if '"res":{"exc":"terminate"' in last:
        return "terminate"
    return None


HANG_BUDGET = [6]        # restarts after a call that did not return, per check run (each costs seconds of CPU)
_LOCK = threading.Lock()


def run_script(drv, lines, script_path, trace_path, max_restarts=25, call_cpu_s=None):
    """Run the driver on the script.  When the process ends inside an execution (crash, sanitizer report, terminate, a call
    that does not return) it is started again on the remaining executions.  Returns dict(rc, err, restarts, dropped, kinds)."""
    env = dict(os.environ); env.update(core.ASAN_ENV)
    if call_cpu_s:
        env["C06_CALL_CPU_S"] = str(call_cpu_s)
    resets = [i for i, l in enumerate(lines) if (l.get("op") if isinstance(l, dict) else "") == "Reset"]
    pos, restarts, kinds, errs, rc, dropped = 0, 0, [], [], 0, 0
    open(trace_path, "w").close()
    part = 0
    while True:
        sp = script_path if part == 0 else "%s.part%d" % (script_path, part)
        tp = trace_path + ".run%d" % part
        write_script(sp, lines[pos:])
        early = None
        with open(sp) as fin, open(tp, "w") as fout:
            try:
                p = subprocess.run([drv], stdin=fin, stdout=fout, stderr=subprocess.PIPE, env=env, timeout=1500)
                rc, err = p.returncode, p.stderr.decode(errors="replace")
            except subprocess.TimeoutExpired as x:
                rc, err = 124, "[wall-clock timeout] " + (x.stderr or b"").decode(errors="replace")[-500:]
                early = "timeout"
        if early == "timeout":
            with open(tp, "a") as f:
                f.write('\n{"op":"Crash","why":"the driver did not finish within the wall-clock limit"}\n')
        if rc == 3:
            raise MachineryError("harness rejected script %s: %s" % (sp, err[-800:]))
        early = early or ended_early(tp)
        if not early and rc < 0:
            # killed by a signal its handlers could not catch: the trace ends inside a call without a Crash line
            with open(tp, "a") as f:
                f.write('\n{"op":"Crash","why":"the driver was killed by signal %d inside the call after the last recorded one"}\n' % -rc)
            early = "crash"
        with open(tp) as f:
            data = f.read()
        if early == "crash" and ("hang: the call did not return" in data[-400:] or "wall-clock limit" in data[-400:]):
            early = "hang"
        with open(trace_path, "a") as f:
            f.write(data if data.endswith("\n") or not data else data + "\n")
        nres = sum(1 for l in data.splitlines() if l.startswith('{"op":"Reset"'))
        os.remove(tp)
        if not early:
            break
        kinds.append(early)
        errs.append(err[-1500:])
        # the execution that ended early is the nres-th one of this run; continue with the next
        rest = [i for i in resets if i >= pos]
        if nres >= len(rest):
            break
        if early == "hang":
            with _LOCK:
                HANG_BUDGET[0] -= 1
                left = HANG_BUDGET[0]
        if restarts >= max_restarts or (early == "hang" and left < 0):
            dropped = len(rest) - nres
            break
        pos = rest[nres]
        restarts += 1
        part += 1
    return {"rc": rc, "err": err, "restarts": restarts, "dropped": dropped, "kinds": kinds, "errs": errs}


_RE_CAST = re.compile(r'^\{"op":"Cast","k":\d+,"a":\{([^}]*)\},"ev":\[[^\]]*\],"res":\{"exc":"none","null":false', re.M)
_RE_KV = re.compile(r'"(t|form)":"(\w+)"')


def calls_only(lines):
    out = []
    for l in lines:
        if isinstance(l, str):
            try:
                l = json.loads(l)
            except Exception:
                continue
        if "_meta" in l or l.get("op") in ("Crash", "CrashIn", "Desync") or "k" not in l:
            continue
        if l["op"] == "Reset":
            out.append(RESET)
        else:
            out.append({"op": l["op"], "k": l["k"], "a": l["a"]})
    return out


def report(ctx, text, replay_lines, flavour):
    """Write a replay file that names the build and report the violation."""
    import hashlib
    os.makedirs(ctx.replays, exist_ok=True)
    flags, cxx = build_flags(flavour, ctx.notes.get("_feats", {}).get(flavour, ()))
    meta = {"property": ctx.pid, "what": text[:3000], "flavour": flavour, "flags": flags, "cxx": cxx or core.CXX,
            "seed": ctx.seed, "tier": ctx.tier, "include": core.INCLUDE}
    h = hashlib.sha1((text + json.dumps(replay_lines, sort_keys=True, default=str)).encode()).hexdigest()[:10]
    path = os.path.join(ctx.replays, "v_%s.ndjson" % h)
    with open(path, "w") as f:
        f.write(json.dumps({"_meta": meta}) + "\n")
        for l in replay_lines:
            f.write((l if isinstance(l, str) else json.dumps(l, separators=(",", ":"))) + "\n")
    return ctx.violation(text, replay_path=path)


def compare_prediction(ctx, name, trace_path, exp):
    """L2 binding (advisory): element-event shape, exception and in-place flags predicted by AnyImpl."""
    n = bad = 0
    with open(trace_path) as f:
        for i, line in enumerate(f):
            if i >= len(exp):
                break
            x = exp[i]
            if not line.startswith("{"):
                break
            if x is None:
                if line.startswith('{"op":"Crash') or line.startswith('{"op":"Desync'):
                    break
                continue
            try:
                d = json.loads(line)
            except Exception:
                break
            if d.get("op") in ("Crash", "CrashIn", "Desync"):
                break       # lines after this no longer correspond to script lines
            shape = ["%s:%s:%s" % (e["e"], e["kind"], e["t"]) for e in d["ev"]]
            inp = [s.get("inp", 0) for s in d["st"]][:len(x["inp"])]
            n += 1
            if shape != x["shape"] or d["res"]["exc"] != x["exc"] or inp != x["inp"]:
                bad += 1
                if bad <= 3 and len(ctx.drift) < 6:
                    ctx.drift.append("AnyImpl.tla predicted %s for %s in %s line %d, the code did %s" % (
                        json.dumps(x), json.dumps({k: d[k] for k in ("op", "k", "a")}), name, i + 1,
                        json.dumps({"shape": shape, "exc": d["res"]["exc"], "inp": inp})))
    return n, bad


def counterexample_script(out):
    """The call sequence of a TLC error trace of AnyImpl (values of the ghost variable last)."""
    calls = []
    for blk in re.split(r"^State \d+: .*$", out, flags=re.M)[1:]:
        blk = blk.split("\n\n")[0]
        try:
            st = tlaval.parse_state(blk)
        except Exception:
            continue
        la = st.get("last")
        if la and la.get("op") not in (None, "Init"):
            calls.append({"op": la["op"], "k": la["k"], "a": la["a"]})
    return calls


# ------------------------------------------------------------------ validation
def validate_once(ctx, path, cur):
    """One TLC run (no explain) over trace file cur (path or a remainder of it).
    Returns (events matched, rejection or None, remainder file or None, executions in the remainder)."""
    r = core.validate_trace(ctx, TRACE_SPEC, TRACE_CFG, cur, explain=False, env=JENV)
    if r["accepted"]:
        return r["matched"], None, None, 0
    with open(cur) as f:
        lines = [l.rstrip("\n") for l in f if l.strip()]
    idx = r["fail_line"]
    if idx >= len(lines):
        raise MachineryError("trace validation of %s stopped behind the last line (see %s)" % (cur, r["tlc"]["outfile"]))
    rej = {"path": path, "execution": core.execution_of(lines, idx)}
    nxt = idx + 1
    while nxt < len(lines) and not lines[nxt].startswith('{"op":"Reset"'):
        nxt += 1
    if nxt >= len(lines):
        return r["matched"], rej, None, 0
    m = re.search(r"\.rest(\d+)$", cur)
    rest = "%s.rest%d" % (path, int(m.group(1)) + 1 if m else 1)
    with open(rest, "w") as f:
        f.write("\n".join(lines[nxt:]) + "\n")
    return r["matched"], rej, rest, sum(1 for l in lines[nxt:] if l.startswith('{"op":"Reset"'))


def validate_file(ctx, path, max_restarts):
    """Validate one trace file completely (used for re-runs): a rejected execution is cut out and validation continues behind it."""
    matched, rejections, cur, given_up = 0, [], path, 0
    for attempt in range(max_restarts + 1):
        m, rej, rest, nrest = validate_once(ctx, path, cur)
        matched += m
        if rej is None:
            break
        rejections.append(rej)
        if rest is None:
            break
        if attempt == max_restarts:
            given_up = nrest
            break
        cur = rest
    return matched, rejections, given_up


def validate_rounds(ctx, jobs, max_restarts, enough):
    """All trace files, in rounds: round n validates what is left of every file behind its n-th rejected execution.  When a defect
    is pervasive the first round already yields one rejection per file; as soon as `enough` rejections are in hand the rest is
    left unvalidated (counted), so that the run ends in time.  Returns [(matched, rejections, executions given up)] per job."""
    state = [{"cur": j["trace"], "matched": 0, "rej": [], "left": 0, "done": False} for j in jobs]
    for rnd_no in range(max_restarts + 1):
        todo = [i for i, st in enumerate(state) if not st["done"]]
        if not todo:
            break
        with ThreadPoolExecutor(max_workers=max(1, NW)) as ex:
            res = list(ex.map(lambda i: validate_once(ctx, jobs[i]["trace"], state[i]["cur"]), todo))
        for i, (m, rej, rest, nrest) in zip(todo, res):
            st = state[i]
            st["matched"] += m
            if rej is not None:
                st["rej"].append(rej)
            if rej is None or rest is None:
                st["done"], st["left"] = True, 0
            else:
                st["cur"], st["left"] = rest, nrest
        if sum(len(st["rej"]) for st in state) >= enough:
            break
    return [(st["matched"], st["rej"], 0 if st["done"] else st["left"]) for st in state]


PARTS = ["precondition", "lifetime_events_ok", "no_leak_no_dangling_independent", "postcondition", "observers_consistent", "storage_returned"]


def failing_part(expected):
    if not expected:
        return "?"
    if "the call returns" in expected:
        return "crash"
    if "stays inside the preconditions" in expected:
        return "desync"
    for p in PARTS:
        if re.search(p + r" \|-> FALSE", expected):
            return p
    return "?"


def known_key(findings, evj):
    for k in findings:
        m = k.get("match", {})
        if m and all(evj.get(x) == y or evj.get("a", {}).get(x) == y for x, y in m.items()):
            return "%s (%s)" % (k["key"], k["what"])
    return None


def confirm(ctx, drivers, flavour, calls, tag):
    """DESIGN 4.2: a rejection is reported only if it repeats.  Run the calls again on the same build, validate with explain."""
    d = ctx.sub("recheck")
    sp, tp = os.path.join(d, tag + ".script"), os.path.join(d, tag + ".ndjson")
    run_script(drivers[flavour], calls, sp, tp, max_restarts=0)
    return core.validate_trace(ctx, TRACE_SPEC, TRACE_CFG, tp, explain=True, env=JENV), tp


def confirm_in_context(ctx, drivers, job, tag):
    """Second attempt at repeating a rejection: the whole script of the job again (same build, same process history)."""
    d = ctx.sub("recheck")
    sp, tp = os.path.join(d, tag + ".script"), os.path.join(d, tag + ".ndjson")
    run_script(drivers[job["flavour"]], job["lines"], sp, tp)
    matched, rejections, _ = validate_file(ctx, tp, 0)
    if not rejections:
        return None, None, None
    calls = calls_only(rejections[0]["execution"])
    # explain on the rejected execution as recorded in this second run
    xp = os.path.join(d, tag + ".x.ndjson")
    with open(xp, "w") as f:
        f.write("\n".join(rejections[0]["execution"]) + "\n")
    r = core.validate_trace(ctx, TRACE_SPEC, TRACE_CFG, xp, explain=True, env=JENV)
    if r["accepted"]:       # cannot happen: the same lines were just rejected
        return None, None, None
    return r, xp, calls


def validate_all(ctx, drivers, jobs, findings):
    """jobs: [dict(name, flavour, trace, model (script generated from AnyImpl))]."""
    mr = MAX_RESTARTS_VALIDATE
    results = validate_rounds(ctx, jobs, mr, enough=2 * MAX_CONFIRM)
    cands, desyncs, given_up, nrej = [], [], 0, 0
    for job, (matched, rejections, gu) in zip(jobs, results):
        ctx.cov["events_validated"] += matched
        given_up += gu
        for rj in rejections:
            nrej += 1
            bad = rj["execution"][-1]
            try:
                evj = json.loads(bad)
            except Exception:
                evj = {"op": "?"}
            rj["job"], rj["evj"] = job, evj
            if evj.get("op") == "Desync":
                desyncs.append(rj)
                continue
            key = known_key(findings, evj)
            if key:
                if key not in ctx.known:
                    ctx.known.append(key)
                continue
            cands.append(rj)
    # distinct kinds first: by operation (and cast form) of the rejected line
    def key0(rj):
        e = rj["evj"]
        if e.get("op") in ("Crash", "CrashIn"):
            c = e.get("call") or {}
            return ("Crash", c.get("op"), (c.get("a") or {}).get("form"))
        return (e.get("op"), (e.get("a") or {}).get("form") if e.get("op") == "Cast" else None)
    order, seen0 = [], set()
    for rj in cands:
        if key0(rj) not in seen0:
            seen0.add(key0(rj))
            order.append(rj)
    order += [rj for rj in cands if rj not in order]
    reported, nconf, nonrepro = set(), 0, []
    for n, rj in enumerate(order):
        if len(reported) >= MAX_REPORTED or nconf >= MAX_CONFIRM:
            break
        job = rj["job"]
        calls = calls_only(rj["execution"])
        again, tp = confirm(ctx, drivers, job["flavour"], calls, "c%d" % n)
        nconf += 1
        if again["accepted"]:
            # the execution alone is accepted: it may need the process history of its script (heap state, earlier executions)
            again, tp, calls = confirm_in_context(ctx, drivers, job, "c%dw" % n)
            if again is None:
                nonrepro.append("non-reproducible rejection in %s (accepted when the calls were run again on build '%s', alone and after the "
                                "script's earlier executions): %s" % (os.path.basename(rj["path"]), job["flavour"], rj["execution"][-1][:400]))
                continue
        with open(tp) as f:
            tl = [l.rstrip("\n") for l in f if l.strip()]
        bad = tl[again["fail_line"]] if again["fail_line"] < len(tl) else rj["execution"][-1]
        try:
            bj = json.loads(bad)
        except Exception:
            bj = {"op": "?"}
        part = failing_part(again.get("expected"))
        if part == "desync":
            desyncs.append(rj)
            continue
        k = (bj.get("op"), part)
        if k in reported:
            continue
        reported.add(k)
        text = "trace rejected by Any.tla (L1) at event %d of an execution of %s (build '%s'); failing part: %s; event: %s ; spec: %s" % (
            again["fail_line"] + 1, job["name"], job["flavour"], part, bad[:900], (again.get("expected") or "?")[:1400])
        report(ctx, text, calls, job["flavour"])
    if nonrepro:
        if not ctx.violations:
            raise MachineryError(nonrepro[0])
        ctx.notes["non_reproducible_rejections_beside_confirmed_violations"] = nonrepro[:3]
    ctx.notes["rejected_executions"] = nrej
    ctx.notes["rejections_confirmed_by_re_execution"] = nconf
    if nrej:
        ctx.notes["rejected_executions_not_replayed"] = max(0, len(cands) - nconf)
    if given_up:
        ctx.notes["executions_left_unvalidated_once_enough_rejections_were_in_hand"] = given_up
    if cands:
        ctx.log("%d rejected executions (%d distinct kinds reported, %d confirmed by re-execution, %d executions not validated)" % (
            nrej, len(reported), nconf, given_up))
    # a Desync that is the FIRST thing L1 cannot accept in its execution: everything the library did before was accepted
    for rj in desyncs:
        name = rj["job"]["name"]
        if rj["job"].get("model"):
            # a walk generated from AnyImpl assumed an outcome (an object was / was not constructed) the code did not
            # produce, although everything the code did up to there is accepted by L1: the model is out of date
            if len(ctx.drift) < 8:
                ctx.drift.append("a call sequence generated from AnyImpl.tla left the preconditions on the real code (%s): %s" % (
                    name, rj["execution"][-1][:400]))
        elif ctx.violations:
            ctx.notes.setdefault("scripts_that_lost_track_after_accepted_calls", []).append(name)
        else:
            raise MachineryError("script %s left the C++ preconditions by itself: %s" % (name, rj["execution"][-1][:400]))
    return results


# ------------------------------------------------------------------ replay / selftest
def replay(ctx, path):
    """./verif replay C06 <file>: re-run the recorded calls on the current tree (same build flavour) and validate against L1."""
    raw = core.read_ndjson(path)
    meta = next((l["_meta"] for l in raw if "_meta" in l), {})
    fl = meta.get("flavour", "std")
    if fl not in FLAVOURS:
        raise MachineryError("replay file names an unknown build flavour %r" % fl)
    rows = [l for l in raw if "typerow" in l]
    if rows:
        bad_any = False
        for n, l in enumerate(rows):
            cases = [(0, l["typerow"], l["base"], row_lines(l["typerow"], l["base"], 0))]
            bad = compile_table(ctx, cases, "replay%d" % n, FLAVOURS[fl]["flags"], FLAVOURS[fl].get("cxx"))
            if bad:
                bad_any = True
                print("VIOLATION property=C06 replay=%s" % path)
                print("  build '%s', U = %s: %s still fails: %s" % (fl, l["base"], row_text(l["typerow"], l["base"]), bad[0]))
        if not bad_any:
            print("replay accepted: the recorded rows now compile")
        return 1 if bad_any else 0
    ctx.notes["_feats"] = feats = run_probes(ctx, [fl])
    lines = calls_only(raw)
    drv = build_driver(ctx, fl, feats[fl])
    sp, tp = os.path.join(ctx.work, "replay.script"), os.path.join(ctx.work, "replay.ndjson")
    rr = run_script(drv, lines, sp, tp, max_restarts=5)
    r = core.validate_trace(ctx, TRACE_SPEC, TRACE_CFG, tp)
    if r["accepted"] and rr["rc"] == 0:
        print("replay accepted: the recorded calls now conform to Any.tla (build '%s')" % fl)
        return 0
    print("VIOLATION property=C06 replay=%s" % path)
    if not r["accepted"]:
        with open(tp) as f:
            tl = [l.rstrip("\n") for l in f if l.strip()]
        print("  build '%s': rejected at event %d: %s\n  spec: %s" % (fl, r["fail_line"] + 1, tl[r["fail_line"]][:600] if r["fail_line"] < len(tl) else "?", r.get("expected")))
    else:
        print("  harness exit status %d: %s" % (rr["rc"], rr["err"][-1500:]))
    return 1


def selftest(ctx):
    """./verif selftest C06: the trace spec is bound to the log - a corrupted field and a removed line are rejected
    exactly where they are."""
    ctx.notes["_feats"] = feats = run_probes(ctx, ["std"])
    drv = build_driver(ctx, "std", feats["std"])
    lines = random_script(ctx.seed, 16, 60)      # long enough for every kind of line the edits below look for
    sp, tp = os.path.join(ctx.work, "st.script"), os.path.join(ctx.work, "st.ndjson")
    run_script(drv, lines, sp, tp)
    r = core.validate_trace(ctx, TRACE_SPEC, TRACE_CFG, tp)
    print("clean trace: accepted=%s (%d lines)" % (r["accepted"], r["total"]))
    ok = r["accepted"]
    with open(tp) as f:
        tl = [l.rstrip("\n") for l in f]

    def variant(name, pick, edit):
        idx = next(i for i in range(len(tl) // 3, len(tl)) if pick(tl[i]))
        d = json.loads(tl[idx])
        if edit(d) == "delete":
            out = tl[:idx] + tl[idx + 1:]
        else:
            out = tl[:idx] + [json.dumps(d, separators=(",", ":"))] + tl[idx + 1:]
        p = os.path.join(ctx.work, "st-%s.ndjson" % name)
        open(p, "w").write("\n".join(out) + "\n")
        rr = core.validate_trace(ctx, TRACE_SPEC, TRACE_CFG, p)
        print("%s at line %d: accepted=%s rejected at line %s" % (name, idx + 1, rr["accepted"], rr.get("fail_line", -1) + 1))
        return not rr["accepted"] and rr["fail_line"] == idx

    def e_val(d):
        s = next(x for x in d["st"] if x.get("has"))
        s["v"] += 1

    def e_src(d):
        e = next(x for x in d["ev"] if x["kind"] == "copy" and x["e"] == "ctor")
        e["src"] += 1000

    def e_spc(d):
        d["spc"][0]["n"] += 1

    def e_hits(d):
        s = next(x for x in d["st"] if x.get("has"))
        s["hits"].append("Int" if s["ty"] != "Int" else "Str")

    ok &= variant("corrupted-st.v", lambda l: '"has":true' in l, e_val)
    ok &= variant("corrupted-ev.src", lambda l: any(x["kind"] == "copy" and x["e"] == "ctor" for x in json.loads(l).get("ev", [])), e_src)
    ok &= variant("corrupted-owner-count", lambda l: '"spc":[{' in l, e_spc)
    ok &= variant("second-any_cast-hit", lambda l: '"has":true' in l, e_hits)
    def e_heap(d):
        d["heap"] += 1

    ok &= variant("outstanding-block-with-nothing-contained", lambda l: '"has":true' not in l and '"heap":0' in l and l.startswith('{"op":"Destroy'), e_heap)
    ok &= variant("removed-line", lambda l: l.startswith('{"op":"Construct"') and '"exc":"none"' in l, lambda d: "delete")
    print("selftest %s" % ("ok" if ok else "FAILED"))
    return 0 if ok else 2


# ------------------------------------------------------------------ the check
def run(ctx):
    q = ctx.quick
    findings = core.load_findings("C06")
    rnd = random.Random(ctx.seed)
    flavours = QUICK_FLAVOURS if q else ALL_FLAVOURS

    # ---- 0. compile-time table and probes: BEFORE the driver is built
    run_types(ctx, ["std", "mov"] if q else ["std", "mov", "fast", "noexc", "clang"])
    type_violations = len(ctx.violations)
    try:
        feats = run_probes(ctx, flavours)
    except MachineryError:
        if type_violations:
            return finish(ctx, q, {}, 0, 0, 0)
        raise
    ctx.notes["_feats"] = feats

    # ---- 1., 2., 3b. and the harness builds run side by side (each TLC run is given part of the machine)
    simdir = ctx.sub("sim")
    nsim = 60 if q else 1500
    pool = ThreadPoolExecutor(max_workers=12)
    w4 = max(1, NW // 4)
    # 1. L1 model checking through the liberal generator
    f1 = [pool.submit(model_check, ctx, "AnyMC", cfg,
                      "L1 (%s): every outcome the standard allows; lifetimes balance, strong guarantee, observers pure and in agreement" % what,
                      workers=w, timeout=3000, heap="6g")
          for cfg, what, w in ([("Any_mc.cfg", "instrumented payloads", w4), ("Any_mc_b.cfg", "payloads without events", w4)] if q else
                               [("Any_mc_thorough.cfg", "instrumented payloads", max(2, NW // 4)),
                                ("Any_mc_b_thorough.cfg", "payloads without events", max(2, NW // 4)),
                                ("Any_mc_4.cfg", "four any objects", max(2, NW // 4))])]
    # 2. L2 => L1 refinement (also writes the transitions for S->C)
    f2 = [pool.submit(model_check, ctx, "AnyImpl", cfg,
                      "L2 (transcription of xany.hpp, %s) refines L1: every representation state x call x argument x fuse" % what,
                      heap="8g", timeout=3000, workers=w)
          for cfg, what, w in ([("AnyImpl_mc.cfg", "instrumented payloads", max(2, NW // 2)), ("AnyImpl_mc_b.cfg", "payloads without events", w4)] if q else
                               [("AnyImpl_mc_thorough.cfg", "instrumented payloads", max(2, NW // 2)),
                                ("AnyImpl_mc_b_thorough.cfg", "payloads without events", max(2, NW // 2))])]
    # 3b. TLC simulation walks of AnyImpl (long histories)
    f3 = pool.submit(core.tlc, ctx, "AnyImpl", "AnyImpl_sim.cfg", name="s2c-simulate",
                     simulate="file=%s/t,num=%d" % (simdir, nsim),
                     extra=["-depth", "40", "-seed", str(ctx.seed)], workers=2, timeout=1500)
    fb = {fl: pool.submit(build_driver, ctx, fl, feats[fl]) for fl in flavours}

    drivers, build_errors = {}, {}
    for fl in flavours:
        try:
            drivers[fl] = fb[fl].result()
        except MachineryError as x:
            build_errors[fl] = str(x)
    if build_errors:
        for f in f1 + f2 + [f3]:
            try:
                f.result()
            except Exception:
                pass
        pool.shutdown()
        if ctx.violations:
            # the compile-time table already shows what is wrong with this tree; the driver needs exactly those calls
            ctx.notes["driver_builds_failed"] = {k: v[-600:] for k, v in build_errors.items()}
            ctx.log("driver does not build for %s: reporting the %d compile-time violations" % (sorted(build_errors), len(ctx.violations)))
            return finish(ctx, q, {}, 0, 0, 0)
        raise MachineryError("harness does not compile (build %s) although every demanded row of the type table does:\n%s" % (
            sorted(build_errors)[0], build_errors[sorted(build_errors)[0]][-5000:]))

    tdir = ctx.sub("traces")
    jobs = []            # dict(name, flavour, lines, exp, model)

    def add(name, fl, lines, exp=None, model=False):
        jobs.append({"name": name, "flavour": fl, "lines": lines, "exp": exp, "model": model,
                     "script": os.path.join(tdir, name + ".script"), "trace": os.path.join(tdir, name + ".ndjson")})

    # ---- 4. C->S: random scripts (they do not depend on TLC: executed while TLC is still running)
    nops = 45 if q else 50
    plan = [("std", 120 if q else 3000, 3 if q else 12), ("fast", 40 if q else 800, 1 if q else 3), ("mov", 40 if q else 800, 1 if q else 3),
            ("noexc", 30 if q else 150, 1 if q else 2), ("cxx17", 40 if q else 800, 1 if q else 3)]
    if not q:
        plan += [("clang", 1200, 4), ("O0", 600, 2), ("O2", 1200, 4), ("fastmov", 600, 2), ("movnoexc", 100, 1), ("all3", 100, 1)]
    nexec_rnd = 0
    for salt, (fl, nexec, nch) in enumerate(plan):
        lines = random_script(ctx.seed, nexec, nops, feats[fl], noexc=(fl in NOEXC_FLAVOURS), salt=salt)
        nexec_rnd += nexec
        for i, (ch, _) in enumerate(chunk_by_reset(lines, [None] * len(lines), nch)):
            add("rnd-%s-%02d" % (fl, i), fl, ch)
    for fnd in findings:
        if "probe" in fnd:
            add("probe-" + fnd["id"], "std", fnd["probe"]["script"])

    def execute(job):
        job["run"] = run_script(drivers[job["flavour"]], job["lines"], job["script"], job["trace"],
                                max_restarts=(len(job["lines"]) if job["flavour"] in NOEXC_FLAVOURS else 25))
        return job

    hpool = ThreadPoolExecutor(max_workers=max(2, NW // 2))
    fut_rnd = [hpool.submit(execute, j) for j in jobs]
    n_rnd_jobs = len(jobs)

    r1s, r2s = [f.result() for f in f1], [f.result() for f in f2]
    f3.result()
    for r in r1s:
        if r["violated"] or r["rc"] != 0:
            raise MachineryError("L1 spec Any.tla violates its own theorem / rejects its generator (%s): oracle bug, see %s" % (r["violated"], r["outfile"]))
    if not q:
        oc = {}
        for r in r1s:
            for k, v in op_counts(r["out"]).items():
                oc[k] = oc.get(k, 0) + v
        ctx.notes["l1_transitions_per_operation_and_outcome"] = oc
        ctx.notes["l1_vacuous_operations"] = sorted(o for o in ALL_OPS if not any(k.startswith(o + ":") for k in oc)) + \
            sorted(o + ":u" for o in ALL_OPS if o not in ("DefaultConstruct", "Construct", "CopyConstruct", "MoveConstruct", "DestroyIf")
                   and not any(k.startswith(o + ":") and k.endswith(":u") for k in oc))
    for r in r1s:
        r["out"] = ""

    cex, taken_all, n_emitted_all, per_op_all, l2_failed = [], 0, 0, {}, []
    limits = ([9000, 3000] if q else [80000, 30000])
    for r2, limit, tag in zip(r2s, limits, ("a", "b")):
        edges, n_emitted, per_op = emitted(r2["out"], rnd, limit)
        r2["out"] = r2["out"][-4000:] if not r2["violated"] else "\n".join(l for l in r2["out"].splitlines() if not l.startswith('"@E@'))
        if r2["violated"] or r2["rc"] != 0:
            c = counterexample_script(r2["out"])
            l2_failed.append((r2, c))
            if c:
                add("l2-counterexample-" + tag, "std", [RESET] + c, model=True)
        for k, v in per_op.items():
            per_op_all[k] = per_op_all.get(k, 0) + v
        n_emitted_all += n_emitted
        # ---- 3. S->C: transitions of the L2 exploration, on the default build (predictions compared) ...
        lines, exp, taken = edge_scripts(edges, rnd, feats["std"])
        taken_all += taken
        for i, (ch, ex) in enumerate(chunk_by_reset(lines, exp, (6 if tag == "a" else 2) if q else (12 if tag == "a" else 6))):
            add("s2c-%s-%02d" % (tag, i), "std", ch, ex, model=False)
        # ... and a sample of them on the other builds
        for fl in flavours:
            if fl == "std" or fl in NOEXC_FLAVOURS:
                continue
            sub = [e for e in edges if rnd.random() < (0.12 if q else 0.15)]
            lines, exp, taken = edge_scripts(sub, rnd, feats[fl])
            taken_all += taken
            add("s2c-%s-%s" % (tag, fl), fl, lines, None)
    ctx.notes["l2_refinement"] = "failed" if l2_failed else "holds"
    if not q:
        ctx.notes["l2_transitions_per_operation"] = per_op_all
        ctx.notes["l2_vacuous_operations"] = sorted(o for o in ALL_OPS if o not in per_op_all)
        ru = core.tlc(ctx, "AnyImpl", "AnyImpl_unfixed.cfg", name="AnyImpl-without-self-swap-guard", timeout=900)
        ctx.notes["l2_model_of_header_before_fix_C06_01"] = (
            "refinement violated as expected (Swap(k,k) on an in-place payload): %s" % ru["violated"] if ru["violated"]
            else "NOT violated - the model no longer shows defect C06-01")
    ctx.log("S->C: %d L2 transitions written by TLC, %d replayed" % (n_emitted_all, taken_all))
    ctx.notes["s2c_transitions_enumerated"] = n_emitted_all
    ctx.notes["s2c_transitions_replayed"] = taken_all

    # ---- 3b. the simulation walks
    lines, exp, nwalks = sim_scripts(simdir, feats["std"])
    ctx.notes["s2c_simulation_walks"] = nwalks
    for i, (ch, ex) in enumerate(chunk_by_reset(lines, exp, 1 if q else 4)):
        add("sim-%d" % i, "std", ch, ex, model=True)

    # ---- run the harness on the model-generated scripts
    fut_s2c = [hpool.submit(execute, j) for j in jobs[n_rnd_jobs:]]
    for f in fut_rnd + fut_s2c:
        f.result()
    hpool.shutdown()
    pool.shutdown()

    ncalls, npred, nthrow, restarts, dropped, kinds, nleak, cast_hits = 0, 0, 0, 0, 0, {}, 0, {}
    nalloc, n_crv, n_over, misaligned = 0, 0, {}, {}
    for job in jobs:
        rr, lines, tp = job["run"], job["lines"], job["trace"]
        ncalls += sum(1 for l in lines if l["op"] != "Reset")
        ctx.cov["traces_validated_against_impl"] += sum(1 for l in lines if l["op"] == "Reset")
        restarts += rr["restarts"]
        dropped += rr["dropped"]
        for k in rr["kinds"]:
            kinds[k] = kinds.get(k, 0) + 1
        with open(tp) as f:
            txt = f.read()
        nthrow += txt.count('"exc":"fuse"')
        nalloc += txt.count('"exc":"bad_alloc"')
        n_crv += txt.count('"nc":2') + txt.count('"cat":"crv"')
        for t in OVERALIGNED:
            n_over[t] = n_over.get(t, 0) + txt.count('"ty":"%s"' % t)
        nmis = txt.count('"xal":false')
        if nmis:
            misaligned[job["flavour"]] = misaligned.get(job["flavour"], 0) + nmis
        for m in _RE_CAST.finditer(txt):           # successful casts by stored type and call form (vacuity evidence)
            am = dict(_RE_KV.findall(m.group(1)))
            if "t" in am and "form" in am:
                key = am["t"] + ":" + am["form"]
                cast_hits[key] = cast_hits.get(key, 0) + 1
        txt = ""
        if rr["rc"] != 0 and not rr["kinds"]:
            # complete trace but the process failed at exit: LeakSanitizer (memory never freed)
            r2 = run_script(drivers[job["flavour"]], lines, job["script"] + ".again", tp + ".again", max_restarts=0)
            if r2["rc"] != 0:
                nleak += 1
                if nleak == 1:          # one report; the other scripts that end this way are counted
                    report(ctx, "harness exit status %d after a complete run of %s on build '%s' (LeakSanitizer / sanitizer report at exit): %s" % (
                        rr["rc"], job["name"], job["flavour"], rr["err"][-1500:]), lines, job["flavour"])
            else:
                raise MachineryError("non-reproducible harness failure (rc=%d) on %s: %s" % (rr["rc"], job["name"], rr["err"][-800:]))
        if job["exp"] is not None:
            n, bad = compare_prediction(ctx, job["name"], tp, job["exp"])
            npred += n
    if nleak:
        ctx.notes["scripts_with_a_sanitizer_report_at_exit"] = nleak
    ctx.notes["successful_casts_by_stored_type_and_form"] = {t: {f: cast_hits.get(t + ":" + f, 0) for f in CAST_FORMS + sorted(OPEN_FORMS)
                                                                  if cast_hits.get(t + ":" + f, 0)} for t in TYPES}
    # the class the property singles out: a small payload with nothrow move and throwing copy, read through const-qualified targets
    missing = [f for f in ("p_mc", "p_c", "p_cc", "v_c", "v_cc", "r_mc", "r_c") if not cast_hits.get("Small:" + f)]
    ctx.notes["calls_executed_on_real_objects"] = ncalls
    ctx.notes["injected_throws_observed"] = nthrow
    ctx.notes["allocation_failures_observed"] = nalloc
    ctx.notes["copies_from_a_const_rvalue_any"] = n_crv
    ctx.notes["observations_of_over_aligned_payloads"] = n_over
    # over-aligned payloads (alignas(32/64)): the stored object's address is observable.  Plain `new T` honours the alignment only
    # from C++17 on; a misaligned object in a C++14 build is the language's limitation (recorded), in a C++17 build it is reported
    # as an advisory deviation (the property statement does not speak about alignment)
    ctx.notes["over_aligned_payload_observed_misaligned"] = misaligned
    for fl, n in sorted(misaligned.items()):
        if FLAVOURS[fl].get("aligned_new"):
            ctx.drift.append("ADVISORY over-aligned payload (alignas(32)/alignas(64)) stored at an address that is not aligned for its type, "
                             "%d observations on build '%s' where the allocation function honours over-alignment" % (n, fl))
    ctx.notes["l2_predictions_compared"] = npred
    ctx.notes["driver_restarts"] = {"restarts": restarts, "by_cause": kinds, "executions_dropped_after_restart_cap": dropped}
    ctx.sample({"script": [json.dumps(x) for x in jobs[0]["lines"][:10]]})
    ctx.sample({"script": [json.dumps(x) for x in jobs[-1]["lines"][:10]]})
    with open(jobs[0]["trace"]) as f:
        ctx.sample({"trace_lines": [next(f).strip()[:1200] for _ in range(3)]})

    # ---- validate every trace against L1
    validate_all(ctx, drivers, jobs, findings)
    ctx.cov["evaluations"] += ctx.cov["events_validated"]

    # ---- advisory: the documented behaviour of the value any_cast (Any!CastDocOK) on one random trace per macro family
    if not ctx.violations:
        strict_jobs = [j for j in jobs if j["name"] in ("rnd-std-00", "rnd-mov-00", "rnd-cxx17-00", "rnd-fastmov-00", "rnd-clang-00")]
        nstrict = 0
        for j in strict_jobs:
            r = core.validate_trace(ctx, TRACE_SPEC, "AnyTrace_strict.cfg", j["trace"], explain=True, env=JENV)
            nstrict += r.get("matched", 0)
            if not r["accepted"]:
                with open(j["trace"]) as f:
                    tl = [l.rstrip("\n") for l in f if l.strip()]
                bad = tl[r["fail_line"]] if r["fail_line"] < len(tl) else "?"
                ctx.drift.append("ADVISORY documented any_cast behaviour (exactly one constructor call from the stored object; a move only for "
                                 "any_cast<T>(any&&) under ANY_IMPL_ANY_CAST_MOVEABLE) not met on build '%s': %s ; spec: %s" % (
                                     j["flavour"], bad[:500], (r.get("expected") or "?")[:600]))
        ctx.notes["lines_validated_against_documented_cast_behaviour"] = nstrict
    ctx.log("validated %d lines in %d traces (%d executions, %d injected throws observed, %d L2 predictions compared, %d driver restarts)" % (
        ctx.cov["events_validated"], len(jobs), ctx.cov["traces_validated_against_impl"], nthrow, npred, restarts))

    for r2, c in l2_failed:
        if not ctx.violations:
            ctx.drift.append("AnyImpl.tla does not refine Any.tla (%s) but the counterexample %s is accepted on the real code: "
                             "the L2 model is out of date; see %s" % (r2["violated"], json.dumps(c)[:600], r2["outfile"]))
            ctx.notes["l2_refinement"] = "failed-not-reproduced"
    if nthrow == 0 and not ctx.violations:
        raise MachineryError("vacuous run: the fault fuse never fired")
    if nalloc == 0 and not ctx.violations:
        raise MachineryError("vacuous run: the allocation-failure fuse never fired")
    if (n_crv == 0 or not all(n_over.get(t) for t in OVERALIGNED)) and not ctx.violations:
        raise MachineryError("vacuous run: no copy from a const rvalue any / no over-aligned payload observed (%d, %s)" % (n_crv, n_over))
    if missing and not ctx.violations:
        raise MachineryError("vacuous run: no successful any_cast on a stored Small through the forms %s" % missing)
    if kinds.get("terminate", 0) == 0 and "noexc" in flavours and not ctx.violations:
        raise MachineryError("vacuous run: no failing any_cast ended in std::terminate on the XTL_NO_EXCEPTIONS build")
    return finish(ctx, q, feats, taken_all, nwalks, nexec_rnd)


def finish(ctx, q, feats, taken, nwalks, nexec):
    ctx.notes.pop("_feats", None)
    ctx.notes["optional_cast_forms_exercised"] = {fl: sorted(f for f, ft in OPEN_FORMS.items() if ft in fs) for fl, fs in feats.items()}
    return core.finish(
        ctx, "model_checking",
        rule="TLC: L1 (Any.tla) over 3 any objects x {3 instrumented payload types | NC, shared_ptr, const char*} x 2 values (+moved-from), all "
             "outcomes the standard allows, fuse 0..1%s; L2 (AnyImpl.tla) => L1 over every representation state x every call x argument x "
             "fuse 0..%d for {Small, Big, STM} and for payloads without events; %d of the L2 transitions and %d simulation walks replayed on "
             "real xtl::any objects, %d random executions over 3-5 objects and 18 payload types, on %d builds of the driver (%s); a case is "
             "one public call (any source in all four value categories x constness through ConstructFrom / AssignFrom, enumerated by TLC; allocation-failure fuse 0..2 on the four allocating "
             "calls) with its element events, result, the observers' report on all five objects, the shared_ptr owner counts and the number of "
             "outstanding library-made heap blocks, validated by TLC against L1; plus the rows of AnyTypes.tla compiled as static_asserts and calls."
             % ("" if q else "; 4 objects in a third configuration", 1 if q else 2, taken, nwalks, nexec, len(feats), ", ".join(sorted(feats))),
        assumptions=["payload objects of the instrumented types are identified by address through the harness registry; ids are assigned in construction order",
                     "the projection uses has_value()/empty()/type()/any_cast<T>(any*)/any_cast<T>(const any*) over all 13 candidate types of the object under test",
                     "payload types: Small (16 bytes, nothrow move, throwing copy), NC (16 bytes, nothrow copy and move), Big (24 bytes), STM (16 bytes, throwing move); "
                     "without events: int, std::string, const char* (also from an array), int(*)(int) (also from a function), shared_ptr<int> (owner count "
                     "observed), a 16-byte alignas(16) struct, a struct containing an any that contains a shared_ptr (xtl::any cannot hold an xtl::any directly), "
                     "alignas(32) and alignas(64) structs, byte-aligned structs of 16 and 17 bytes, and (where the probe XTYPES compiles) "
                     "xtl::variant<int,std::string>, xtl::xfixed_string<23>, xtl::xoptional<int,bool>",
                     "the global operator new/delete are replaced in the driver (malloc based, counting); the allocation fuse fails the n-th request made "
                     "while the library executes Construct/CopyConstruct/CopyAssign/AssignValue (the driver's own bookkeeping inside payload callbacks is exempt)",
                     "alignment beyond alignof(max_align_t) and the documented copy/move choice of the value any_cast are advisory (the statement is silent); "
                     "a misaligned over-aligned payload is reported only for the -std=c++17 build, where operator new honours the alignment",
                     "builds: g++ -O1 with each of ANY_IMPL_FAST_TYPE_INFO_COMPARE, ANY_IMPL_ANY_CAST_MOVEABLE, XTL_NO_EXCEPTIONS alone and -std=c++17 (quick); "
                     "the combinations FAST+MOVEABLE, MOVEABLE+NO_EXCEPTIONS, all three, clang++ and -O0/-O2 in the thorough tier only; one translation unit, "
                     "one thread, libstdc++, x86-64",
                     "volatile-qualified cast targets and type_info objects from other shared libraries (the case ANY_IMPL_FAST_TYPE_INFO_COMPARE is unsafe for) "
                     "are not exercised; class-specific operator new of a payload type is not exercised",
                     "throws are injected into copy/move constructors of the instrumented types only (std::string / shared_ptr copies are not made to throw)"],
        exhaustive=False)

"""./verif selftest C17: demonstrations that the binding rejects what it must.
 1. one field of a recorded trace corrupted (or one event dropped) -> TLC rejects at exactly that line;
 2. a driver that dies / cannot follow its script closes the trace with Crash / Desync, is restarted for
    the remaining executions, and the trace is rejected at that event;
 3. seeded transcription errors in FastDispatchImpl.tla (constant Mutation) -> the refinement check fails;
 4. many rejections with the same call site are reported once."""
import copy, json, os, shutil
from vlib import core
from checks import c17_gen as G
from checks import c17_run as R


def selftest(ctx):
    keys = {("fast_static", 12, "asan"), ("static", 12, "asan"), ("visit", 12, "asan")}
    built, errs = R.build_all(ctx, keys)
    if errs:
        print("selftest: drivers do not build: %s" % sorted(errs))
        return 2
    none = {"kind": "none", "ar": 1, "nx": 0, "k": 1}
    s_fun = [G.reset_ev({"kind": "fast_static", "ar": 2, "nx": 1, "k": 3}),
             {"op": "Insert", "a": {"t": [1, 2], "h": 1}},
             {"op": "Insert", "a": {"t": [2, 1], "h": 2}},
             {"op": "Dispatch", "a": {"os": [10, 21], "xs": [5]}},
             {"op": "Dispatch", "a": {"os": [30, 10], "xs": [9]}},
             {"op": "Clone", "a": {"how": "ctor"}},
             {"op": "Insert", "a": {"d": 2, "t": [1, 2], "h": 3}},
             {"op": "Dispatch", "a": {"d": 1, "os": [11, 20], "xs": [0]}},
             {"op": "Take", "a": {"how": "swap"}},
             {"op": "Dispatch", "a": {"d": 1, "os": [11, 20], "xs": [0]}}]
    s_static = [G.reset_ev(none),
                {"op": "StaticSym", "a": {"lhs": [3, 1, 2], "rhs": [3, 1, 2], "cst": False, "os": [10, 30]}},
                {"op": "Static", "a": {"lhs": [2, 1], "rhs": [3, 2], "cst": False, "os": [30, 10]}},
                {"op": "Static", "a": {"lhs": [1, 2, 3], "rhs": [1, 2, 3], "cst": True, "os": [50, 20]}}]
    s_visit = [G.reset_ev(none),
               {"op": "Accept", "a": {"v": "crecording", "m": "AB", "o": 51}},
               {"op": "Cyclic", "a": {"cst": True, "rv": "long", "o": 50}},
               {"op": "Accept", "a": {"v": "default", "m": "Derived", "o": 50}}]
    base = []
    for nm, key, sc in (("fun", ("fast_static", 12, "asan"), s_fun), ("static", ("static", 12, "asan"), s_static), ("visit", ("visit", 12, "asan"), s_visit)):
        tr, _, _ = R.run_script(ctx, built[key], sc, os.path.join(ctx.work, "self-" + nm))
        base.extend(json.loads(l) for l in tr)
    tp = os.path.join(ctx.work, "self.ndjson")
    R.write_script(tp, base)
    r = core.validate_trace(ctx, "DispatchTrace", "DispatchTrace.cfg", tp, explain=False, env=R.JENV)
    if not r["accepted"]:
        print("selftest: the uncorrupted trace is rejected at event %d" % (r["fail_line"] + 1))
        return 2
    F, S, V = 0, len(s_fun), len(s_fun) + len(s_static)

    def c_handler(t): t[F + 3]["res"]["val"]["h"] = 2
    def c_order(t): t[F + 3]["res"]["val"]["objs"] = [21, 10]
    def c_tag(t): t[F + 3]["res"]["val"]["tg"] = [10, 20]
    def c_extra(t): t[F + 3]["res"]["val"]["xv"] = [6]
    def c_ret(t): t[F + 3]["res"]["val"]["ret"] = 106
    def c_error_ran(t): t[F + 4]["res"]["val"]["calls"] = 1
    def c_cell(t): t[F + 2]["st"]["tab"][0][0] = {"h": 1, "objs": [10, 10]}
    def c_clone(t): t[F + 5]["st"]["tab2"][0][1] = {"h": 0, "objs": []}
    def c_shared(t): t[F + 6]["st"]["tab"][0][1] = {"h": 3, "objs": [10, 20]}
    def c_stale(t): t[F + 7]["res"]["val"]["h"] = 3
    def c_swap(t): t[F + 9]["res"]["val"]["h"] = 1; t[F + 9]["res"]["val"]["ret"] = 100
    def c_sym(t): t[S + 1]["res"]["val"]["ba"]["val"]["sig"] = [1, 3]
    def c_onerror(t): t[S + 2]["res"] = {"exc": "none", "val": {"calls": 1, "ret": 1031, "rep": 0, "h": 0, "sig": [3, 1], "dyn": [3, 1], "objs": [30, 10], "tg": [30, 10], "xv": [], "xid": True}}
    def c_isa(t): t[S + 3]["res"]["val"]["sig"] = [2, 2]; t[S + 3]["res"]["val"]["ret"] = 1022
    def c_policy(t): t[V + 1]["res"]["val"]["pobj"] = 50
    def c_cyclic(t): t[V + 2]["res"]["val"]["sig"] = [1]
    def c_visit_isa(t): t[V + 3]["res"] = {"exc": "none", "val": {"calls": 1, "ret": 101, "rep": 0, "h": 0, "sig": [1], "dyn": [5], "objs": [50], "tg": [0], "xv": [], "xid": True}}
    cases = [("handler id of a dispatch", c_handler, F + 3), ("order of the arguments the handler saw", c_order, F + 3),
             ("tag the handler read through its typed reference", c_tag, F + 3),
             ("value of the undispatched argument", c_extra, F + 3), ("returned value", c_ret, F + 3),
             ("a handler ran although an error was reported", c_error_ran, F + 4), ("one cell of the probed table", c_cell, F + 2),
             ("a copy that lacks one registration", c_clone, F + 5), ("a registration in the copy showing up in the original", c_shared, F + 6),
             ("the original dispatching with the copy's handler", c_stale, F + 7), ("swap not exchanging the tables", c_swap, F + 9),
             ("symmetric dispatch reaching two different handlers", c_sym, S + 1), ("on_error replaced by a handler call", c_onerror, S + 2),
             ("unlisted derived class reaching a non-ancestor's handler", c_isa, S + 3),
             ("object handed to the catch-all policy", c_policy, V + 1), ("cyclic visitor visiting as another class", c_cyclic, V + 2),
             ("acyclic visitor visiting an unlisted derived class as its base", c_visit_isa, V + 3)]
    bad = 0
    for what, f, line in cases:
        t = copy.deepcopy(base)
        f(t)
        p = os.path.join(ctx.work, "self-corrupt.ndjson")
        R.write_script(p, t)
        r = core.validate_trace(ctx, "DispatchTrace", "DispatchTrace.cfg", p, explain=False, env=R.JENV)
        ok = (not r["accepted"]) and r["fail_line"] == line
        print("selftest: corrupted %-60s -> %s at event %d (expected %d)" % (what, "accepted" if r["accepted"] else "rejected", r.get("fail_line", -1) + 1, line + 1))
        bad += 0 if ok else 1
    t = copy.deepcopy(base)
    del t[1]          # drop the first registration: the next event's table no longer matches
    p = os.path.join(ctx.work, "self-removed.ndjson")
    R.write_script(p, t)
    r = core.validate_trace(ctx, "DispatchTrace", "DispatchTrace.cfg", p, explain=False, env=R.JENV)
    print("selftest: removed event 2 -> %s at event %d (expected 2)" % ("accepted" if r["accepted"] else "rejected", r.get("fail_line", -1) + 1))
    bad += 0 if (not r["accepted"] and r["fail_line"] == 1) else 1

    # ---- 2. a driver that cannot follow its script / dies: Desync / Crash event, restart, rejection there
    sc = s_fun[:3] + [{"op": "Erase", "a": {"t": [1, 2]}}] + s_fun[:4]      # the fast backend has no erase: the driver refuses the call
    tr, restarts, lost = R.run_script(ctx, built[("fast_static", 12, "asan")], sc, os.path.join(ctx.work, "self-desync"))
    ops = [json.loads(l)["op"] for l in tr]
    ok = ops == ["Reset", "Insert", "Insert", "Desync", "Reset", "Insert", "Insert", "Dispatch"] and restarts == 1 and lost == 0
    p = os.path.join(ctx.work, "self-desync.ndjson")
    R.write_script(p, tr)
    r = core.validate_trace(ctx, "DispatchTrace", "DispatchTrace.cfg", p, explain=False, env=R.JENV)
    ok = ok and not r["accepted"] and r["fail_line"] == 3
    rj = R.validate_files(ctx, [p])
    ok = ok and len(rj) == 1 and json.loads(rj[0]["execution"][-1])["op"] == "Desync"
    print("selftest: call the driver cannot follow -> events %s, %d restart, rejected at event %d (expected 4), execution after it validated: %s"
          % (ops, restarts, r.get("fail_line", -1) + 1, "ok" if ok else "FAILED"))
    bad += 0 if ok else 1
    sc = s_visit[:2] + [{"op": "Accept", "a": {"v": "default", "m": "AB", "o": 990}}] + s_visit      # object id outside the pool
    tr, restarts, lost = R.run_script(ctx, built[("visit", 12, "asan")], sc, os.path.join(ctx.work, "self-crash"))
    ops = [json.loads(l)["op"] for l in tr]
    ok = len(ops) == 3 + len(s_visit) and ops[2] in ("Crash", "Desync") and restarts == 1
    print("selftest: a call that stops the driver -> %s event, driver restarted for the next execution: %s" % (ops[2] if len(ops) > 2 else "?", "ok" if ok else "FAILED"))
    bad += 0 if ok else 1

    # ---- 3. seeded transcription errors in the L2 specification must break the refinement
    d = ctx.sub("l2mut")
    for f in ("Dispatch.tla", "FastDispatchImpl.tla"):
        shutil.copy(os.path.join(core.SPECS, f), os.path.join(d, f))
    for mut, copies in (("none", "FALSE"), ("resize_by_one", "FALSE"), ("grow_lt", "FALSE"), ("check_gt", "FALSE"), ("no_freeze", "TRUE")):
        with open(os.path.join(core.SPECS, "FastDispatchImpl_mc_copies.cfg" if copies == "TRUE" else "FastDispatchImpl_mc.cfg")) as f:
            txt = f.read().replace('Mutation = "none"', 'Mutation = "%s"' % mut)
        with open(os.path.join(d, "m_%s.cfg" % mut), "w") as f:
            f.write(txt)
        r = core.tlc(ctx, "FastDispatchImpl", "m_%s.cfg" % mut, name="l2-mutation-" + mut, specdir=d, workers=min(4, core.NCPU), env=R.JENV_MC)
        ok = (r["violated"] is None) == (mut == "none")
        print("selftest: FastDispatchImpl with transcription error %-14s -> %s: %s" % (mut, r["violated"] or "no violation", "ok" if ok else "FAILED"))
        bad += 0 if ok else 1

    # ---- 4. the same call site rejected many times is reported once; different sites are kept apart
    ex = lambda kind, t, o: [json.dumps({"op": "Reset", "a": {"kind": kind, "ar": 2, "nx": 0, "k": 3}}),
                             json.dumps({"op": "Insert", "a": {"t": [3, 3], "h": o}}), json.dumps({"op": "Insert", "a": {"t": t, "h": 9}})]
    rj = [{"path": "x", "idx": i, "execution": ex("map_dyn", [1, 2], i)} for i in range(40)]
    rj += [{"path": "x", "idx": 50, "execution": ex("map_dyn", [2, 1], 0)}, {"path": "x", "idx": 51, "execution": ex("fast_dyn", [1, 2], 0)}]
    order, nd = R.select(rj)
    ok = nd == 3 and len(order) == 3
    print("selftest: 42 rejections at 3 distinct call sites -> %d reported: %s" % (len(order), "ok" if ok else "FAILED"))
    bad += 0 if ok else 1
    print("selftest %s" % ("ok" if not bad else "FAILED (%d cases)" % bad))
    return 0 if not bad else 2

"""C20 - executable_path()/prefix_path() name the running binary at any install path; endianness().

 1. TLC enumerates InstallPath.tla for the measured scratch root: install configurations (depth, exact total
    length incl. 1023/1024/1025, 2047/2048/2049, 4094/4095 = PATH_MAX-1, NAME_MAX-long components, character
    classes ascii/space/utf8/dot/punct (backslash, quotes, ...), started directly / by a relative path / through a symlink to the file / through
    a symlink to its directory) with the expected results as component lists; the theorems of the spec (exact
    lengths, symlink resolution, prefix + last two = path) are checked at start-up.  InstallPathImpl.tla (L2, the
    code's readlink loop and its two find_last_of cuts on character strings) is checked against L1 on small strings.
 2. S->C: the runner materialises every configuration under .work/C20/root (names are chosen by VERIF_SEED),
    hard-links the helper built with ASan from the real xsystem.hpp/xplatform.hpp there, starts it as the
    configuration says; the helper describes the strings xtl returned (per component: length, class, hash).
 3. TLC validates the recorded trace against InstallPath.tla (InstallPathTrace): L1 is the oracle.
"""
import json, os, random, shutil, subprocess, sys, threading
from concurrent.futures import ThreadPoolExecutor
from vlib import core, tables
from vlib.core import MachineryError

HC20 = os.path.join(core.HARNESS, "c20")


def emitted(out):
    rows = []
    for line in out.splitlines():
        if line.startswith('"@E@'):
            rows.append(json.loads(json.loads(line)[3:]))
    return rows


# ------------------------------------------------------------------ the projection used for INPUT names
def hash30(b):
    h = 2166136261
    for c in b:
        h ^= c
        h = (h * 16777619) & 0xffffffff
    return (h ^ (h >> 15)) & 0x3fffffff


def cls_of(b):
    """description of a name; the same function as cls_of in harness/c20/helper.cpp (first match wins)"""
    if any(c >= 0x80 for c in b):
        return "utf8" if any(c < 0x80 for c in b) else "mb"
    if any((c < 0x20 and c != 9) or c == 0x7f for c in b):
        return "ctrl"
    if b.endswith(b" (deleted)"):
        return "delsfx"
    if b[:1] == b" " or b[-1:] == b" ":
        return "edge"
    if b[:2] == b".." or b[-1:] == b".":
        return "dots"
    if b[:1] in (b"-", b"."):
        return "lead"
    if any(c in PUNCT for c in b):
        return "punct"
    if b" " in b:
        return "space"
    if b"." in b:
        return "dot"
    return "ascii"


ASCII = b"abcdefghijklmnopqrstuvwxyzABCDEFGHIJKLMNOPQRSTUVWXYZ0123456789_-+=,@%"
# bytes that are separators / quoting / globbing characters elsewhere but ordinary in a POSIX file name
PUNCT = b"\\'\":;*?<>|&$!#()[]{}`~^\t"
MULTI = ["é", "ü", "ß", "€", "日", "本", "\U0001F600", "Ж", "λ"]
CTRL = b"\n\r\x01\x1b\x7f\x08"
INNER = ASCII.replace(b"-", b"")          # for the classes whose first / last character is prescribed


def make_name(rnd, n, cls):
    """A file name of exactly n bytes of the given character class."""
    for _ in range(200):
        if cls == "ascii":
            b = bytes(rnd.choice(ASCII) for _ in range(n))
        elif cls == "space":
            b = bytearray(rnd.choice(ASCII) for _ in range(n))
            for _ in range(1 + n // 9):
                b[rnd.randrange(n)] = 0x20
            b = bytes(b)
        elif cls == "punct":
            b = bytearray(rnd.choice(ASCII) for _ in range(n))
            for _ in range(1 + n // 9):
                b[rnd.randrange(n)] = rnd.choice(PUNCT)
            b[rnd.randrange(n)] = 0x5c          # always a backslash: the other platform's separator
            b = bytes(b)
        elif cls == "dot":
            b = bytearray(rnd.choice(ASCII) for _ in range(n))
            for _ in range(1 + n // 11):
                b[rnd.randrange(n)] = 0x2e
            b = bytes(b)
            if b in (b".", b".."):
                continue
        elif cls == "ctrl":
            b = bytearray(rnd.choice(INNER) for _ in range(n))
            for _ in range(1 + n // 9):
                b[rnd.randrange(n)] = rnd.choice(CTRL)
            b[rnd.randrange(n)] = 0x0a          # always a newline
            b = bytes(b)
        elif cls == "lead":
            b = bytes([rnd.choice(b"-.")]) + bytes(rnd.choice(INNER) for _ in range(n - 1))
        elif cls == "dots":
            k = rnd.randrange(3)
            if k == 0 or n == 3 and rnd.random() < 0.5:
                b = b"." * n                                                  # "...", "....", ...
            elif k == 1:
                b = b".." + bytes(rnd.choice(INNER) for _ in range(n - 2))     # "..x"
            else:
                b = bytes(rnd.choice(INNER) for _ in range(n - 1)) + b"."      # "x."
        elif cls == "delsfx":
            b = bytes(rnd.choice(INNER) for _ in range(n - 10)) + b" (deleted)"
        elif cls == "edge":
            mid = bytes(rnd.choice(INNER) for _ in range(n - 1))
            b = (b" " + mid) if rnd.random() < 0.5 else (mid + b" ")
        elif cls == "mb":
            # multi-byte characters only: n = 2a + 3b + 4c
            out, left = [], n
            while left > 0:
                opts = [m for m in MULTI if len(m.encode()) <= left and left - len(m.encode()) != 1]
                if not opts:
                    break
                ch = rnd.choice(opts).encode()
                out.append(ch)
                left -= len(ch)
            b = b"".join(out)
        elif cls == "utf8":
            out, left = [], n
            while left > 0:
                opts = [m for m in MULTI if len(m.encode()) <= left]
                if opts and (not out or rnd.random() < 0.6):
                    ch = rnd.choice(opts).encode()
                else:
                    ch = bytes([rnd.choice(ASCII)])
                out.append(ch)
                left -= len(ch)
            rnd.shuffle(out)
            b = b"".join(out)
        else:
            raise MachineryError("unknown class " + cls)
        if len(b) == n and cls_of(b) == cls and b"/" not in b and b"\0" not in b:
            return b
    raise MachineryError("cannot build a %d-byte name of class %s" % (n, cls))


def describe_path(pb):
    return [{"len": len(c), "cls": cls_of(c)} for c in pb.split(b"/") if c]


# ------------------------------------------------------------------ materialise + run one configuration
class Installer:
    def __init__(self, ctx, helper, root, rnd):
        self.ctx, self.helper, self.root, self.rnd = ctx, helper, root, rnd
        self.used_links = set()
        self.base_names = [c for c in root.split(b"/") if c]
        self.reserved = ()          # names that must not be used at the top of the root
        self.jail = None            # when set: the root is entered by chroot, paths are relative to it
        self.bld = None             # name of the build flavour of the helper (recorded in the event for replays)

    def materialise(self, row):
        """Create directories/links for one TLC row; returns the job description."""
        comps = row["comps"]
        given = [bytes.fromhex(x) for x in row["names"]] if row.get("names") else None      # a repeat / replay: the recorded names
        for _ in range(400):          # (short multi-byte names are few: 30 of 5 bytes; several configurations share the root)
            names = given or [make_name(self.rnd, c["len"], c["cls"]) for c in comps]
            if row["cfg"]["pat"] == "same":                 # the file and every directory above it carry the same name
                names = [names[0]] * len(names)
            if names[0] in self.reserved:
                continue
            real = self.root + b"/" + b"/".join(names)
            d = os.path.dirname(real)
            try:
                os.makedirs(d, exist_ok=True)
                if os.path.lexists(real):
                    if given and os.path.isfile(real):
                        os.unlink(real)                     # the same place again, with this installer's helper
                    else:
                        continue
                try:
                    os.link(self.helper, real)
                except OSError:
                    shutil.copy2(self.helper.decode(), real)
                break
            except (FileExistsError, NotADirectoryError):
                continue
        else:
            raise MachineryError("cannot materialise configuration %r" % (row["cfg"],))
        via = row["cfg"]["via"]
        argv0, cwd, link = real, self.root, None
        if via == "relative":
            cwd, argv0 = d, b"./" + names[-1]
        elif via == "relcwd":           # a relative path from somewhere else: the scratch root
            cwd, argv0 = self.root, b"/".join(names) if len(names) > 1 else b"./" + names[0]
        elif via == "path":             # a bare name, found through PATH (a directory whose name contains ':' cannot be
            argv0 = names[-1]           # named in PATH: then PATH is "." and the working directory is the directory)
            cwd = d
        elif via in ("chain2", "longlink"):
            def fresh(n):
                while True:
                    ln = make_name(self.rnd, n, "ascii")
                    if ln not in self.used_links and ln not in self.reserved and not os.path.lexists(self.root + b"/" + ln):
                        self.used_links.add(ln)
                        return ln
            inside = (lambda x: x[len(self.root):]) if self.jail else (lambda x: x)
            if via == "chain2":
                l1, l2 = self.root + b"/" + fresh(4), self.root + b"/" + fresh(5)
                os.symlink(inside(real), l1)
                os.symlink(inside(l1), l2)
                argv0 = link = l2
            else:
                ld = self.root + b"/" + fresh(200)
                os.makedirs(ld)
                link = ld + b"/" + make_name(self.rnd, 230, "ascii")
                os.symlink(inside(real), link)
                argv0 = link
        elif via in ("filelink", "dirlink"):
            while True:
                ln = make_name(self.rnd, 4, "ascii")
                if ln not in self.used_links and ln not in self.reserved and not os.path.lexists(self.root + b"/" + ln):
                    break
            self.used_links.add(ln)
            link = self.root + b"/" + ln
            inside = (lambda x: x[len(self.root):]) if self.jail else (lambda x: x)     # link targets as seen from inside
            os.symlink(inside(real if via == "filelink" else d), link)
            argv0 = link if via == "filelink" else link + b"/" + names[-1]
        if self.jail:
            h = [hash30(n) for n in names]
            strip = lambda x: (x[len(self.root):] or b"/") if x.startswith(self.root) else x
            argv0, cwd, real = strip(argv0), strip(cwd), strip(real)
        else:
            h = [hash30(n) for n in self.base_names + names]
        if row.get("op") == "Blind":
            ev = {"op": "Blind", "k": 1, "a": {"cfg": row["cfg"]}, "comps": comps}
        else:
            # names: the bytes of the component names below the root (hex), so that a repeat / replay installs the program
            # under the very same names (a defect may depend on the characters, not only on their class)
            ev = {"op": "Run", "k": 1, "a": {"cfg": row["cfg"], "h": h}, "comps": comps, "names": [n.hex() for n in names]}
            if self.bld:
                ev["bld"] = self.bld
        return {"ev": ev, "argv0": argv0, "cwd": cwd, "real": real, "jail": self.jail, "fake": via == "fakeargv0", "bypath": via == "path",
                "noproc": row.get("op") == "Blind"}


class JailUnavailable(Exception):
    """The platform does not let us enter a private mount namespace + chroot: the stage is skipped."""


# runs inside `unshare -m`: mount a private /proc in the jail, chroot, chdir, limit CPU time, exec the program.
# The only mount is procfs, in a private mount namespace: it disappears with the process.
JAIL_SCRIPT = r'''
import os, resource, subprocess, sys
j, cwd, a0 = sys.argv[1:4]
try:
    os.makedirs(os.path.join(j, "proc"), exist_ok=True)
    if len(sys.argv) < 5 or sys.argv[4] != "noproc":
        subprocess.check_call(["mount", "-t", "proc", "proc", os.path.join(j, "proc")], stdout=subprocess.DEVNULL)
    os.chroot(j)
    os.chdir(cwd)
except Exception as x:
    sys.stderr.write("jail: %s\n" % x)
    sys.exit(97)
resource.setrlimit(resource.RLIMIT_CPU, (2, 3))
os.execv(a0, [a0])
'''


# PATH look-up of a bare name (execvp): argv[1] = the name, argv[2] = the directory
PATH_SCRIPT = ("import os, resource, sys; resource.setrlimit(resource.RLIMIT_CPU, (2, 3)); n = os.fsencode(sys.argv[1]); d = os.fsencode(sys.argv[2]); "
               "e = dict(os.environb); e[b'PATH'] = b'.' if b':' in d else d; os.chdir(d if b':' in d else b'/'); os.execvpe(n, [n], e)")
# argv[0] is a word unrelated to the program: not a file name at all, or the absolute path of ANOTHER existing program
FAKE_ARGV0_SCRIPT = "import os, resource, sys; resource.setrlimit(resource.RLIMIT_CPU, (2, 3)); os.execv(sys.argv[1], [sys.argv[2]])"
FAKE_WORDS = ["-not-the-program", "/bin/sh", "sh", "../../bin/sh"]


class Budget:
    """After MAX_STUCK runs that did not return (each costs its CPU limit) the remaining configurations are not started:
    the rejections already recorded decide the verdict, and the run must end within the tier's time."""
    MAX_STUCK = 12

    def __init__(self):
        self.stuck = 0
        self.skipped = 0
        self.lock = threading.Lock()


BUDGET = Budget()


def run_helper_budgeted(job):
    with BUDGET.lock:
        if BUDGET.stuck >= Budget.MAX_STUCK:
            BUDGET.skipped += 1
            return None
    out = run_helper(job)
    if "did not return" in out[:4000]:
        with BUDGET.lock:
            BUDGET.stuck += 1
    return out


def run_helper(job):
    env = dict(os.environ); env.update(core.ASAN_ENV)
    # unbounded recursion must end at the stack limit, not in the OOM killer (see vlib/tables.py run_harness)
    env["ASAN_OPTIONS"] = env["ASAN_OPTIONS"].replace("detect_stack_use_after_return=1", "detect_stack_use_after_return=0") + ":hard_rss_limit_mb=4096"
    line = json.dumps(job["ev"], separators=(",", ":")) + "\n"
    # a call that never returns must not be confused with a slow machine: the child may use 2 s of CPU time
    # (it needs milliseconds; `ulimit -t` survives the exec); the wall-clock limit is generous
    if job.get("jail"):
        cmd = ["unshare", "-m", "--propagation", "private", sys.executable, "-c", JAIL_SCRIPT, job["jail"], job["cwd"], job["argv0"]] + \
              (["noproc"] if job.get("noproc") else [])
        cwd = None
    elif job.get("bypath"):
        cmd = [sys.executable, "-c", PATH_SCRIPT, job["argv0"], job["cwd"]]
        cwd = job["cwd"]
    elif job.get("fake"):
        # argv[0] is an unrelated word (as for a login shell, or a program found through PATH and started by a launcher)
        cmd = [sys.executable, "-c", FAKE_ARGV0_SCRIPT, job["argv0"], FAKE_WORDS[len(job["argv0"]) % len(FAKE_WORDS)]]
        cwd = job["cwd"]
    else:
        cmd = ["/bin/sh", "-c", 'ulimit -t 2; exec "$0"', job["argv0"]]
        cwd = job["cwd"]
    try:
        p = subprocess.run(cmd, input=line.encode(), stdout=subprocess.PIPE, stderr=subprocess.PIPE, cwd=cwd, env=env, timeout=600)
    except subprocess.TimeoutExpired:
        raise MachineryError("helper did not finish within 600 s of wall-clock time (%s)" % job["ev"]["a"])
    except OSError as x:
        raise MachineryError("cannot start the helper at a %d-byte path (%s): %s" % (len(job["argv0"]), job["ev"]["a"].get("cfg"), x))
    out = [l for l in p.stdout.decode(errors="replace").splitlines() if l.strip()]
    if p.returncode == 3:
        raise MachineryError("helper rejected its script: %s" % p.stderr.decode(errors="replace")[-400:])
    if p.returncode == 97:
        raise JailUnavailable(p.stderr.decode(errors="replace")[-300:])
    crash = None
    for l in out:
        if l.startswith('{"op":"Crash"'):
            crash = json.loads(l).get("why", "crash")
    if p.returncode in (-24, -9, 128 + 24, 128 + 9) and crash is None:        # SIGXCPU / SIGKILL from the CPU limit
        crash = "the call did not return (CPU time limit of 2 s reached)"
    if crash is None and not (out and out[0].startswith('{"op"')):
        crash = "no output, rc=%d" % p.returncode
    if crash is not None:
        # a sanitizer report / abort ends the call: the event keeps its arguments (so that it can be replayed)
        # and carries a result no spec action yields
        ev = dict(job["ev"])
        ev["res"] = {"crash": crash}
        ev["stderr"] = p.stderr.decode(errors="replace")[:600].replace('"', "'")
        return json.dumps(ev, separators=(",", ":"))
    return out[0]


def classify_factory(ctx):
    def classify(ev, execution):
        """A rejected Run event where xtl agrees with the kernel's own answer AND the kernel's answer is not what
        the configuration intended means the runner did not build the configuration: machinery, not a violation."""
        if ev.get("op") == "Run" and "indep" in ev and ev["indep"] == ev["res"]["exe"]:
            want = ev["a"]["h"]
            got = [c["h"] for c in ev["indep"]["comps"]]
            if want != got:
                raise MachineryError("configuration %s was not materialised as intended (kernel reports a different path)" % ev["a"]["cfg"])
        return None
    return classify


FLAVOURS = {"asan": tables.Flavour("asan"), "clangO2": tables.Flavour("clangO2", cxx="clang++", flags=["-O2"])}


def build_helper(ctx, flavour="asan"):
    """-> path of the helper in that build flavour, or None after a VIOLATION (the property's functions cannot be called)"""
    fl = FLAVOURS[flavour or "asan"]
    return tables.build_driver(ctx, "C20", os.path.join(HC20, "helper.cpp"), os.path.join(ctx.work, "helper_" + fl.name),
                               os.path.join(HC20, "api_probe.cpp"), flavour=fl)


def rerun(ctx, lines, helpers, tag):
    """Re-materialise the recorded calls (fresh names, fresh directories) and run them again with the helper build they
    were recorded with; returns the trace lines.  helpers: {build flavour: path}"""
    root = os.path.realpath(os.path.join(ctx.work, "root")).encode()
    os.makedirs(root, exist_ok=True)
    insts = {}
    for b, hp in helpers.items():
        insts[b] = Installer(ctx, hp.encode(), root, random.Random(ctx.seed * 31 + tag))
        insts[b].bld = b
    helper = helpers["asan"]
    reset = json.dumps({"op": "Reset", "k": 1, "a": {"base": describe_path(root)}, "res": {"exc": "none"}}, separators=(",", ":"))
    jreset = json.dumps({"op": "Reset", "k": 1, "a": {"base": []}, "res": {"exc": "none"}}, separators=(",", ":"))
    jinst, injail = None, False
    out = []
    for l in lines:
        if l["op"] == "Reset":
            injail = l["a"]["base"] == []           # recorded at the top of a root directory (chroot stage)
        elif l["op"] in ("Run", "Blind") and injail:
            if jinst is None:
                static = os.path.join(ctx.work, "helper_static")
                rc, o = core.sh([core.CXX] + core.BASE_FLAGS + ["-static", "-I", core.INCLUDE, "-I", os.path.join(core.HARNESS, "common"),
                                                               os.path.join(HC20, "helper.cpp"), "-o", static], timeout=600)
                if rc != 0:
                    raise MachineryError("no static build of the helper: " + o[-300:])
                jail = os.path.realpath(os.path.join(ctx.work, "jail")).encode()
                os.makedirs(jail, exist_ok=True)
                jinst = Installer(ctx, static.encode(), jail, random.Random(ctx.seed * 31 + tag))
                jinst.reserved, jinst.jail, jinst.base_names = (b"proc",), jail, []
            try:
                out += [jreset, run_helper(jinst.materialise({"op": l["op"], "cfg": l["a"]["cfg"], "comps": l["comps"], "names": l.get("names")}))]
            except JailUnavailable as x:
                raise MachineryError("this replay needs a chroot, which the platform does not allow: %s" % x)
        elif l["op"] == "Run":
            inst = insts.get(l.get("bld") or "asan", insts["asan"])
            out += [reset, run_helper(inst.materialise({"cfg": l["a"]["cfg"], "comps": l["comps"], "names": l.get("names")}))]
        elif l["op"] == "Endian":
            out += [reset, run_helper({"ev": {"op": "Endian", "k": 1, "a": {}}, "argv0": helper.encode(), "cwd": ctx.work})]
    return out


def replay(ctx, path):
    """./verif replay C20 <file>: re-materialise the recorded configurations (fresh names) and validate."""
    if path.endswith(".cpp"):
        return tables.replay_probe(ctx, path, "C20")
    lines = [l for l in core.read_ndjson(path) if "_meta" not in l]
    helpers = {b: build_helper(ctx, b) for b in sorted({l.get("bld") or "asan" for l in lines} | {"asan"})}
    if any(h is None for h in helpers.values()):
        print("VIOLATION property=C20 replay=%s\n  the helper does not build against this tree" % path)
        return 1
    out = rerun(ctx, lines, helpers, 1)
    tp = os.path.join(ctx.work, "replay.ndjson")
    with open(tp, "w") as f:
        f.write("\n".join(out) + "\n")
    r = core.validate_trace(ctx, "InstallPathTrace", "InstallPathTrace.cfg", tp)
    if r["accepted"]:
        print("replay accepted: the recorded configurations now conform to InstallPath.tla")
        return 0
    print("VIOLATION property=C20 replay=%s" % path)
    print("  rejected at event %d: %s\n  spec expected: %s" % (r["fail_line"] + 1, out[r["fail_line"]][:600], r.get("expected")))
    return 1


MUTATIONS = [
    ("fixed 1024-byte buffer, single readlink, copied as a C string (defect 14 re-introduced)", "xsystem.hpp",
     """        std::string link(sizeof(buffer), '\\0');
        for (;;)
        {
            ssize_t len = readlink("/proc/self/exe", &link[0], link.size());
            if (len == -1)
            {
                // failed to determine run path
                break;
            }
            if (static_cast<std::size_t>(len) < link.size())
            {
                path.assign(link, 0, static_cast<std::size_t>(len));
                break;
            }
            link.resize(link.size() * 2);
        }
""", """        if (readlink("/proc/self/exe", buffer, sizeof(buffer)) != -1)
        {
            path = buffer;
        }
""", "violation"),
    ("len <= size accepted (a filled buffer may be truncated)", "xsystem.hpp",
     "if (static_cast<std::size_t>(len) < link.size())", "if (static_cast<std::size_t>(len) <= link.size())", "violation"),
    ("prefix_path without the trailing separator", "xsystem.hpp",
     "bin_folder.substr(0, bin_folder.find_last_of(separator)) + separator;", "bin_folder.substr(0, bin_folder.find_last_of(separator));", "violation"),
    ("buffer grows once only (never returns above 2048)", "xsystem.hpp", "link.resize(link.size() * 2);", "link.resize(2048);", "violation"),
    ("first cut at the last '/' or '.'", "xsystem.hpp",
     "std::string bin_folder = path.substr(0, path.find_last_of(separator));",
     "std::string bin_folder = path.substr(0, path.find_last_of(\"/.\"));", "violation"),
    ("no separator when the grandparent is the root directory", "xsystem.hpp",
     "std::string prefix = bin_folder.substr(0, bin_folder.find_last_of(separator)) + separator;",
     "std::string prefix = bin_folder.substr(0, bin_folder.find_last_of(separator)); if (!prefix.empty()) prefix += separator;", "violation"),
    ("endianness(): little-endian not recognised", "xplatform.hpp", "case 0x04:", "case 0x03:", "violation"),
]


def selftest(ctx):
    from vlib import selfmut
    return selfmut.run_mutations("C20", MUTATIONS)


def jail_stage(ctx, q, rnd, rootjson):
    """Configurations with an empty base, materialised in .work/C20/jail and run under chroot with a statically
    linked helper (no sanitizer there).  Optional: skipped with a note where the platform does not allow it."""
    try:
        static = os.path.join(ctx.work, "helper_static")
        cmd = [core.CXX] + core.BASE_FLAGS + ["-static", "-I", core.INCLUDE, "-I", os.path.join(core.HARNESS, "common"),
                                             os.path.join(HC20, "helper.cpp"), "-o", static]
        rc, out = core.sh(cmd, timeout=600)
        if rc != 0:
            raise JailUnavailable("no static build: " + out[-200:])
        if not shutil.which("unshare"):
            raise JailUnavailable("unshare(1) not found")
        jail = os.path.realpath(os.path.join(ctx.work, "jail")).encode()
        os.makedirs(jail, exist_ok=True)
        r = core.tlc_model_check(ctx, "InstallPathMC", "InstallPath_jail.cfg", "configurations at the top of a root directory",
                                 env={"ROOT": rootjson}, workers=2)
        if "No error has been found" not in r["out"]:
            raise MachineryError("TLC did not complete on InstallPath_jail.cfg, see %s" % r["outfile"])
        rows = sorted([x for x in emitted(r["out"]) if x["op"] in ("Run", "Blind")], key=lambda x: (x["op"], json.dumps(x["cfg"], sort_keys=True)))
        if q:
            rows = [x for x in rows if x["op"] == "Run" or x["cfg"]["pat"] in ("ascii", "one")]
        inst = Installer(ctx, static.encode(), jail, rnd)
        inst.reserved = (b"proc",)
        inst.jail = jail
        inst.base_names = []
        jobs = [inst.materialise(x) for x in rows]
        outs = [run_helper(jobs[0])]                      # the first one tells whether the platform lets us do this
        with ThreadPoolExecutor(max_workers=8) as ex:
            outs += [o for o in ex.map(run_helper_budgeted, jobs[1:]) if o is not None]
        if os.path.ismount(os.path.join(jail, b"proc")):
            raise MachineryError("the private /proc mount of the jail leaked into this mount namespace")
        ctx.notes["jail_configurations"] = len(rows)
        ctx.notes["jail_configurations_without_proc"] = sum(1 for x in rows if x["op"] == "Blind")
        ctx.log("%d configurations at the top of a root directory run under chroot (%d of them without /proc)"
                % (len(rows), ctx.notes["jail_configurations_without_proc"]))
        return outs
    except JailUnavailable as x:
        ctx.notes["jail_stage"] = "skipped: %s" % str(x)[:300]
        ctx.log("chroot stage skipped (%s)" % str(x)[:200])
        return []


def run(ctx):
    q = ctx.quick
    rnd = random.Random(ctx.seed)
    with ThreadPoolExecutor(2) as ex:
        helpers = dict(zip(("asan", "clangO2"), ex.map(lambda b: build_helper(ctx, b), ("asan", "clangO2"))))
    if any(h is None for h in helpers.values()):      # the functions cannot be called as the property states: reported by build_helper
        return core.finish(ctx, "exploration", rule="the helper does not build against this tree; nothing was run", assumptions=[], exhaustive=False)
    helper = helpers["asan"]
    ctx.notes["build_flavours"] = {"asan": core.CXX + " -O1 -fsanitize=address", "clangO2": "clang++ -O2 -fsanitize=address (every third configuration)"}
    root = os.path.realpath(os.path.join(ctx.work, "root")).encode()
    os.makedirs(root, exist_ok=True)
    base = describe_path(root)
    rootjson = os.path.join(ctx.work, "root.json")
    with open(rootjson, "w") as f:
        # exact total lengths drawn from the seed, in addition to the boundary lengths fixed in the configs
        seed_totals = sorted(rnd.sample(range(len(root) + 300, 4096), 3 if q else 10))
        f.write(json.dumps({"base": base, "totals": seed_totals}) + "\n")
    ctx.notes["seed_totals"] = seed_totals

    # ---- 1. TLC: configurations + theorems of L1; L2 against L1
    r = core.tlc_model_check(ctx, "InstallPathMC", "InstallPath_mc.cfg" if q else "InstallPath_mc_thorough.cfg",
                             "install configurations enumerated; theorems of the spec", env={"ROOT": rootjson},
                             coverage=not q, workers=4)
    if "Assumption" in r["out"] and "is false" in r["out"]:
        raise MachineryError("the theorems of InstallPath.tla do not hold (oracle bug), see %s" % r["outfile"])
    if r["violated"] or "No error has been found" not in r["out"]:
        raise MachineryError("TLC did not complete on InstallPath.tla, see %s" % r["outfile"])
    rows = emitted(r["out"])
    if not q:
        ctx.notes["action_coverage"] = r.get("coverage", {})
    r2 = core.tlc_model_check(ctx, "InstallPathImpl", "InstallPathImpl_mc.cfg" if q else "InstallPathImpl_mc_thorough.cfg",
                              "L2 (readlink loop, two find_last_of cuts on character strings) agrees with L1", workers=4)
    if "Assumption" in r2["out"] and "is false" in r2["out"] or r2["violated"] or "No error has been found" not in r2["out"]:
        ctx.drift.append("InstallPathImpl.tla does not agree with InstallPath.tla; see %s" % r2["outfile"])

    runs = [x for x in rows if x["op"] == "Run"]
    ctx.log("%d install configurations enumerated by TLC below %s (%d bytes)" % (len(runs), root.decode(), len(root)))
    ctx.notes["configurations"] = len(runs)
    ctx.notes["configurations_per_start"] = {v: sum(1 for x in runs if x["cfg"]["via"] == v) for v in sorted({x["cfg"]["via"] for x in runs})}
    ctx.notes["vacuous_actions"] = [o for o in ("Run", "Endian") if not any(x["op"] == o for x in rows)]
    ctx.notes["total_lengths"] = sorted({x["res"]["bytes"] for x in runs})

    # ---- 2. materialise and run
    inst = Installer(ctx, helper.encode(), root, rnd)
    inst.bld = "asan"
    inst2 = Installer(ctx, helpers["clangO2"].encode(), root, rnd)
    inst2.bld = "clangO2"
    inst2.used_links = inst.used_links
    runs.sort(key=lambda x: json.dumps(x["cfg"], sort_keys=True))
    # more names per configuration: the short configurations (where the character classes vary most) are installed again
    # under further names drawn from the seed - every character class of a pattern is met in several spellings
    reps = 2 if q else 4
    again = [x for x in runs if x["cfg"]["total"] == 0 and x["cfg"]["via"] in ("direct", "path", "relcwd") and x["cfg"]["pat"] not in ("same", "one")]
    runs = runs + [x for _ in range(reps - 1) for x in again]
    ctx.notes["further_name_draws"] = (reps - 1) * len(again)
    jobs = [(inst2 if i % 3 == 2 else inst).materialise(x) for i, x in enumerate(runs)]
    for j, x in zip(jobs, runs):
        if len(j["real"]) != x["res"]["bytes"]:
            raise MachineryError("materialised path has %d bytes, the spec computed %d" % (len(j["real"]), x["res"]["bytes"]))
    with ThreadPoolExecutor(max_workers=8) as ex:
        outs = [o for o in ex.map(run_helper_budgeted, jobs) if o is not None]
    if BUDGET.skipped:
        ctx.notes["configurations_not_started"] = BUDGET.skipped
        ctx.log("%d runs did not return; the remaining %d configurations were not started" % (BUDGET.stuck, BUDGET.skipped))
    # ---- 2b. programs installed at the top of a root directory: /x (no grandparent), /d/x, /a/b/x -- inside a chroot
    jail_outs = jail_stage(ctx, q, rnd, rootjson)

    tdir = ctx.sub("traces")
    reset = json.dumps({"op": "Reset", "k": 1, "a": {"base": base}, "res": {"exc": "none"}}, separators=(",", ":"))
    outs.append(run_helper({"ev": {"op": "Endian", "k": 1, "a": {}}, "argv0": helper.encode(), "cwd": ctx.work}))
    # every call is an execution of its own (Reset = "programs are installed below this root")
    nchunks = 4 if q else 8
    traces = []
    for i in range(nchunks):
        part = outs[i::nchunks]
        if not part:
            continue
        tp = os.path.join(tdir, "install-%d.ndjson" % i)
        with open(tp, "w") as f:
            for l in part:
                f.write(reset + "\n" + l + "\n")
        traces.append(tp)
    if jail_outs:
        tp = os.path.join(tdir, "jail.ndjson")
        jreset = json.dumps({"op": "Reset", "k": 1, "a": {"base": []}, "res": {"exc": "none"}}, separators=(",", ":"))
        with open(tp, "w") as f:
            for l in jail_outs:
                f.write(jreset + "\n" + l + "\n")
        traces.append(tp)
    ctx.sample({"event": outs[0][:900]})
    ctx.sample({"event": outs[-1]})

    # ---- 3. validate against L1
    nv0 = len(ctx.violations)
    core.validate_traces(ctx, "InstallPathTrace", "InstallPathTrace.cfg", traces, classify=classify_factory(ctx),
                         max_restarts=2, parallel=4)
    ctx.cov["events_validated"] //= 2          # the Reset lines are not calls
    # a rejection is reported only if it repeats: re-materialise the first rejected configuration (new names), run, validate
    if len(ctx.violations) > nv0:
        rp = ctx.violations[nv0][0]
        again = rerun(ctx, [l for l in core.read_ndjson(rp) if "_meta" not in l], helpers, 2)
        if again:
            p2 = os.path.join(tdir, "repeat.ndjson")
            with open(p2, "w") as f:
                f.write("\n".join(again) + "\n")
            if core.validate_trace(ctx, "InstallPathTrace", "InstallPathTrace.cfg", p2, explain=False)["accepted"]:
                raise MachineryError("non-reproducible rejection: %s" % ctx.violations[nv0][1][:400])
    ctx.cov["traces_validated_against_impl"] = len(outs) + len(jail_outs)
    ctx.cov["evaluations"] = ctx.cov["events_validated"]
    ctx.cov["distinct_nontrivial"] = len(runs) + len(jail_outs) + 1
    ctx.log("validated %d calls (%d configurations below the scratch root + %d under chroot + endianness), %d rejected"
            % (ctx.cov["events_validated"], len(runs), len(jail_outs), len(ctx.violations) - nv0))

    return core.finish(
        ctx, "exploration",
        rule="every configuration TLC enumerates for the measured scratch root (%d bytes): short paths of depth %s and paths of "
             "EXACTLY %s bytes (depth = minimum needed + %s), components <= 255 bytes, name patterns %s (odd = control characters incl. "
             "newline / leading '-' or '.' / '...', '..x', trailing '.' / multi-byte characters only / ending in ' (deleted)' / leading or "
             "trailing blank; same = the file and all its directories carry one name; one = single-character names), started %s; "
             "one helper run per configuration and name draw (the short configurations started directly / through PATH / by a relative "
             "path from elsewhere are installed under %d further sets of names; two builds of the helper), both functions called twice "
             "with a chdir in between, each returned string described per component (length, class, 30-bit hash) and compared by TLC "
             "with the spec's component lists; second route: the file at the returned path has the device and inode of /proc/self/exe, "
             "and the prefix is a leading substring of the path; names are drawn from VERIF_SEED. endianness(): one run, compared with "
             "the memory image of 0x01020304 the helper reads itself (xplatform.hpp has no configuration macro: the answer is computed at run time)."
             % (len(root), "1,2,6" if q else "1..6", sorted({x["cfg"]["total"] for x in runs if x["cfg"]["total"]}),
                "{0,3}" if q else "{0,1,5}", sorted({x["cfg"]["pat"] for x in runs}),
                sorted({x["cfg"]["via"] for x in runs}), reps - 1),
        assumptions=["Linux with /proc mounted: /proc/self/exe names the running image (the resolved file, not the symlink used to start it, "
                     "whatever argv[0] says). Without /proc the statement promises nothing (the functions cannot know); the chroot stage "
                     "only checks that the calls return without a sanitizer report there",
                     "an executable UNLINKED while it runs is no longer 'installed at' a path: the statement does not say what is returned "
                     "(the kernel appends ' (deleted)'); not checked. A program whose real name ENDS in ' (deleted)' is installed at that "
                     "path and must be reported exactly (class delsfx)",
                     "AddressSanitizer is the observer for 'does not read or write outside its buffer' (a report ends the trace with a Crash event)",
                     "the executable always has a grandparent directory here (the scratch root is 4 levels deep); /x and /d/x are not reachable without a chroot",
                     "every run starts a hard link of one helper binary (the scratch build is linked, not copied, to each location): the answer must be "
                     "the name the program was started through, not the name it was built under",
                     "paths longer than PATH_MAX-1 (reachable only by relative exec) and the non-Linux branches (Windows, macOS, FreeBSD, Solaris: "
                     "not compiled against stub headers either) are not explored"],
        exhaustive=False)

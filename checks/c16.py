"""C16 - xtl::span views cover exactly the requested sub-range; checked mode rejects bad ones.

 1. TLC: Span.tla (L1: parent cells + a stack of windows [off, len, extent, const]; arguments are symbolic
    mathematical integers n or SIZE_MAX-d, so the contract conditions cannot wrap; three modes: unchecked, throwing,
    terminate) with its own theorems.
 1b. TLC: SpanImpl.tla (L2, advisory): the precondition checks transcribed from xspan_impl.hpp with 5-bit modular index
    arithmetic accept exactly the calls L1 accepts, for all sizes and all argument words.
 1c. TLC: SpanMode.tla: the configuration axis as a table (mode macros x NDEBUG x language level -> effective mode):
    L1 = what the property demands (an explicit single request is honoured), the documented default, and L2 = the
    header's #if cascade.  harness/span/mode_probe.cpp is built in all 32 configurations and reports what every
    checked entry point does with an out-of-range argument (in child processes); SpanModeCheck.tla compares.
 1d. TLC: SpanTypes.tla enumerates the type-level table (result extents of every sub-view form, which constructions and
    conversions exist, as_bytes extents, tuple protocol); rendered as one static_assert per row and compiled BEFORE
    the drivers are built, so that a changed signature is a violation with a replay, not a driver that does not build.
 2. S->C: TLC enumerates every (state, operation, argument) transition for parents of 0..3 (0..4) cells, views of
    views to depth 3, offsets/counts 0..n+1, SIZE_MAX-d, dynamic_extent, static and dynamic extents, const and
    non-const element types; replayed on real xtl::span objects by drivers built in the configurations of BUILD
    MATRIX below (the mode of a build's scripts is the mode the probe observed for its configuration).
 3. TLC simulation walks and seeded random scripts (parents up to 40 cells, depth 4, writes).
 Every recorded step (result + parent cells, guard cells, and for every view: extent, constness, data()-base, size(),
 size_bytes(), empty(), end()-begin(), elements by operator[], forward and reverse iteration) is validated by TLC
 against SpanTrace.tla.  A driver that crashes, hangs or can no longer follow its script is restarted at the next
 execution; the call it died in is recorded with the result "crash" / "desync", which L1 never allows.
"""
import json, os, random, re, shutil, subprocess, threading
from concurrent.futures import ThreadPoolExecutor
from vlib import core, tlaval, span_types
from vlib.core import MachineryError

PID = "C16"
HDIR = os.path.join(core.HARNESS, "span")
MACRO = {"THROW": "-DTCB_SPAN_THROW_ON_CONTRACT_VIOLATION", "TERMINATE": "-DTCB_SPAN_TERMINATE_ON_CONTRACT_VIOLATION",
         "NONE": "-DTCB_SPAN_NO_CONTRACT_CHECKING"}
ELEMS = {0: ("int", 4), 1: ("signed char", 1), 2: ("double", 8), 3: ("rgb", 3)}
MAXE = 5
BIG_COUNTS = (1000000, 999999)    # Span.tla BigC(0), BigC(1): PTRDIFF_MAX and PTRDIFF_MAX - 1 as template arguments
OBSERVERS = {"At", "Index", "Front", "Back", "Cmp", "AsBytes", "Bind"}
WRITE_PATHS = ("sub", "call", "at", "front", "back", "data", "iter", "riter", "get", "wbytes", "sb")
ALL_OPS = ["FromPtrCount", "FromPtrPair", "FromArray", "FromStdArray", "FromContainer", "MakeSpan", "Deduce", "Default",
           "Copy", "Convert", "First", "Last", "Subspan", "Subspan1", "Nm", "FirstS", "LastS", "SubspanS", "NmS",
           "Index", "At", "Front", "Back", "Bind", "Write", "Cmp", "AsBytes"]
MAX_REPORT = 10          # distinct violations reported; the rest are only counted
CXX17_ONLY_OPS = ("Deduce", "Bind")


# ------------------------------------------------------------------ build matrix
class Bld:
    """One way of compiling the driver: a point of the property's configuration axis (mode macros x NDEBUG x language
    level) plus the axes the property leaves open (element type, optimisation level, compiler)."""

    def __init__(self, name, req, ndebug, cpp, elem=0, opt="-O1", asan=True, cxx=None, share="sample"):
        self.name, self.req, self.ndebug, self.cpp, self.elem, self.opt, self.asan, self.cxx, self.share = \
            name, list(req), ndebug, cpp, elem, opt, asan, cxx, share
        self.mode = None      # filled from the mode probe
        self.feats = None     # filled from driver --caps

    def flags(self):
        return ["-std=c++%d" % self.cpp, self.opt, "-g1", "-DSPAN_ELEM=%d" % self.elem] + [MACRO[m] for m in self.req] + (["-DNDEBUG"] if self.ndebug else [])

    def key(self):
        return (tuple(sorted(self.req)), self.ndebug, self.cpp)


def build_matrix(quick, have_clang):
    """quick: the three routes the property names first (no checking, throwing, the default = terminate) in full, plus
    one build per remaining (macro, NDEBUG) combination that changes the effective mode or could (the explicit request
    under NDEBUG, the NDEBUG default), alternating language level, element type and optimisation level.
    thorough: all 16 configurations {none, NONE, THROW, TERMINATE} x {NDEBUG, not} x {C++14, C++17}, plus clang++."""
    b = [Bld("nocheck-14", ["NONE"], False, 14, 0, "-O1", True, share="full"),
         Bld("throw-14", ["THROW"], False, 14, 0, "-O1", True, share="main"),
         Bld("default-14", [], False, 14, 0, "-O0", False, share="main"),
         Bld("throw-nd-17", ["THROW"], True, 17, 2, "-O2", True),
         Bld("default-nd-14", [], True, 14, 1, "-O1", True),
         Bld("term-nd-17", ["TERMINATE"], True, 17, 3, "-O2", False)]
    if not quick:
        b += [Bld("nocheck-17", ["NONE"], False, 17, 3, "-O2", True),
              Bld("nocheck-nd-14", ["NONE"], True, 14, 2, "-O0", True),
              Bld("nocheck-nd-17", ["NONE"], True, 17, 1, "-O1", True),
              Bld("throw-17", ["THROW"], False, 17, 1, "-O0", True),
              Bld("throw-nd-14", ["THROW"], True, 14, 3, "-O1", True),
              Bld("term-14", ["TERMINATE"], False, 14, 2, "-O1", False),
              Bld("term-17", ["TERMINATE"], False, 17, 0, "-O0", False),
              Bld("term-nd-14", ["TERMINATE"], True, 14, 1, "-O0", False),
              Bld("default-17", [], False, 17, 3, "-O2", False),
              Bld("default-nd-17", [], True, 17, 0, "-O2", True)]
        if have_clang:
            b += [Bld("throw-14-clang", ["THROW"], False, 14, 0, "-O1", True, cxx="clang++"),
                  Bld("nocheck-17-clang", ["NONE"], True, 17, 0, "-O2", True, cxx="clang++")]
    return b


def all_builds():
    return {b.name: b for b in build_matrix(False, True)}


def S(n):
    return {"t": "s", "v": n}


def H(d):
    return {"t": "h", "v": d}


def compiler_is_gnu(cxx):
    try:
        out = subprocess.run([cxx or core.CXX, "--version"], stdout=subprocess.PIPE, stderr=subprocess.STDOUT, text=True).stdout
    except Exception:
        return True
    return "clang" not in out.lower()


def supported(ev, feats):
    """calls a build cannot be asked for: first<0>()/last<0>() under g++ (ambiguous braced return in the header),
    C++17-only forms in a C++14 build"""
    op, a = ev["op"], ev["a"]
    if not feats["static_zero"]:
        if op in ("FirstS", "LastS") and a.get("C") == 0:
            return False
        if op == "NmS" and a.get("fn") in ("first", "last") and a.get("C") == 0:
            return False
    if not feats["cpp17"]:
        if op in CXX17_ONLY_OPS or (op == "Write" and a.get("path") == "sb"):
            return False
    if op == "Deduce" and not feats.get("ctad"):
        return False
    return True


def reset_event(bld):
    return {"op": "Reset", "a": {"mode": bld.mode, "esz": ELEMS[bld.elem][1], "bld": bld.name}}


# ------------------------------------------------------------------ TLC -> scripts (S->C)
def emitted(out, tag="@E@"):
    res = []
    for line in out.splitlines():
        if line.startswith('"' + tag):
            res.append(json.loads(json.loads(line)[3:]))
    return res


def setup_events(pre, rnd):
    """Events that bring the driver into abstract state pre = {mk, parent, views}: consecutive views differ by one call."""
    evs = [{"op": "Mem", "a": {"kind": pre["mk"], "cells": pre["parent"]}}]
    vs = pre["views"]
    for j, v in enumerate(vs):
        if j == 0:
            evs.append({"op": rnd.choice(["FromPtrCount", "FromPtrPair"]), "a": {"po": v["off"], "cnt": v["len"], "ext": v["ext"], "c": v["c"]}})
            continue
        p = vs[j - 1]
        o, l = v["off"] - p["off"], v["len"]
        if v["c"] != p["c"]:
            evs.append({"op": "Convert", "a": {"s": j, "ext": v["ext"], "c": v["c"]}})
        elif v["ext"] != -1:
            if (o, l, v["ext"]) == (0, p["len"], p["ext"]) and rnd.random() < 0.5:
                evs.append({"op": "Copy", "a": {"s": j, "how": rnd.choice(["ctor", "assign", "make_span"])}})
            else:
                evs.append({"op": "SubspanS", "a": {"s": j, "O": o, "C": v["ext"]}})
        elif o == 0 and rnd.random() < 0.3:
            evs.append({"op": "First", "a": {"s": j, "c": S(l)}})
        elif o + l == p["len"] and rnd.random() < 0.4:
            if rnd.random() < 0.5:
                evs.append({"op": "Last", "a": {"s": j, "c": S(l)}})
            else:
                evs.append({"op": "Subspan1", "a": {"s": j, "o": S(o)}})
        else:
            evs.append({"op": "Subspan", "a": {"s": j, "o": S(o), "c": S(l)}})
    return evs


def edge_scripts(edges, bld, rnd, limit=None):
    """One execution per source state: set the state up, then every call out of it (observers first; after a call that
    may have changed the state it is set up again)."""
    by_src = {}
    for e in edges:
        if not supported(e["l"], bld.feats):
            continue
        by_src.setdefault(json.dumps(e["p"], sort_keys=True), []).append(e["l"])
    total = sum(len(v) for v in by_src.values())
    keep = 1.0 if not limit or total <= limit else limit / float(total)
    lines, taken = [], 0
    for pj in sorted(by_src):
        pre = json.loads(pj)
        calls = by_src[pj]
        if keep < 1.0:
            # calls that only this kind of build can make (C++17 forms) are never sampled away
            calls = [c for c in calls if rnd.random() < keep or c["op"] in CXX17_ONLY_OPS or (c["op"] == "Write" and c["a"].get("path") == "sb")]
            if not calls:
                continue
        calls.sort(key=lambda c: c["op"] not in OBSERVERS)
        lines.append(reset_event(bld))
        lines.extend(setup_events(pre, rnd))
        dirty = False
        for c in calls:
            if dirty:
                lines.extend(setup_events(pre, rnd))
            lines.append(c)
            taken += 1
            dirty = c["op"] not in OBSERVERS
    return lines, taken


def sim_walks(simdir):
    """{checking: [walk, ...]}: the walks of Span_sim.cfg, as lists of calls; a walk made in throwing mode is a walk of
    every checking mode (the enabled calls are the same), one made in unchecked mode stays inside the contract"""
    out = {True: [], False: []}
    for fn in sorted(os.listdir(simdir)):
        states = tlaval.parse_sim_trace(os.path.join(simdir, fn))
        if len(states) < 2:
            continue
        out[states[0]["mode"] != "unchecked"].append([{"op": s["last"]["op"], "a": s["last"]["a"]} for s in states[1:]])
    return out


def sim_script(walks, bld):
    lines = []
    for w in walks:
        lines.append(reset_event(bld))
        for ev in w:
            if not supported(ev, bld.feats):
                break
            lines.append(ev)
    return lines


# ------------------------------------------------------------------ random scripts (C->S)
class Gen:
    """Random script generator.  Shadow state: number of cells, memory kind and (len, ext, const) of every
    stacked view - what is needed to stay inside the preconditions in unchecked mode and inside
    the instantiated static extents; it predicts no results."""

    def __init__(self, rnd, bld):
        self.r, self.feats = rnd, bld.feats
        self.n, self.kind = 0, "heap"
        self.v = []          # [len, ext, c]
        self.checked = bld.mode != "unchecked"
        self.lo = 0 if bld.feats["static_zero"] else 1

    def ev(self, op, **a):
        return {"op": op, "a": a or {"z": 0}}

    def size_arg(self, lim, allow_bad):
        """a size argument; without allow_bad always <= lim"""
        r = self.r
        t = r.random()
        if allow_bad and t < 0.12:
            return H(r.choice([0, 1, 2, lim, lim + 1, max(lim - 1, 0), r.randrange(0, 50)]))
        if allow_bad and t < 0.25:
            return S(lim + r.choice([1, 1, 2, 7]))
        return S(r.choice([0, lim, max(lim - 1, 0), r.randrange(0, lim + 1)]))

    def push(self, s, ln, ext, c):
        self.v = self.v[:s] + [[ln, ext, c]]

    def memext(self):
        return -1 if self.kind in ("vector", "box") else self.n

    def step(self):
        r = self.r
        bad = self.checked
        for _ in range(80):
            c = r.random()
            if c < 0.05 or (not self.v and c < 0.3):
                kind = r.choice(["heap", "heap", "vector", "box", "carray", "stdarray"])
                n = r.choice([0, 1, 2, 3, 4, 5]) if kind in ("carray", "stdarray") else r.choice([0, 1, 2, 3, 5, 8, 17, 40])
                if kind == "carray" and n == 0:
                    n = 1
                self.kind, self.n, self.v = kind, n, []
                return self.ev("Mem", kind=kind, cells=[r.randint(-99, 99) for _ in range(n)])
            if c < 0.14 or not self.v:
                t = r.randrange(7)
                n = self.n
                cst = r.random() < 0.3
                if t <= 1:
                    po = r.randrange(0, n + 1); cnt = r.randrange(0, n - po + 1)
                    ext = -1
                    if r.random() < 0.4:
                        ext = cnt if (cnt <= MAXE and (not bad or r.random() < 0.7)) else r.randrange(0, MAXE + 1)
                        if not bad and ext != cnt:
                            ext = -1
                    if ext == -1 or ext == cnt:
                        self.v = [[cnt, ext, cst]]
                    return self.ev(r.choice(["FromPtrCount", "FromPtrPair"]), po=po, cnt=cnt, ext=ext, c=cst)
                if t == 2 and self.kind in ("carray", "stdarray"):
                    ext = r.choice([-1, n])
                    self.v = [[n, ext, cst]]
                    return self.ev("FromArray" if self.kind == "carray" else "FromStdArray", ext=ext, c=cst)
                if t == 3 and self.kind in ("vector", "box"):
                    ext = -1
                    if r.random() < 0.4:
                        ext = n if (n <= MAXE and r.random() < 0.6) else (r.randrange(0, MAXE + 1) if bad else -1)
                    if ext == -1 or ext == n:
                        self.v = [[n, ext, cst]]
                    return self.ev("FromContainer", ext=ext, c=cst)
                if t == 4 and self.kind != "heap":
                    self.v = [[n, self.memext(), cst]]
                    return self.ev("MakeSpan", c=cst)
                if t == 5 and r.random() < 0.3:
                    ext = r.choice([-1, 0])
                    self.v = [[0, ext, cst]]
                    return self.ev("Default", ext=ext, c=cst)
                if t == 6 and self.kind != "heap" and self.feats.get("ctad"):
                    self.v = [[n, self.memext(), cst]]
                    return self.ev("Deduce", c=cst)
                continue
            s = r.randrange(1, len(self.v) + 1)
            if len(self.v) >= 4 and r.random() < 0.5:
                s = r.randrange(1, 4)
            ln, ext, cst = self.v[s - 1]
            if c < 0.17 and self.kind != "heap":
                n = self.n
                if r.random() < 0.35:
                    # the template forms first<C>(t), last<C>(t), subspan<O, C>(t)
                    fn = r.choice(["first", "last", "subspan"])
                    mext = self.memext()
                    if fn != "subspan":
                        hi = MAXE if bad else min(MAXE, n)
                        if hi < self.lo:
                            continue
                        C = r.choice([self.lo, hi, r.randrange(self.lo, hi + 1)])
                        if C <= n:
                            self.v = [[C, C, False]]
                        return self.ev("NmS", fn=fn, O=0, C=C)
                    O = r.randrange(0, MAXE + 2) if bad else r.randrange(0, min(n, MAXE + 1) + 1)
                    C = r.choice([-1, -1] + list(range(0, MAXE + 1))) if bad else r.choice([-1] + list(range(0, min(MAXE, max(n - O, 0)) + 1)))
                    rext = C if C != -1 else (mext - O if mext != -1 else -1)
                    if rext < -1 or rext > MAXE:
                        continue
                    ok = O <= n and (C == -1 or C <= n - O)
                    if not ok and not bad:
                        continue
                    if ok:
                        self.v = [[(n - O) if C == -1 else C, rext, False]]
                    return self.ev("NmS", fn=fn, O=O, C=C)
                fn = r.choice(["first", "last", "subspan", "subspan1"])
                o = S(0) if fn in ("first", "last") else self.size_arg(n, bad)
                rest = n - o["v"] if (o["t"] == "s" and o["v"] <= n) else 0
                cc = H(0) if fn == "subspan1" or (fn == "subspan" and r.random() < 0.2) else self.size_arg(rest if fn == "subspan" else n, bad)
                if o["t"] == "s" and o["v"] <= n:
                    if cc == H(0) and fn in ("subspan", "subspan1"):
                        self.v = [[n - o["v"], -1, False]]
                    elif cc["t"] == "s" and cc["v"] <= n - o["v"]:
                        self.v = [[cc["v"], -1, False]]
                return self.ev("Nm", fn=fn, o=o, c=cc)
            if c < 0.25:
                if r.random() < 0.4:
                    self.push(s, ln, ext, cst)
                    return self.ev("Copy", s=s, how=r.choice(["ctor", "assign", "make_span"]))
                e = r.choice([-1, ext])
                tc = True if cst else r.random() < 0.5
                self.push(s, ln, e, tc)
                return self.ev("Convert", s=s, ext=e, c=tc)
            if c < 0.50:
                t = r.randrange(4)
                if t == 0 or t == 1:
                    a = self.size_arg(ln, bad)
                    if a["t"] == "s" and a["v"] <= ln:
                        self.push(s, a["v"], -1, cst)
                    return self.ev("First" if t == 0 else "Last", s=s, c=a)
                if t == 2:
                    o = self.size_arg(ln, bad)
                    if o["t"] == "s" and o["v"] <= ln:
                        self.push(s, ln - o["v"], -1, cst)
                    return self.ev("Subspan1", s=s, o=o)
                o = self.size_arg(ln, bad)
                rest = ln - o["v"] if (o["t"] == "s" and o["v"] <= ln) else 0
                cc = H(0) if r.random() < 0.2 else self.size_arg(rest, bad)
                if bad and r.random() < 0.15:
                    # the pairs whose sum wraps modulo 2^64
                    k = r.randrange(0, ln + 2)
                    o, cc = S(k), H(max(k - 1 - r.randrange(0, 2), 0))
                if o["t"] == "s" and o["v"] <= ln:
                    if cc == H(0):
                        self.push(s, ln - o["v"], -1, cst)
                    elif cc["t"] == "s" and cc["v"] <= ln - o["v"]:
                        self.push(s, cc["v"], -1, cst)
                return self.ev("Subspan", s=s, o=o, c=cc)
            if c < 0.64:
                t = r.randrange(3)
                lo = self.lo
                if t <= 1:
                    hi = MAXE if bad else min(MAXE, ln)
                    if hi < lo:
                        continue
                    C = r.choice([lo, hi, r.randrange(lo, hi + 1), min(ln, MAXE) if min(ln, MAXE) >= lo else lo])
                    if bad and r.random() < 0.08:
                        C = r.choice(BIG_COUNTS)          # PTRDIFF_MAX, PTRDIFF_MAX - 1 as template arguments
                    if C <= ln:
                        self.push(s, C, C, cst)
                    return self.ev("FirstS" if t == 0 else "LastS", s=s, C=C)
                O = r.randrange(0, MAXE + 2) if bad else r.randrange(0, min(ln, MAXE + 1) + 1)
                C = r.choice([-1, -1] + list(range(0, MAXE + 1))) if bad else r.choice([-1] + list(range(0, min(MAXE, max(ln - O, 0)) + 1)))
                if bad and r.random() < 0.08:
                    C = r.choice(BIG_COUNTS)
                rext = C if C != -1 else (ext - O if ext != -1 else -1)
                if rext < -1 or (rext > MAXE and C not in BIG_COUNTS):
                    continue
                ok = O <= ln and (C == -1 or C <= ln - O)
                if not ok and not bad:
                    continue
                if ok:
                    self.push(s, (ln - O) if C == -1 else C, rext, cst)
                return self.ev("SubspanS", s=s, O=O, C=C)
            if c < 0.76:
                t = r.randrange(5)
                if t == 0:
                    return self.ev("At", s=s, i=self.size_arg(ln, True))
                if t == 1:
                    how = r.choice(["sub", "call", "get"])
                    if how == "get":
                        hi = MAXE if bad else min(MAXE, ln - 1)
                        if hi < 0:
                            continue
                        return self.ev("Index", s=s, how=how, i=S(r.randrange(0, hi + 1)))
                    if bad:
                        return self.ev("Index", s=s, how=how, i=self.size_arg(ln, True))
                    if ln == 0:
                        continue
                    return self.ev("Index", s=s, how=how, i=S(r.randrange(ln)))
                if t == 4:
                    if self.feats["cpp17"] and 1 <= ext <= 3:
                        return self.ev("Bind", s=s)
                    continue
                if ln == 0 and not bad:
                    continue
                return self.ev("Front" if t == 2 else "Back", s=s)
            if c < 0.90:
                if ln == 0 or cst:
                    continue
                path = r.choice(WRITE_PATHS)
                i = 0 if path == "front" else ln - 1 if path == "back" else r.choice([0, ln - 1, r.randrange(ln)])
                if path == "get" and i > MAXE:
                    i = r.randrange(0, min(ln, MAXE + 1))
                if path == "sb" and not (self.feats["cpp17"] and 1 <= ext <= 3):
                    continue
                return self.ev("Write", s=s, path=path, i=i, x=r.randint(-99, 99))
            if c < 0.96:
                return self.ev("Cmp", s=s, t=r.randrange(1, len(self.v) + 1))
            w = r.randrange(2)
            if w and cst:
                continue
            return self.ev("AsBytes", s=s, w=w)
        self.kind, self.n, self.v = "heap", 0, []
        return self.ev("Mem", kind="heap", cells=[])


def random_script(seed, bld, nexec, nops):
    rnd = random.Random("%d/%s" % (seed, bld.name))
    lines = []
    for _ in range(nexec):
        g = Gen(rnd, bld)
        lines.append(reset_event(bld))
        for _ in range(nops):
            lines.append(g.step())
    return lines


def write_script(path, lines):
    with open(path, "w") as f:
        for l in lines:
            f.write((l if isinstance(l, str) else json.dumps(l, separators=(",", ":"))) + "\n")


def chunk_by_reset(lines, nchunks):
    starts = [i for i, l in enumerate(lines) if l["op"] == "Reset"]
    if not starts:
        return [lines]
    per = max(1, (len(starts) + nchunks - 1) // nchunks)
    cuts = starts[::per]
    return [lines[a:b] for a, b in zip(cuts, cuts[1:] + [len(lines)])]


# ------------------------------------------------------------------ running a driver on a script
def run_script(ctx, drv, lines, trace_path, isolate=False, stats=None):
    """Feeds the script to the driver.  If the driver ends before the script does (crash, sanitizer report, a call that
    does not return, a script it cannot follow) the call it ended in is recorded with the result exc = "crash" or
    "desync" - which no L1 action yields - and a fresh driver continues at the next Reset, so that at most the rest of
    one execution is lost.  Returns the number of restarts."""
    env = dict(os.environ); env.update(core.ASAN_ENV)
    argv = [drv] + (["--isolate"] if isolate else [])
    pos, restarts = 0, 0
    with open(trace_path, "w") as fout:
        while pos < len(lines):
            inp = "".join(json.dumps(l, separators=(",", ":")) + "\n" for l in lines[pos:])
            try:
                p = subprocess.run(argv, input=inp.encode(), stdout=subprocess.PIPE, stderr=subprocess.PIPE, env=env, timeout=1800)
                out, err, rc = p.stdout.decode(errors="replace"), p.stderr.decode(errors="replace"), p.returncode
            except subprocess.TimeoutExpired as ex:
                out, err, rc = (ex.stdout or b"").decode(errors="replace"), "[driver timed out]", 124
            good, why, kind = [], None, "crash"
            for l in out.split("\n")[:-1] if not out.endswith("\n") else out.split("\n"):
                if not l.strip():
                    continue
                if l.startswith('{"op":"Crash"') or l.startswith('{"op":"Desync"'):
                    kind = "desync" if "Desync" in l[:16] else "crash"
                    try:
                        why = json.loads(l).get("why", "")
                    except ValueError:
                        why = l[:200]
                    break
                if not l.endswith("}"):
                    break
                good.append(l)
            good = good[:len(lines) - pos]
            for l in good:
                fout.write(l + "\n")
            k = pos + len(good)
            if k >= len(lines):
                break
            # the driver ended in (or before) script line k
            if why is None:
                why = "driver ended with status %s: %s" % (rc, " | ".join(x.strip() for x in err.splitlines() if "ERROR" in x or "SUMMARY" in x)[:300] or err[-200:])
            ev = dict(lines[k])
            ev["res"] = {"exc": kind, "val": []}
            ev["died"] = why
            ev["st"] = {}
            fout.write(json.dumps(ev, separators=(",", ":")) + "\n")
            restarts += 1
            nxt = k + 1
            while nxt < len(lines) and lines[nxt]["op"] != "Reset":
                nxt += 1
            if stats is not None:
                stats["lost_events"] = stats.get("lost_events", 0) + (nxt - k - 1)
                stats["restarts"] = stats.get("restarts", 0) + 1
            pos = nxt
    return restarts


def build_driver(ctx, bld):
    out = os.path.join(ctx.work, "span_driver_" + bld.name)
    core.build(ctx, os.path.join(HDIR, "driver.cpp"), out, flags=bld.flags(), asan=bld.asan, cxx=bld.cxx)
    rc, o = core.sh([out, "--caps"], timeout=60)
    if rc != 0:
        raise MachineryError("driver --caps failed for %s: %s" % (bld.name, o[-500:]))
    bld.feats = json.loads(o.strip().splitlines()[-1])
    if bld.feats["esz"] != ELEMS[bld.elem][1]:
        raise MachineryError("sizeof(%s) is %s on this platform, the runner assumes %s" % (ELEMS[bld.elem][0], bld.feats["esz"], ELEMS[bld.elem][1]))
    return out


# ------------------------------------------------------------------ 1c. the mode table
def mode_table(ctx):
    r = core.tlc_model_check(ctx, "SpanMode", "SpanMode.cfg", "mode selection table (macros x NDEBUG x language level): the header's #if cascade "
                             "honours every explicit single request and gives the documented default", workers=1)
    if r["violated"]:
        ctx.drift.append("SpanMode.tla: the transcription of the header's mode selection does not agree with L1 / the documented default (%s); see %s"
                         % (r["violated"], r["outfile"]))
    rows = {}
    for row in emitted(r["out"], "@M@"):
        rows[(tuple(sorted(row["req"])), row["ndebug"], row["cpp"])] = row
    if len(rows) != 32:
        raise MachineryError("SpanMode.tla produced %d configurations, expected 32 (see %s)" % (len(rows), r["outfile"]))
    nx = {}
    for row in emitted(r["out"], "@N@"):
        nx[(tuple(sorted(row["req"])), row["ndebug"], row["cpp"])] = row
    if len(nx) != 32:
        raise MachineryError("SpanMode.tla produced %d no-exception configurations, expected 32 (see %s)" % (len(nx), r["outfile"]))
    NX_TABLE.clear()
    NX_TABLE.update(nx)
    return rows


NX_TABLE = {}


def probe_noexc(ctx, req, ndebug, cpp, opt="-O1"):
    """Build and run noexc_probe.cpp with -fno-exceptions in one configuration."""
    name = "noexc_probe_%s_%s_%d" % ("+".join(sorted(req)) or "none", "nd" if ndebug else "dbg", cpp)
    out = os.path.join(ctx.sub("probe"), name)
    cmd = [core.CXX, "-std=c++%d" % cpp, opt, "-fno-exceptions", "-Wno-deprecated-declarations", "-I", core.INCLUDE] + [MACRO[m] for m in sorted(req)] + \
          (["-DNDEBUG"] if ndebug else []) + [os.path.join(HDIR, "noexc_probe.cpp"), "-o", out]
    rc, o = core.sh(cmd, timeout=300)
    row = {"req": sorted(req), "ndebug": ndebug, "cpp": cpp, "opt": opt}
    if rc != 0:
        if "error" not in o:
            raise MachineryError("noexc probe failed to build without a compiler diagnostic:\n%s" % o[-1500:])
        row.update(entries={}, compiles=False, valid=None, detail=" | ".join(l.strip() for l in o.splitlines() if "error" in l)[:300])
        return row
    rc, o = core.sh([out], timeout=120)
    try:
        d = json.loads(o.strip().splitlines()[-1])
    except Exception:
        raise MachineryError("noexc probe %s printed no result: %s" % (name, o[-300:]))
    row.update(entries=d["entries"], compiles=True, valid=d["valid"], macro=d["no_exceptions_macro"])
    return row


def check_noexc(ctx, quick):
    """Round 3: -fno-exceptions builds.  Rows of SpanMode.tla (NxAllowed / NxAtAllowed) against the probe.  Verdict only where
    the statement speaks (TERMINATE requested: contract checking is enabled, so every bad argument must be rejected, and
    in-range calls must keep working); everything else is advisory."""
    cfgs = sorted(k for k in NX_TABLE if (k[2] == 14 or not quick))
    opts = ["-O0", "-O1", "-O2"]
    with ThreadPoolExecutor(max_workers=core.NCPU) as ex:
        rows = list(ex.map(lambda ic: probe_noexc(ctx, ic[1][0], ic[1][1], ic[1][2], opt=opts[ic[0] % 3]), enumerate(cfgs)))
    adv, nrows, nviol, l2drift = {}, 0, 0, []
    for key, row in zip(cfgs, rows):
        t = NX_TABLE[key]
        cfgname = "{%s}%s C++%d -fno-exceptions" % (",".join(row["req"]) or "no mode macro", " + NDEBUG" if row["ndebug"] else "", row["cpp"])
        ents = row["entries"] if row["compiles"] else {"*": "does-not-compile", "at": "does-not-compile"}
        l2 = [n for n, got in ents.items() if got != (t["header_at"] if n.startswith("at") else t["header"])]
        if l2 and len(l2drift) < 3:
            l2drift.append("SpanMode.tla (L2, no-exception table) no longer describes the header for %s: entries %s" % (cfgname, sorted(l2)[:5]))
        for name, got in sorted(ents.items()):
            nrows += 1
            allowed = t["at"] if name.startswith("at") else t["allowed"]
            if got in allowed:
                continue
            if t["verdict"] and not name.startswith("at"):
                nviol += 1
                if nviol <= 3:
                    ctx.violation("contract checking without exception support: a translation unit that defines %s must reject an out-of-range "
                                  "argument of `%s` by terminating, observed: %s %s" % (cfgname, name, got, row.get("detail", "")),
                                  replay_lines=[{"probe": "noexc", "req": row["req"], "ndebug": row["ndebug"], "cpp": row["cpp"], "opt": row["opt"]}])
            else:
                adv.setdefault(("at()" if name.startswith("at") else "checked entry points", got, "/".join(sorted(allowed))), [])
                if cfgname not in adv[("at()" if name.startswith("at") else "checked entry points", got, "/".join(sorted(allowed)))]:
                    adv[("at()" if name.startswith("at") else "checked entry points", got, "/".join(sorted(allowed)))].append(cfgname)
        if row["compiles"] and not row["valid"]:
            nviol += 1
            ctx.violation("a translation unit that defines %s gives wrong answers for IN-RANGE calls (at, [], first, last, subspan, front, back, size_bytes)" % cfgname,
                          replay_lines=[{"probe": "noexc", "req": row["req"], "ndebug": row["ndebug"], "cpp": row["cpp"], "opt": row["opt"]}])
    ctx.drift.extend(l2drift)
    for (what, got, allowed), where in sorted(adv.items()):
        ctx.drift.append("ADVISORY (the C16 statement does not quantify over builds without exception support) %s with an out-of-range argument: "
                         "observed '%s', SpanMode.tla allows %s, in %d configuration(s): %s" % (what, got, allowed, len(where), "; ".join(where[:4]) + (" ..." if len(where) > 4 else "")))
    ctx.cov["evaluations"] += nrows
    ctx.notes["noexc_probe_configurations"] = len(rows)
    ctx.notes["noexc_probe_rows"] = nrows
    ctx.notes["noexc_observed"] = {"%s%s/c++%d" % ("+".join(k[0]) or "none", "+NDEBUG" if k[1] else "", k[2]):
                                   (sorted(set(r["entries"].values())) if r["compiles"] else ["does-not-compile"]) for k, r in zip(cfgs, rows)}
    ctx.log("no-exception builds: %d configurations, %d (configuration, entry point) rows compared with SpanMode.tla, %d verdict rows failing, %d advisory groups"
            % (len(rows), nrows, nviol, len(adv)))


def probe_config(ctx, req, ndebug, cpp, opt="-O1", cxx=None, tag=""):
    """Build and run mode_probe.cpp in one configuration; returns the observed row."""
    name = "mode_probe_%s_%s_%d%s" % ("+".join(sorted(req)) or "none", "nd" if ndebug else "dbg", cpp, tag)
    out = os.path.join(ctx.sub("probe"), name)
    cmd = [cxx or core.CXX, "-std=c++%d" % cpp, opt, "-Wno-deprecated-declarations", "-I", core.INCLUDE] + [MACRO[m] for m in sorted(req)] + \
          (["-DNDEBUG"] if ndebug else []) + [os.path.join(HDIR, "mode_probe.cpp"), "-o", out]
    rc, o = core.sh(cmd, timeout=300)
    row = {"req": sorted(req), "ndebug": ndebug, "cpp": cpp, "opt": opt, "cmd": " ".join(cmd)}
    if rc != 0:
        row.update(observed="does-not-compile", entries={}, detail=" | ".join(l.strip() for l in o.splitlines() if "error" in l)[:600])
        return row
    rc, o = core.sh([out], timeout=120)
    try:
        d = json.loads(o.strip().splitlines()[-1])
    except Exception:
        row.update(observed="probe-failed", entries={}, detail=o[-300:])
        return row
    outcomes = sorted(set(d["entries"].values()))
    row["entries"] = d["entries"]
    row["macros_after_include"] = d["macros_after_include"]
    row["observed"] = outcomes[0] if len(outcomes) == 1 else "mixed(" + ",".join("%s=%s" % kv for kv in sorted(d["entries"].items())) + ")"
    return row


def check_modes(ctx, table):
    """All 32 configurations of SpanMode.tla: what the header does (probe) against the table (TLC)."""
    cfgs = sorted(table)
    opts = ["-O0", "-O1", "-O2"]
    with ThreadPoolExecutor(max_workers=core.NCPU) as ex:
        rows = list(ex.map(lambda ic: probe_config(ctx, ic[1][0], ic[1][1], ic[1][2], opt=opts[ic[0] % 3]), enumerate(cfgs)))
    observed = {}
    path = os.path.join(ctx.sub("probe"), "modes.ndjson")
    pending = rows
    total, nviol, sigs = 0, 0, set()
    while pending:
        write_script(path, pending)
        r = core.tlc(ctx, "SpanModeCheck", "SpanModeCheck.cfg", name="mode-rows", workers=1, env={"TRACE": path, "EXPLAIN": "0"}, timeout=300)
        matched = max(0, r["depth"] - 1)
        total += matched
        for m in re.finditer(r'<<\s*"DRIFT",\s*(\d+),\s*"([^"]*)",\s*(.*?)>>', r["out"], re.S):
            row = pending[int(m.group(1)) - 1]
            msg = "contract-mode selection: macros {%s}%s, C++%d: the header gives mode '%s'; %s" % (
                ",".join(row["req"]), " + NDEBUG" if row["ndebug"] else "", row["cpp"], m.group(2), re.sub(r"\s+", " ", m.group(3)))
            if msg not in ctx.drift:
                ctx.drift.append(msg)
        if matched >= len(pending):
            break
        bad = pending[matched]
        exp = table[(tuple(bad["req"]), bad["ndebug"], bad["cpp"])]
        nviol += 1
        sig = (tuple(bad["req"]), re.sub(r"=\w+", "", bad["observed"]))
        if sig in sigs or len(sigs) >= 4:
            pending = pending[matched + 1:]
            continue
        sigs.add(sig)
        ctx.violation("contract-checking mode: a translation unit that defines {%s}%s (C++%d, %s) must be in mode %s, but its checked entry points behave as: %s %s"
                      % (",".join(bad["req"]) or "no mode macro", " and NDEBUG" if bad["ndebug"] else "", bad["cpp"], bad["opt"],
                         "/".join(exp["allowed"]), bad["observed"], bad.get("detail", "")),
                      replay_lines=[{"probe": "mode", "req": bad["req"], "ndebug": bad["ndebug"], "cpp": bad["cpp"], "opt": bad["opt"]}])
        pending = pending[matched + 1:]
    for row in rows:
        observed[(tuple(row["req"]), row["ndebug"], row["cpp"])] = row["observed"]
    ctx.cov["evaluations"] += total
    ctx.notes["mode_probe_configurations"] = len(rows)
    ctx.notes["mode_probe_configurations_rejected"] = nviol
    ctx.notes["mode_probe_entry_points"] = len(rows[0].get("entries", {})) if rows else 0
    ctx.notes["mode_table_observed"] = {"%s%s/c++%d" % ("+".join(k[0]) or "none", "+NDEBUG" if k[1] else "", k[2]): v for k, v in sorted(observed.items())}
    return observed


# ------------------------------------------------------------------ 1d. the type table
def type_table(ctx, quick):
    r = core.tlc_model_check(ctx, "SpanTypes", "SpanTypes.cfg", "type-level table (result extents of all sub-view forms, constructions, conversions, "
                             "as_bytes, tuple protocol)", workers=1)
    if r["violated"]:
        raise MachineryError("SpanTypes.tla violates its own sanity invariant (oracle bug), see %s" % r["outfile"])
    rows, seen = [], set()
    for row in emitted(r["out"], "@T@"):
        k = json.dumps(row, sort_keys=True)
        if k not in seen:
            seen.add(k)
            rows.append(row)
    rows.sort(key=lambda x: json.dumps(x, sort_keys=True))
    if len(rows) < 1000:
        raise MachineryError("SpanTypes.tla produced only %d rows (see %s)" % (len(rows), r["outfile"]))
    tdir = ctx.sub("types")
    confs = [("c++14", ["-DTCB_SPAN_THROW_ON_CONTRACT_VIOLATION"], None), ("c++17", ["-DTCB_SPAN_NO_CONTRACT_CHECKING"], None)]
    if not quick:
        confs += [("c++14", ["-DNDEBUG"], None), ("c++17", [], None)]
        if shutil.which("clang++"):
            confs.append(("c++17", ["-DTCB_SPAN_THROW_ON_CONTRACT_VIOLATION"], "clang++"))
    nbad = 0
    reported = set()
    for i, (std, fl, cxx) in enumerate(confs):
        src = os.path.join(tdir, "types_%d.cpp" % i)
        cmdtail = ["-std=" + std, "-fsyntax-only", "-Wno-deprecated-declarations", "-ftemplate-backtrace-limit=0", "-I", core.INCLUDE] + fl
        where = span_types.render(rows, src, note="compile: %s %s" % (cxx or core.CXX, " ".join(cmdtail)))
        rc, o = core.sh([cxx or core.CXX] + cmdtail + [src], timeout=600)
        ctx.cov["evaluations"] += len(rows)
        if rc == 0:
            continue
        bad, msgs = span_types.failing_rows(src, o, where)
        if not bad:
            raise MachineryError("the type table does not compile (%s %s) and no row could be blamed:\n%s" % (std, " ".join(fl), o[-3000:]))
        for bi in bad:
            row = rows[bi]
            sig = (row["k"], row["lvl"], row.get("fn"), row.get("src"))
            text = "type table row fails (%s %s%s): %s  [%s]  compiler: %s" % (
                std, " ".join(fl), " " + cxx if cxx else "", json.dumps(row, sort_keys=True), span_types.expr(row), msgs.get(bi, "static assertion failed")[:300])
            if row["lvl"] == "a":
                if sig not in reported:
                    ctx.drift.append(text)
            else:
                nbad += 1
                if sig not in reported and nbad <= 3 * MAX_REPORT:
                    os.makedirs(ctx.replays, exist_ok=True)
                    rp = os.path.join(ctx.replays, "type_row_%s_%d_%d.cpp" % (row["k"], i, bi))
                    span_types.render([row], rp, note="compile: %s %s" % (cxx or core.CXX, " ".join(cmdtail)))
                    ctx.violation(text, replay_path=rp)
            reported.add(sig)
    ctx.notes["type_table_rows"] = len(rows)
    ctx.notes["type_table_configurations"] = len(confs)
    ctx.notes["type_table_failing_verdict_rows"] = nbad


# ------------------------------------------------------------------ verdict bookkeeping
def classify(findings):
    def f(ev, execution):
        for k in findings:
            m = k.get("match", {})
            if m and all(ev.get(x) == y or ev.get("a", {}).get(x) == y for x, y in m.items()):
                return "%s (%s)" % (k["key"], k["what"])
        return None
    return f


def signature(text):
    m = re.search(r'\{"op":"(\w+)".*?"a":(\{.*?\}),(?:"by":"\w+",)?"res":\{"exc":"(\w+)"', text)
    if not m:
        return text[:200]
    try:
        a = json.loads(m.group(2))
    except ValueError:
        a = {}
    return (m.group(1), a.get("fn"), a.get("how"), a.get("path"), m.group(3))


def dedupe_violations(ctx, keep_first=0):
    """The same failing call is usually met from many source states and with many arguments: report one per
    (operation, variant, observed outcome), at most MAX_REPORT in all."""
    seen, keep = set(), list(ctx.violations[:keep_first])
    for path, text in ctx.violations[keep_first:]:
        sig = signature(text)
        if sig in seen or len(keep) >= MAX_REPORT + keep_first:
            if path.endswith(".ndjson"):
                try:
                    os.remove(path)
                except OSError:
                    pass
            continue
        seen.add(sig)
        keep.append((path, text))
    ctx.notes["rejections_total"] = len(ctx.violations)
    ctx.violations[:] = keep


# ------------------------------------------------------------------ replay / selftest
def replay(ctx, path):
    """./verif replay C16 <file>: re-run the recorded calls (or probe, or type-table row) on the current tree."""
    if path.endswith(".cpp"):
        with open(path) as f:
            head = f.read(600)
        m = re.search(r"// compile: (.*)", head)
        cmd = (m.group(1).split() if m else [core.CXX, "-std=c++14", "-fsyntax-only", "-I", core.INCLUDE])
        for i, x in enumerate(cmd):
            if x == "-I" and i + 1 < len(cmd):
                cmd[i + 1] = core.INCLUDE
        rc, o = core.sh(cmd + [path], timeout=300)
        if rc == 0:
            print("replay accepted: the type-table row holds on the current tree")
            return 0
        print("VIOLATION property=C16 replay=%s" % path)
        print("  " + "\n  ".join(l for l in o.splitlines() if "error" in l)[:1500])
        return 1
    lines = [l for l in core.read_ndjson(path) if "_meta" not in l]
    if lines and lines[0].get("probe") == "noexc":
        p = lines[0]
        mode_table(ctx)
        row = probe_noexc(ctx, p["req"], p["ndebug"], p["cpp"], opt=p.get("opt", "-O1"))
        t = NX_TABLE[(tuple(sorted(p["req"])), p["ndebug"], p["cpp"])]
        bad = (not row["compiles"] and "does-not-compile" not in t["allowed"]) or (row["compiles"] and (not row["valid"] or any(
            v not in t["allowed"] for k, v in row["entries"].items() if not k.startswith("at"))))
        if not bad:
            print("replay accepted: the -fno-exceptions configuration behaves as SpanMode.tla demands")
            return 0
        print("VIOLATION property=C16 replay=%s" % path)
        print("  allowed %s, observed %s valid=%s" % (t["allowed"], row["entries"] or "does-not-compile", row["valid"]))
        return 1
    if lines and "probe" in lines[0]:
        p = lines[0]
        table = mode_table(ctx)
        row = probe_config(ctx, p["req"], p["ndebug"], p["cpp"], opt=p.get("opt", "-O1"))
        allowed = table[(tuple(sorted(p["req"])), p["ndebug"], p["cpp"])]["allowed"]
        if row["observed"] in allowed:
            print("replay accepted: the configuration is in mode %s" % row["observed"])
            return 0
        print("VIOLATION property=C16 replay=%s" % path)
        print("  mode must be one of %s, observed %s" % (allowed, row["observed"]))
        return 1
    rs = next((l for l in lines if l["op"] == "Reset"), None)
    if rs is None:
        raise MachineryError("replay file has no Reset event: %s" % path)
    bld = all_builds().get(rs["a"].get("bld"))
    if bld is None:
        raise MachineryError("replay file names an unknown build: %s" % rs["a"].get("bld"))
    bld.mode = rs["a"]["mode"]
    drv = build_driver(ctx, bld)
    tp = os.path.join(ctx.work, "replay.ndjson")
    run_script(ctx, drv, lines, tp, isolate=bld.mode == "terminate")
    r = core.validate_trace(ctx, "SpanTrace", "SpanTrace.cfg", tp)
    if r["accepted"]:
        print("replay accepted: the recorded calls now conform to Span.tla")
        return 0
    print("VIOLATION property=C16 replay=%s" % path)
    print("  rejected at event %d; spec expected: %s" % (r["fail_line"] + 1, r.get("expected")))
    return 1


def selftest(ctx):
    """./verif selftest C16: a recorded trace is accepted; with one corrupted field it is rejected at exactly
    that event; with one event removed at the first event that no longer fits; a driver that is made to lose
    its script is restarted and the trace is rejected at the call it was lost in."""
    ok = True
    builds = [b for b in build_matrix(True, False) if b.name in ("nocheck-14", "throw-14", "default-14")]
    table = mode_table(ctx)
    for b in builds:
        b.mode = table[b.key()]["header"]
        drv = build_driver(ctx, b)
        lines = random_script(ctx.seed, b, 1, 400)
        tp = os.path.join(ctx.work, "st-%s.ndjson" % b.name)
        run_script(ctx, drv, lines, tp, isolate=b.mode == "terminate")
        r = core.validate_trace(ctx, "SpanTrace", "SpanTrace.cfg", tp, explain=False)
        print("selftest %s (%s): recorded trace of %d events accepted: %s" % (b.name, b.mode, r["total"], r["accepted"]))
        ok = ok and r["accepted"]
        rec = [json.loads(l) for l in open(tp) if l.strip()]
        k = 200
        for what in ("off", "elem", "res", "drop", "const"):
            mod = json.loads(json.dumps(rec))
            if what == "off":
                cand = [i for i in range(k, len(mod)) if mod[i]["st"]["views"]]
                expect = cand[0]
                mod[expect]["st"]["views"][-1]["off"] += 1
            elif what == "const":
                cand = [i for i in range(k, len(mod)) if mod[i]["st"]["views"]]
                expect = cand[0]
                mod[expect]["st"]["views"][-1]["c"] = not mod[expect]["st"]["views"][-1]["c"]
            elif what == "elem":
                cand = [i for i in range(k, len(mod)) if mod[i]["st"]["mem"]]
                expect = cand[0]
                mod[expect]["st"]["mem"][-1] += 1
            elif what == "res":
                cand = [i for i in range(k, len(mod)) if mod[i]["op"] == "At"]
                expect = cand[0]
                mod[expect]["res"] = {"exc": "none", "val": [0]} if mod[expect]["res"]["exc"] != "none" else {"exc": "out_of_range", "val": []}
            else:
                cand = [i for i in range(k, len(mod) - 1) if mod[i]["op"] == "Write" and mod[i]["st"] != mod[i - 1]["st"] and mod[i + 1]["op"] in OBSERVERS]
                expect = cand[0]
                del mod[expect]
            cp = os.path.join(ctx.work, "st-%s-%s.ndjson" % (b.name, what))
            write_script(cp, mod)
            rr = core.validate_trace(ctx, "SpanTrace", "SpanTrace.cfg", cp, explain=False)
            fl = rr.get("fail_line")
            good = (not rr["accepted"]) and (fl == expect if what != "drop" else fl is not None and fl >= expect)
            print("selftest %s: corruption '%s' at event %d -> rejected at event %s: %s" % (b.name, what, expect + 1, None if fl is None else fl + 1, "ok" if good else "UNEXPECTED"))
            ok = ok and good
        # a script the driver cannot follow: a call on a view that does not exist, then a second execution
        bad = [reset_event(b), {"op": "Mem", "a": {"kind": "heap", "cells": [1, 2, 3]}}, {"op": "First", "a": {"s": 2, "c": S(1)}},
               {"op": "Front", "a": {"s": 1}}, reset_event(b), {"op": "Mem", "a": {"kind": "heap", "cells": [4]}},
               {"op": "FromPtrCount", "a": {"po": 0, "cnt": 1, "ext": -1, "c": False}}, {"op": "Front", "a": {"s": 1}}]
        tp2 = os.path.join(ctx.work, "st-%s-desync.ndjson" % b.name)
        st = {}
        n = run_script(ctx, drv, bad, tp2, isolate=b.mode == "terminate", stats=st)
        rec2 = [json.loads(l) for l in open(tp2) if l.strip()]
        good = n == 1 and len(rec2) == 7 and rec2[2]["res"]["exc"] == "desync" and rec2[-1]["res"] == {"exc": "none", "val": [4]}
        rr = core.validate_trace(ctx, "SpanTrace", "SpanTrace.cfg", tp2, explain=False)
        good = good and (not rr["accepted"]) and rr.get("fail_line") == 2
        print("selftest %s: lost script -> 1 restart, Desync recorded at event 3, second execution completed, TLC rejects at event 3: %s" % (b.name, "ok" if good else "UNEXPECTED"))
        ok = ok and good
    return 0 if ok else 2


# ------------------------------------------------------------------ the check
def run(ctx):
    q = ctx.quick
    findings = core.load_findings(PID)
    rnd = random.Random(ctx.seed)
    have_clang = bool(shutil.which("clang++"))
    builds = build_matrix(q, have_clang)

    # ---- drivers are compiled in the background while TLC works; a build that fails is dealt with after the probes
    built, build_err = {}, {}

    def bg_build():
        def one(b):
            try:
                built[b.name] = build_driver(ctx, b)
            except MachineryError as e:
                build_err[b.name] = str(e)
        with ThreadPoolExecutor(max_workers=max(2, core.NCPU // 2)) as ex:
            list(ex.map(one, builds))
    bt = threading.Thread(target=bg_build)
    bt.start()

    try:
        # ---- 1. L1 model checking (the spec's own theorems), three modes
        if os.environ.get("C16_DEV_SKIP_SPEC_MC"):      # development only (mutation experiments): the spec's own theorems do not depend on the tree
            ctx.notes["dev"] = "spec model checking skipped"
        r = {"violated": None, "coverage": {}} if os.environ.get("C16_DEV_SKIP_SPEC_MC") else core.tlc_model_check(ctx, "SpanMC", "Span_mc.cfg" if q else "Span_mc_thorough.cfg",
                                 "L1 invariants (views inside parent and inside their source view, const never dropped) and laws", coverage=not q)
        if r["violated"]:
            raise MachineryError("L1 spec Span.tla violates its own theorem %s (oracle bug), see %s" % (r["violated"], r["outfile"]))
        if not q and not os.environ.get("C16_DEV_SKIP_SPEC_MC"):
            # views of views of views expanded (stacks of 4 generated): the theorems only, no replay
            rd = core.tlc_model_check(ctx, "SpanMC", "Span_mc_depth3.cfg", "L1 theorems with stacks <= 3 expanded (MaxN = 3)", timeout=2400)
            if rd["violated"]:
                raise MachineryError("L1 spec Span.tla violates its own theorem %s at depth 3 (oracle bug), see %s" % (rd["violated"], rd["outfile"]))
        if not q:
            ctx.notes["l1_action_coverage"] = {k: v for k, v in r.get("coverage", {}).items()}
            ctx.notes["vacuous_actions"] = sorted(k for k, v in r.get("coverage", {}).items() if v[1] == 0 and k[0].isupper() and k in ALL_OPS)

        # ---- 1b. L2: the run-time checks transcribed with W-bit modular arithmetic accept exactly what L1 accepts (advisory)
        r2 = {"violated": None} if os.environ.get("C16_DEV_SKIP_SPEC_MC") else core.tlc_model_check(ctx, "SpanImpl", "SpanImpl_mc.cfg", "L2 (checks of first/last/subspan/[]/at in 5-bit modular arithmetic, "
                                  "all sizes x all argument words) agrees with the L1 contract")
        if r2["violated"]:
            ctx.drift.append("SpanImpl.tla does not agree with Span.tla (%s); see %s" % (r2["violated"], r2["outfile"]))
        if not q and not os.environ.get("C16_DEV_SKIP_SPEC_MC"):
            # the L2 model must be able to tell: the check as it stood before the repair (offset + count <= size()) is refuted
            r2o = core.tlc(ctx, "SpanImpl", "SpanImpl_old.cfg", name="SpanImpl-old-check-refuted")
            if not r2o["violated"]:
                ctx.drift.append("SpanImpl.tla no longer refutes the wrapping check offset + count <= size() (see %s)" % r2o["outfile"])
            ctx.notes["l2_refutes_unrepaired_check"] = bool(r2o["violated"])

        # ---- 1c. mode selection: table + probe in all 32 configurations
        table = mode_table(ctx)
        observed = check_modes(ctx, table)
        check_noexc(ctx, q)

        # ---- 1d. type table, before anything depends on the drivers
        type_table(ctx, q)
        n_static = len(ctx.violations)
        if os.environ.get("C16_DEV_STATIC_ONLY"):         # development only (mutation experiments on the probe stages)
            ctx.notes["dev"] = "stopped after the static stages"
            bt.join()
            return finish(ctx, q, builds)

        # ---- 2. S->C enumeration (the calls enabled in a checking mode are the same for throwing and terminate)
        edges = {}
        for checking, cfgmode in ((False, "unchecked"), (True, "throwing")):
            cfg = "Span_s2c_%s%s.cfg" % (cfgmode, "" if q else "_thorough")
            r3 = core.tlc(ctx, "SpanMC", cfg, name="s2c-enumerate-" + cfg[:-4], heap="3g", timeout=2400)
            if r3["violated"]:
                raise MachineryError("s2c enumeration failed: %s" % r3["outfile"])
            edges[checking] = emitted(r3["out"])
            r3["out"] = ""
            per_op = {}
            for e in edges[checking]:
                per_op[e["l"]["op"]] = per_op.get(e["l"]["op"], 0) + 1
            ctx.notes["s2c_transitions_per_action_" + ("checking" if checking else "unchecked")] = per_op
            ctx.notes["actions_never_enumerated_" + ("checking" if checking else "unchecked")] = sorted(set(ALL_OPS) - set(per_op))
            ctx.notes["s2c_transitions_enumerated_" + ("checking" if checking else "unchecked")] = len(edges[checking])

        # ---- 2b. TLC simulation walks (writes, deeper stacks, 5 cells)
        simdir = ctx.sub("sim")
        nsim = 200 if q else 1500
        core.tlc(ctx, "SpanMC", "Span_sim.cfg", name="s2c-simulate",
                 simulate="file=%s/t,num=%d" % (simdir, nsim), extra=["-depth", "40", "-seed", str(ctx.seed)], workers=min(4, core.NCPU))
        walks = sim_walks(simdir)
        ctx.notes["s2c_simulation_walks"] = len(walks[True]) + len(walks[False])
    finally:
        bt.join()

    # ---- drivers: a driver that does not build against this tree is a violation only through what the probes found
    if build_err:
        name, err = sorted(build_err.items())[0]
        if ctx.violations:
            ctx.notes["driver_builds_failed"] = sorted(build_err)
            ctx.log("driver build(s) failed (%s); reporting the %d violation(s) of the compile-time tables and probes" % (", ".join(sorted(build_err)), len(ctx.violations)))
            dedupe_violations(ctx, keep_first=n_static)
            return finish(ctx, q, builds)
        raise MachineryError("the conformance driver does not build in configuration %s although the type table and the mode probes hold:\n%s" % (name, err[-5000:]))

    # ---- the mode of a build's scripts is what the probe observed for its configuration (L1 allowed it, or it is already reported)
    runnable = []
    for b in builds:
        obs = observed.get(b.key())
        if obs not in ("unchecked", "throwing", "terminate") or obs not in table[b.key()]["allowed"]:
            ctx.notes.setdefault("builds_not_run", []).append("%s: mode %s" % (b.name, obs))
            continue
        b.mode = obs
        runnable.append(b)
    if not runnable and not ctx.violations:
        raise MachineryError("no driver configuration could be run")
    ctx.notes["builds"] = {b.name: {"flags": " ".join(b.flags()), "compiler": b.cxx or core.CXX, "asan": b.asan, "mode": b.mode, "element": ELEMS[b.elem][0]} for b in runnable}
    if any(not b.feats["static_zero"] for b in runnable):
        ctx.notes["compiler_note"] = "g++ cannot compile first<0>()/last<0>() ({data(), 0} is ambiguous); these calls are not issued to g++ builds"
    ctx.notes["from_std_array_of_const"] = "constructible" if any(b.feats.get("from_array_of_const") for b in runnable) else \
        "span<const T>(std::array<const T, N>&) does not exist on this tree (it is not in P0122R7 either); not exercised"

    # ---- scripts per build
    scripts = []   # (wave, name, bld, lines)
    for b in runnable:
        checking = b.mode != "unchecked"
        wave = 0 if b.share in ("full", "main") else 1
        if b.share == "full" or (b.share == "main" and not q and b.mode == "throwing"):
            limit = None
        elif b.share == "main":
            limit = (30000 if b.mode == "throwing" else 12000) if q else 60000
        else:
            limit = 3000 if q else 8000
        lines, taken = edge_scripts(edges[checking], b, rnd, limit=limit)
        ctx.notes.setdefault("s2c_transitions_replayed", {})[b.name] = taken
        ctx.log("S->C %s (%s): %d of %d L1 transitions replayed (%d script events)" % (b.name, b.mode, taken, len(edges[checking]), len(lines)))
        sl = sim_script(walks[checking], b)
        if wave == 0:
            nexec, nops = (120, 60) if q else (1200, 80)
        else:
            nexec, nops = (40, 60) if q else (300, 80)
        rl = random_script(ctx.seed, b, nexec, nops)
        ctx.notes.setdefault("script_events", {})[b.name] = {"s2c": len(lines), "sim": len(sl), "random": len(rl)}
        # one list per build, cut into traces of about 25000 events (one TLC process each)
        allb = lines + sl + rl
        for i, ch in enumerate(chunk_by_reset(allb, max(1, min(12, len(allb) // 25000 + 1)))):
            scripts.append((wave, "%s-%02d" % (b.name, i), b, ch))

    # ---- probes for open known findings
    for fnd in findings:
        if "probe" in fnd:
            pb = next((b for b in runnable if b.mode == fnd["probe"]["mode"]), None)
            if pb:
                scripts.append((0, "probe-" + fnd["id"], pb, [reset_event(pb)] + [l for l in fnd["probe"]["script"] if l.get("op") != "Reset"]))

    # ---- run the harness
    tdir = ctx.sub("traces")
    stats = {}

    def one(item):
        wave, name, b, lines = item
        tp = os.path.join(tdir, name + ".ndjson")
        write_script(os.path.join(tdir, name + ".script"), lines)
        run_script(ctx, built[b.name], lines, tp, isolate=b.mode == "terminate", stats=stats)
        return tp
    with ThreadPoolExecutor(max_workers=max(2, core.NCPU // 2)) as ex:
        traces = list(ex.map(one, scripts))
    for wave, name, b, lines in scripts:
        ctx.cov["traces_validated_against_impl"] += sum(1 for l in lines if l["op"] == "Reset")
    for pref in ("throw-14", "default-14", "throw-nd-17"):
        ss = [s for s in scripts if s[1].startswith(pref)]
        if ss:
            ctx.sample({"script": [json.dumps(x) for x in ss[0][3][:10]]})
    if stats:
        ctx.notes["driver_restarts"] = stats

    # ---- validate every trace against L1; second-wave traces are skipped once enough distinct violations are known
    cl = classify(findings)
    desync = []

    def cl2(ev, execution):
        if ev.get("res", {}).get("exc") == "desync":
            desync.append(ev)
            return "@desync"
        return cl(ev, execution)
    for wave in (0, 1):
        tp = [t for t, s in zip(traces, scripts) if s[0] == wave]
        if wave == 1 and len(set(signature(t) for _, t in ctx.violations[n_static:])) >= MAX_REPORT:
            ctx.notes["traces_not_validated"] = "%d traces of the secondary builds were not validated: %d distinct violations were already found" % (
                len(tp), MAX_REPORT)
            break
        core.validate_traces(ctx, "SpanTrace", "SpanTrace.cfg", tp, classify=cl2, max_restarts=3)
    ctx.known[:] = [k for k in ctx.known if k != "@desync"]
    if desync and not ctx.violations:
        raise MachineryError("the driver lost track of a script although every earlier event conforms to L1: %s" % json.dumps(desync[0])[:600])
    if desync:
        ctx.notes["desync_first_rejections"] = len(desync)
    dedupe_violations(ctx, keep_first=n_static)
    ctx.cov["evaluations"] += ctx.cov["events_validated"]
    ctx.log("validated %d events in %d traces (%d executions)" % (ctx.cov["events_validated"], len(traces), ctx.cov["traces_validated_against_impl"]))
    return finish(ctx, q, builds)


def finish(ctx, q, builds):
    n = 3 if q else 4
    return core.finish(
        ctx, "model_checking",
        rule="TLC: L1 (parent cells, stack of windows with extent and constness, symbolic size arguments n / SIZE_MAX-d / dynamic_extent, "
             "modes unchecked / throwing / terminate) exhaustive for parents of 0..%d cells, stacks <= 2 expanded (views of views to depth 3), "
             "5 memory kinds; the enumerated transitions (all constructors incl. const sources, make_span, C++17 deduction; member and non-member "
             "first/last/subspan with run-time and template arguments 0..n+1, SIZE_MAX-{0,1,2}, static extents 0..%d; element access incl. get<N> "
             "and structured bindings; writes through 11 paths; comparisons across extents and constness; as_bytes / as_writable_bytes) are "
             "replayed on real xtl::span objects: all of them in the no-checking build%s, seeded samples in the other builds (%d builds: mode "
             "macros x NDEBUG x C++14/17, element types int / signed char / double / 3-byte struct, -O0/-O1/-O2); TLC simulation walks; seeded "
             "random scripts (parents to 40 cells, depth 4+).  The mode of every one of the 32 macro configurations is probed on 15 checked "
             "entry points and compared with SpanMode.tla; %d type-level rows of SpanTypes.tla are compiled as static_asserts.  A case is one "
             "call whose result and the projection of memory and all views are compared by TLC, one probe entry, or one type row."
             % (n, 4 if q else 5, "" if q else " and the throwing build", len(builds), ctx.notes.get("type_table_rows", 0)),
        assumptions=["views are kept as (extent, constness, data(), size()) and re-materialised as span<T, E>(data, size) for the next call",
                     "terminate mode is observed in a child process per call: a child that ends in std::terminate or abort is the result 'terminated'",
                     "the property does not say which mode a translation unit gets that defines none or several of the mode macros: the observed "
                     "mode is compared with the documented default (terminate, or no checking under NDEBUG) as MODEL-DRIFT only, and the build is "
                     "then held to L1 in the mode it is observed to be in",
                     "builds without exception support (-fno-exceptions, TCB_SPAN_NO_EXCEPTIONS) are probed per configuration (16 entry points incl. "
                     "at(), in child processes): a verdict only where TERMINATE is requested, advisory elsewhere; the conformance drivers "
                     "themselves are not built without exceptions; pre-C++14 builds are not run",
                     "g++ builds do not issue first<0>()/last<0>() (ambiguous braced return in the header under g++ only)",
                     "span<const T>(std::array<const T, N>&) is probed but not required (absent from P0122R7 and from this tree)"],
        exhaustive=False)

"""C16 - xtl::span views cover exactly the requested sub-range; checked mode rejects bad ones.

 1. TLC: Span.tla (L1: parent cells + a stack of windows [off, len, extent]; arguments are symbolic
    mathematical integers n or SIZE_MAX-d, so the contract conditions cannot wrap) with its own
    theorems (every view inside its parent and inside the view it was taken from, ...).
 1b. TLC: SpanImpl.tla (L2, advisory): the precondition checks transcribed from xspan_impl.hpp with 5-bit
    modular index arithmetic accept exactly the calls L1 accepts, for all sizes and all argument words.
 2. S->C: TLC enumerates every (state, operation, argument) transition for parents of 0..3 (0..4)
    cells, views of views to depth 3, offsets/counts 0..n+1, SIZE_MAX-d, dynamic_extent, static and
    dynamic extents, in both modes; each is replayed on real xtl::span objects by a driver built with
    -DTCB_SPAN_NO_CONTRACT_CHECKING (out-of-contract calls are never issued) and one built with
    -DTCB_SPAN_THROW_ON_CONTRACT_VIOLATION (every bad argument must throw and change nothing).
 3. TLC simulation walks and seeded random scripts (parents up to 40 cells, depth 4, writes).
 Every recorded step (result + parent cells, guard cells, and for every view: extent, data()-base,
 size(), size_bytes(), empty(), end()-begin(), elements by operator[], forward and reverse
 iteration) is validated by TLC against SpanTrace.tla.
"""
import json, os, random, subprocess
from concurrent.futures import ThreadPoolExecutor
from vlib import core, tlaval
from vlib.core import MachineryError

PID = "C16"
HDIR = os.path.join(core.HARNESS, "span")
MODES = {"unchecked": "-DTCB_SPAN_NO_CONTRACT_CHECKING", "throwing": "-DTCB_SPAN_THROW_ON_CONTRACT_VIOLATION"}
# the same two L1 modes, requested explicitly in a release translation unit (-DNDEBUG): an explicit request must
# win over the NDEBUG default ("when contract checking is enabled every out-of-range argument is rejected")
BUILDS = {"unchecked": ["-DTCB_SPAN_NO_CONTRACT_CHECKING"], "throwing": ["-DTCB_SPAN_THROW_ON_CONTRACT_VIOLATION"],
          "throwing-ndebug": ["-DTCB_SPAN_THROW_ON_CONTRACT_VIOLATION", "-DNDEBUG"]}
MAXE = 5
OBSERVERS = {"At", "Index", "Front", "Back", "Cmp", "AsBytes", "ConstFrom"}
WRITE_PATHS = ("sub", "call", "at", "front", "back", "data", "iter", "riter")
ALL_OPS = ["FromPtrCount", "FromPtrPair", "FromArray", "FromStdArray", "FromContainer", "MakeSpan", "Default", "ConstFrom",
           "Copy", "Convert", "First", "Last", "Subspan", "Subspan1", "Nm", "FirstS", "LastS", "SubspanS",
           "Index", "At", "Front", "Back", "Write", "Cmp", "AsBytes"]


def S(n):
    return {"t": "s", "v": n}


def H(d):
    return {"t": "h", "v": d}


def gnu_compiler():
    """g++ (not clang++) cannot compile first<0>() / last<0>() (see harness/span/driver.cpp)."""
    try:
        out = subprocess.run([core.CXX, "--version"], stdout=subprocess.PIPE, stderr=subprocess.STDOUT, text=True).stdout
    except Exception:
        return True
    return "clang" not in out.lower()


def supported(ev, gnu):
    if gnu and ev["op"] in ("FirstS", "LastS") and ev["a"].get("C") == 0:
        return False
    return True


def reset_event(mode):
    return {"op": "Reset", "a": {"mode": mode}}


# ------------------------------------------------------------------ TLC -> scripts (S->C)
def emitted(out):
    res = []
    for line in out.splitlines():
        if line.startswith('"@E@'):
            res.append(json.loads(json.loads(line)[3:]))
    return res


def setup_events(pre, rnd):
    """Events that bring the driver into abstract state pre = {mk, parent, views}."""
    evs = [{"op": "Mem", "a": {"kind": pre["mk"], "cells": pre["parent"]}}]
    vs = pre["views"]
    for j, v in enumerate(vs):
        if j == 0:
            evs.append({"op": rnd.choice(["FromPtrCount", "FromPtrPair"]), "a": {"po": v["off"], "cnt": v["len"], "ext": v["ext"]}})
            continue
        p = vs[j - 1]
        o, l = v["off"] - p["off"], v["len"]
        if v["ext"] != -1:
            evs.append({"op": "SubspanS", "a": {"s": j, "O": o, "C": v["ext"]}})
        elif o == 0 and rnd.random() < 0.3:
            evs.append({"op": "First", "a": {"s": j, "c": S(l)}})
        elif o + l == p["len"] and rnd.random() < 0.4:
            if rnd.random() < 0.5:
                evs.append({"op": "Last", "a": {"s": j, "c": S(l)}})
            else:
                evs.append({"op": "Subspan1", "a": {"s": j, "o": S(o)}})
        else:
            evs.append({"op": "Subspan", "a": {"s": j, "o": S(o), "c": S(l)}})
    return evs


def edge_scripts(edges, mode, rnd, gnu, limit=None):
    by_src = {}
    for e in edges:
        if e["m"] != mode or not supported(e["l"], gnu):
            continue
        by_src.setdefault(json.dumps(e["p"], sort_keys=True), []).append(e["l"])
    total = sum(len(v) for v in by_src.values())
    keep = 1.0 if not limit or total <= limit else limit / float(total)
    lines, taken = [], 0
    for pj in sorted(by_src):
        pre = json.loads(pj)
        calls = by_src[pj]
        if keep < 1.0:
            calls = [c for c in calls if rnd.random() < keep] or calls[:1]
        # calls that leave the state alone first (observers, and in throwing mode every rejected call:
        # they are recognised after the fact by the spec, here we simply re-establish the state after
        # anything that is not an observer)
        calls.sort(key=lambda c: c["op"] not in OBSERVERS)
        lines.append(reset_event(mode))
        lines.extend(setup_events(pre, rnd))
        dirty = False
        for c in calls:
            if dirty:
                lines.extend(setup_events(pre, rnd))
            lines.append(c)
            taken += 1
            dirty = c["op"] not in OBSERVERS
    return lines, taken


def sim_scripts(simdir, gnu):
    out, n = {"unchecked": [], "throwing": []}, 0
    for fn in sorted(os.listdir(simdir)):
        states = tlaval.parse_sim_trace(os.path.join(simdir, fn))
        if len(states) < 2:
            continue
        mode = states[0]["mode"]
        lines = out[mode]
        lines.append(reset_event(mode))
        for s in states[1:]:
            ev = {"op": s["last"]["op"], "a": s["last"]["a"]}
            if not supported(ev, gnu):
                break
            lines.append(ev)
        n += 1
    return out, n


# ------------------------------------------------------------------ random scripts (C->S)
class Gen:
    """Random script generator.  Shadow state: number of cells, memory kind and (len, ext) of every
    stacked view - what is needed to stay inside the preconditions in unchecked mode and inside
    the instantiated static extents; it predicts no results."""

    def __init__(self, rnd, mode, gnu):
        self.r, self.mode, self.gnu = rnd, mode, gnu
        self.n, self.kind = 0, "heap"
        self.v = []          # [len, ext]
        self.checked = mode == "throwing"

    def ev(self, op, **a):
        return {"op": op, "a": a or {"z": 0}}

    def size_arg(self, lim, allow_bad):
        """a size argument; without allow_bad always <= lim"""
        r = self.r
        t = r.random()
        if allow_bad and t < 0.12:
            return H(r.choice([0, 1, 2, lim, lim + 1, max(lim - 1, 0), r.randrange(0, 50)]))
        if allow_bad and t < 0.25:
            return S(lim + r.choice([1, 1, 2, 7]))
        return S(r.choice([0, lim, max(lim - 1, 0), r.randrange(0, lim + 1)]))

    def push(self, s, ln, ext):
        self.v = self.v[:s] + [[ln, ext]]

    def step(self):
        r = self.r
        bad = self.checked
        for _ in range(80):
            c = r.random()
            if c < 0.05 or (not self.v and c < 0.3):
                kind = r.choice(["heap", "heap", "vector", "carray", "stdarray"])
                n = r.choice([0, 1, 2, 3, 4, 5]) if kind in ("carray", "stdarray") else r.choice([0, 1, 2, 3, 5, 8, 17, 40])
                if kind == "carray" and n == 0:
                    n = 1
                self.kind, self.n, self.v = kind, n, []
                return self.ev("Mem", kind=kind, cells=[r.randint(-99, 99) for _ in range(n)])
            if c < 0.14 or not self.v:
                t = r.randrange(6)
                n = self.n
                if t <= 1:
                    po = r.randrange(0, n + 1); cnt = r.randrange(0, n - po + 1)
                    ext = -1
                    if r.random() < 0.4:
                        ext = cnt if (cnt <= MAXE and (not bad or r.random() < 0.7)) else r.randrange(0, MAXE + 1)
                        if not bad and ext != cnt:
                            ext = -1
                    if ext == -1 or ext == cnt:
                        self.v = [[cnt, ext]]
                    return self.ev(r.choice(["FromPtrCount", "FromPtrPair"]), po=po, cnt=cnt, ext=ext)
                if t == 2 and self.kind in ("carray", "stdarray"):
                    ext = r.choice([-1, n])
                    self.v = [[n, ext]]
                    return self.ev("FromArray" if self.kind == "carray" else "FromStdArray", ext=ext)
                if t == 3 and self.kind == "vector":
                    ext = -1
                    if r.random() < 0.4:
                        ext = n if (n <= MAXE and r.random() < 0.6) else (r.randrange(0, MAXE + 1) if bad else -1)
                    if ext == -1 or ext == n:
                        self.v = [[n, ext]]
                    return self.ev("FromContainer", ext=ext)
                if t == 4 and self.kind != "heap":
                    self.v = [[n, -1 if self.kind == "vector" else n]]
                    return self.ev("MakeSpan")
                if t == 5 and r.random() < 0.3:
                    ext = r.choice([-1, 0])
                    self.v = [[0, ext]]
                    return self.ev("Default", ext=ext)
                continue
            s = r.randrange(1, len(self.v) + 1)
            if len(self.v) >= 4 and r.random() < 0.5:
                s = r.randrange(1, 4)
            ln, ext = self.v[s - 1]
            if c < 0.17 and self.kind != "heap":
                fn = r.choice(["first", "last", "subspan", "subspan1"])
                n = self.n
                o = S(0) if fn in ("first", "last") else self.size_arg(n, bad)
                rest = n - o["v"] if (o["t"] == "s" and o["v"] <= n) else 0
                cc = H(0) if fn == "subspan1" or (fn == "subspan" and r.random() < 0.2) else self.size_arg(rest if fn == "subspan" else n, bad)
                if o["t"] == "s" and o["v"] <= n:
                    if cc == H(0) and fn in ("subspan", "subspan1"):
                        self.v = [[n - o["v"], -1]]
                    elif cc["t"] == "s" and cc["v"] <= n - o["v"]:
                        self.v = [[cc["v"], -1]]
                return self.ev("Nm", fn=fn, o=o, c=cc)
            if c < 0.20:
                how = r.choice(["span", "make_span"] + (["stdarray", "make_stdarray"] if self.kind == "stdarray" else []) + (["container", "make_container"] if self.kind == "vector" else []))
                if how.startswith("make_"):
                    return self.ev("ConstFrom", how=how, s=s if how == "make_span" else 0, ext=-1)
                if how == "span":
                    return self.ev("ConstFrom", how=how, s=s, ext=r.choice([-1, ext]))
                if how == "stdarray":
                    return self.ev("ConstFrom", how=how, s=0, ext=r.choice([-1, self.n]))
                e = -1
                if r.random() < 0.4:
                    e = self.n if self.n <= MAXE else -1
                    if bad and r.random() < 0.4:
                        e = r.randrange(0, MAXE + 1)
                return self.ev("ConstFrom", how=how, s=0, ext=e)
            if c < 0.25:
                if r.random() < 0.5:
                    self.push(s, ln, ext)
                    return self.ev("Copy", s=s, how=r.choice(["ctor", "assign"]))
                e = r.choice([-1, ext])
                self.push(s, ln, e)
                return self.ev("Convert", s=s, ext=e)
            if c < 0.50:
                t = r.randrange(4)
                if t == 0 or t == 1:
                    a = self.size_arg(ln, bad)
                    if a["t"] == "s" and a["v"] <= ln:
                        self.push(s, a["v"], -1)
                    return self.ev("First" if t == 0 else "Last", s=s, c=a)
                if t == 2:
                    o = self.size_arg(ln, bad)
                    if o["t"] == "s" and o["v"] <= ln:
                        self.push(s, ln - o["v"], -1)
                    return self.ev("Subspan1", s=s, o=o)
                o = self.size_arg(ln, bad)
                rest = ln - o["v"] if (o["t"] == "s" and o["v"] <= ln) else 0
                cc = H(0) if r.random() < 0.2 else self.size_arg(rest, bad)
                if bad and r.random() < 0.15:
                    # the pairs whose sum wraps modulo 2^64
                    k = r.randrange(0, ln + 2)
                    o, cc = S(k), H(max(k - 1 - r.randrange(0, 2), 0))
                if o["t"] == "s" and o["v"] <= ln:
                    if cc == H(0):
                        self.push(s, ln - o["v"], -1)
                    elif cc["t"] == "s" and cc["v"] <= ln - o["v"]:
                        self.push(s, cc["v"], -1)
                return self.ev("Subspan", s=s, o=o, c=cc)
            if c < 0.64:
                t = r.randrange(3)
                lo = 1 if self.gnu else 0
                if t <= 1:
                    hi = MAXE if bad else min(MAXE, ln)
                    if hi < lo:
                        continue
                    C = r.choice([lo, hi, r.randrange(lo, hi + 1), min(ln, MAXE) if min(ln, MAXE) >= lo else lo])
                    if C <= ln:
                        self.push(s, C, C)
                    return self.ev("FirstS" if t == 0 else "LastS", s=s, C=C)
                O = r.randrange(0, MAXE + 2) if bad else r.randrange(0, min(ln, MAXE + 1) + 1)
                C = r.choice([-1, -1] + list(range(0, MAXE + 1))) if bad else r.choice([-1] + list(range(0, min(MAXE, max(ln - O, 0)) + 1)))
                rext = C if C != -1 else (ext - O if ext != -1 else -1)
                if rext < -1 or rext > MAXE:
                    continue
                ok = O <= ln and (C == -1 or C <= ln - O)
                if not ok and not bad:
                    continue
                if ok:
                    self.push(s, (ln - O) if C == -1 else C, rext)
                return self.ev("SubspanS", s=s, O=O, C=C)
            if c < 0.76:
                t = r.randrange(4)
                if t == 0:
                    return self.ev("At", s=s, i=self.size_arg(ln, True))
                if t == 1:
                    how = r.choice(["sub", "call", "get"])
                    if how == "get":
                        hi = MAXE if bad else min(MAXE, ln - 1)
                        if hi < 0:
                            continue
                        return self.ev("Index", s=s, how=how, i=S(r.randrange(0, hi + 1)))
                    if bad:
                        return self.ev("Index", s=s, how=how, i=self.size_arg(ln, True))
                    if ln == 0:
                        continue
                    return self.ev("Index", s=s, how=how, i=S(r.randrange(ln)))
                if ln == 0 and not bad:
                    continue
                return self.ev("Front" if t == 2 else "Back", s=s)
            if c < 0.90:
                if ln == 0:
                    continue
                path = r.choice(WRITE_PATHS)
                i = 0 if path == "front" else ln - 1 if path == "back" else r.choice([0, ln - 1, r.randrange(ln)])
                return self.ev("Write", s=s, path=path, i=i, x=r.randint(-99, 99))
            if c < 0.96:
                return self.ev("Cmp", s=s, t=r.randrange(1, len(self.v) + 1))
            return self.ev("AsBytes", s=s, w=r.randrange(2))
        self.kind, self.n, self.v = "heap", 0, []
        return self.ev("Mem", kind="heap", cells=[])


def random_script(seed, mode, gnu, nexec, nops):
    rnd = random.Random("%d/%s" % (seed, mode))
    lines = []
    for _ in range(nexec):
        g = Gen(rnd, mode, gnu)
        lines.append(reset_event(mode))
        for _ in range(nops):
            lines.append(g.step())
    return lines


def write_script(path, lines):
    with open(path, "w") as f:
        for l in lines:
            f.write(json.dumps(l, separators=(",", ":")) + "\n")


def chunk_by_reset(lines, nchunks):
    starts = [i for i, l in enumerate(lines) if l["op"] == "Reset"]
    if not starts:
        return [lines]
    per = max(1, (len(starts) + nchunks - 1) // nchunks)
    cuts = starts[::per]
    return [lines[a:b] for a, b in zip(cuts, cuts[1:] + [len(lines)])]


def run_script(ctx, drv, script_path, trace_path):
    env = dict(os.environ); env.update(core.ASAN_ENV)
    with open(script_path) as fin, open(trace_path, "w") as fout:
        p = subprocess.run([drv], stdin=fin, stdout=fout, stderr=subprocess.PIPE, env=env, timeout=1800)
    if p.returncode == 3:
        # The driver could not follow the script any further ("no such view"): either the script is wrong, or an
        # earlier call did not do what L1 says (e.g. a valid subspan threw, so the view it should have pushed does
        # not exist).  The trace ends with a Desync event, which no spec action matches; validation then rejects
        # the earlier, real deviation first.  A Desync that is itself the first rejection is a machinery error.
        with open(trace_path, "a") as fout:
            fout.write(json.dumps({"op": "Desync", "a": {"why": p.stderr.decode()[-300:]}}) + "\n")


def build_drivers(ctx, modes):
    jobs = [{"src": os.path.join(HDIR, "driver.cpp"), "out": os.path.join(ctx.work, "span_driver_" + m), "flags": BUILDS[m]} for m in modes]
    core.build_many(ctx, jobs)
    return {m: os.path.join(ctx.work, "span_driver_" + m) for m in modes}


def classify(findings):
    def f(ev, execution):
        for k in findings:
            m = k.get("match", {})
            if m and all(ev.get(x) == y or ev.get("a", {}).get(x) == y for x, y in m.items()):
                return "%s (%s)" % (k["key"], k["what"])
        return None
    return f


def dedupe_violations(ctx):
    """The same failing call is usually met from many source states: report it once."""
    import re
    seen, keep = set(), []
    for path, text in ctx.violations:
        m = re.search(r'\{"op":"(\w+)".*?"a":(\{.*?\}),"res"', text)
        sig = (m.group(1), m.group(2)) if m else text[:200]
        if sig in seen:
            try:
                os.remove(path)
            except OSError:
                pass
            continue
        seen.add(sig)
        keep.append((path, text))
    ctx.notes["rejections_total"] = len(ctx.violations)
    ctx.violations[:] = keep


def replay(ctx, path):
    """./verif replay C16 <file>: re-run the recorded calls on the current tree and validate."""
    lines = [l for l in core.read_ndjson(path) if "_meta" not in l]
    rs = next((l for l in lines if l["op"] == "Reset"), None)
    if rs is None:
        raise MachineryError("replay file has no Reset event: %s" % path)
    mode = rs["a"]["mode"]
    drv = build_drivers(ctx, [mode])[mode]
    sp, tp = os.path.join(ctx.work, "replay.script"), os.path.join(ctx.work, "replay.ndjson")
    write_script(sp, lines)
    run_script(ctx, drv, sp, tp)
    r = core.validate_trace(ctx, "SpanTrace", "SpanTrace.cfg", tp)
    if r["accepted"]:
        print("replay accepted: the recorded calls now conform to Span.tla")
        return 0
    print("VIOLATION property=C16 replay=%s" % path)
    print("  rejected at event %d; spec expected: %s" % (r["fail_line"] + 1, r.get("expected")))
    return 1


def selftest(ctx):
    """./verif selftest C16: a recorded trace is accepted; with one corrupted field it is rejected at exactly
    that event; with one event removed at the first event that no longer fits."""
    gnu = gnu_compiler()
    drivers = build_drivers(ctx, list(MODES))
    ok = True
    for mode in MODES:
        lines = random_script(ctx.seed, mode, gnu, 1, 400)
        sp, tp = os.path.join(ctx.work, "st-%s.script" % mode), os.path.join(ctx.work, "st-%s.ndjson" % mode)
        write_script(sp, lines)
        run_script(ctx, drivers[mode], sp, tp)
        r = core.validate_trace(ctx, "SpanTrace", "SpanTrace.cfg", tp, explain=False)
        print("selftest %s: recorded trace of %d events accepted: %s" % (mode, r["total"], r["accepted"]))
        ok = ok and r["accepted"]
        rec = [json.loads(l) for l in open(tp) if l.strip()]
        k = 200
        for what in ("off", "elem", "res", "drop"):
            mod = json.loads(json.dumps(rec))
            if what == "off":
                cand = [i for i in range(k, len(mod)) if mod[i]["st"]["views"]]
                expect = cand[0]
                mod[expect]["st"]["views"][-1]["off"] += 1
            elif what == "elem":
                cand = [i for i in range(k, len(mod)) if mod[i]["st"]["mem"]]
                expect = cand[0]
                mod[expect]["st"]["mem"][-1] += 1
            elif what == "res":
                cand = [i for i in range(k, len(mod)) if mod[i]["op"] == "At"]
                expect = cand[0]
                mod[expect]["res"] = {"exc": "none", "val": [0]} if mod[expect]["res"]["exc"] != "none" else {"exc": "out_of_range", "val": []}
            else:
                cand = [i for i in range(k, len(mod) - 1) if mod[i]["op"] == "Write" and mod[i]["st"] != mod[i - 1]["st"] and mod[i + 1]["op"] in OBSERVERS]
                expect = cand[0]
                del mod[expect]
            cp = os.path.join(ctx.work, "st-%s-%s.ndjson" % (mode, what))
            write_script(cp, mod)
            rr = core.validate_trace(ctx, "SpanTrace", "SpanTrace.cfg", cp, explain=False)
            fl = rr.get("fail_line")
            good = (not rr["accepted"]) and (fl == expect if what != "drop" else fl is not None and fl >= expect)
            print("selftest %s: corruption '%s' at event %d -> rejected at event %s: %s" % (mode, what, expect + 1, None if fl is None else fl + 1, "ok" if good else "UNEXPECTED"))
            ok = ok and good
    return 0 if ok else 2


def run(ctx):
    q = ctx.quick
    findings = core.load_findings(PID)
    rnd = random.Random(ctx.seed)
    gnu = gnu_compiler()

    # ---- 1. L1 model checking (the spec's own theorems), both modes
    r = core.tlc_model_check(ctx, "SpanMC", "Span_mc.cfg" if q else "Span_mc_thorough.cfg",
                             "L1 invariants (views inside parent and inside their source view) and laws", coverage=not q)
    if r["violated"]:
        raise MachineryError("L1 spec Span.tla violates its own theorem %s (oracle bug), see %s" % (r["violated"], r["outfile"]))
    if not q:
        ctx.notes["l1_action_coverage"] = {k: v for k, v in r.get("coverage", {}).items()}
        ctx.notes["vacuous_actions"] = sorted(k for k, v in r.get("coverage", {}).items() if v[1] == 0 and k[0].isupper())

    # ---- 1b. L2: the run-time checks transcribed with W-bit modular arithmetic accept exactly what L1 accepts (advisory)
    r2 = core.tlc_model_check(ctx, "SpanImpl", "SpanImpl_mc.cfg", "L2 (checks of first/last/subspan/[]/at in 5-bit modular arithmetic, "
                              "all sizes x all argument words) agrees with the L1 contract")
    if r2["violated"]:
        ctx.drift.append("SpanImpl.tla does not agree with Span.tla (%s); see %s" % (r2["violated"], r2["outfile"]))

    # ---- build the drivers from the include tree under test (two modes + the explicit request in a release TU)
    drivers = build_drivers(ctx, list(BUILDS))
    if gnu:
        ctx.notes["compiler_note"] = "g++ cannot compile first<0>()/last<0>() ({data(), 0} is ambiguous); these two calls are not issued"

    scripts = []   # (name, mode, lines)

    # ---- 2. S->C: every L1 transition in both modes
    for mode in MODES:
        cfg = "Span_s2c_%s%s.cfg" % (mode, "" if q else "_thorough")
        r3 = core.tlc(ctx, "SpanMC", cfg, name="s2c-enumerate-" + cfg[:-4], heap="8g", timeout=1500)
        if r3["violated"]:
            raise MachineryError("s2c enumeration failed: %s" % r3["outfile"])
        edges = emitted(r3["out"])
        r3["out"] = ""
        per_op = {}
        for e in edges:
            per_op[e["l"]["op"]] = per_op.get(e["l"]["op"], 0) + 1
        ctx.notes["s2c_transitions_per_action_" + mode] = per_op
        ctx.notes["actions_never_enumerated_" + mode] = sorted(set(ALL_OPS) - set(per_op))
        lines, taken = edge_scripts(edges, mode, rnd, gnu, limit=None)
        ctx.log("S->C %s: %d L1 transitions enumerated by TLC, %d replayed (%d script events)" % (mode, len(edges), taken, len(lines)))
        ctx.notes["s2c_transitions_enumerated_" + mode] = len(edges)
        ctx.notes["s2c_transitions_replayed_" + mode] = taken
        for i, ch in enumerate(chunk_by_reset(lines, (2 if mode == "unchecked" else 6) if q else 8)):
            scripts.append(("s2c-%s-%02d" % (mode, i), mode, ch))

    # ---- 2b. TLC simulation walks (writes, deeper stacks, 5 cells)
    simdir = ctx.sub("sim")
    nsim = 200 if q else 2000
    core.tlc(ctx, "SpanMC", "Span_sim.cfg", name="s2c-simulate",
             simulate="file=%s/t,num=%d" % (simdir, nsim), extra=["-depth", "40", "-seed", str(ctx.seed)], workers=4)
    per_mode, nwalks = sim_scripts(simdir, gnu)
    ctx.notes["s2c_simulation_walks"] = nwalks
    for mode, lines in per_mode.items():
        if lines:
            scripts.append(("sim-" + mode, mode, lines))

    # ---- 3. random scripts
    for mode in MODES:
        nexec, nops = (150, 60) if q else (1500, 80)
        lines = random_script(ctx.seed, mode, gnu, nexec, nops)
        for i, ch in enumerate(chunk_by_reset(lines, 1 if q else 6)):
            scripts.append(("rnd-%s-%d" % (mode, i), mode, ch))

    # ---- the throwing scripts again on the -DNDEBUG build (random scripts, simulation walks, first S->C chunk)
    for name, mode, lines in list(scripts):
        if mode == "throwing" and (name.startswith("rnd-") or name.startswith("sim-") or name == "s2c-throwing-00"):
            scripts.append((name + "-ndebug", "throwing-ndebug", lines))

    # ---- probes for open known findings
    for fnd in findings:
        if "probe" in fnd:
            scripts.append(("probe-" + fnd["id"], fnd["probe"]["mode"], fnd["probe"]["script"]))

    # ---- run the harness
    tdir = ctx.sub("traces")

    def one(item):
        name, mode, lines = item
        sp = os.path.join(tdir, name + ".script")
        tp = os.path.join(tdir, name + ".ndjson")
        write_script(sp, lines)
        run_script(ctx, drivers[mode], sp, tp)
        return tp
    with ThreadPoolExecutor(max_workers=max(2, core.NCPU // 2)) as ex:
        traces = list(ex.map(one, scripts))
    for name, mode, lines in scripts:
        ctx.cov["traces_validated_against_impl"] += sum(1 for l in lines if l["op"] == "Reset")
    for pref in ("s2c-throwing", "rnd-throwing", "rnd-unchecked"):
        ss = [s for s in scripts if s[0].startswith(pref)]
        if ss:
            ctx.sample({"script": [json.dumps(x) for x in ss[0][2][:10]]})

    # ---- validate every trace against L1
    cl = classify(findings)
    desync = []

    def cl2(ev, execution):
        if ev.get("op") == "Desync":
            desync.append(ev)
            return "@desync"
        return cl(ev, execution)
    core.validate_traces(ctx, "SpanTrace", "SpanTrace.cfg", traces, classify=cl2)
    ctx.known[:] = [k for k in ctx.known if k != "@desync"]
    if desync and not ctx.violations:
        raise MachineryError("the driver lost track of a script although every earlier event conforms to L1: %s" % desync[0])
    dedupe_violations(ctx)
    ctx.cov["evaluations"] = ctx.cov["events_validated"]
    ctx.log("validated %d events in %d traces (%d executions)" % (ctx.cov["events_validated"], len(traces), ctx.cov["traces_validated_against_impl"]))

    n = 3 if q else 4
    return core.finish(
        ctx, "model_checking",
        rule="TLC: L1 (parent cells, stack of windows, symbolic size arguments n / SIZE_MAX-d / dynamic_extent) exhaustive for "
             "parents of 0..%d cells, stacks <= 2 expanded (views of views to depth 3), 4 memory kinds, both modes; every such "
             "transition (all constructors, first/last/subspan with run-time and template arguments 0..n+1, SIZE_MAX-{0,1,2}, "
             "static extents 0..%d, element access, writes, comparisons, as_bytes) replayed on real xtl::span objects in the "
             "unchecked and the throwing build; TLC simulation walks; seeded random scripts (parents to 40 cells, depth 4+).  A "
             "case is one call whose result and the projection of memory and all views are compared by TLC." % (n, 4 if q else 5),
        assumptions=["views are kept as (extent, data(), size()) and re-materialised as span<int, E>(data, size) for the next call",
                     "TCB_SPAN_TERMINATE_ON_CONTRACT_VIOLATION (the default without NDEBUG) is not run: a violation there is std::terminate",
                     "the template forms of the non-member first/last/subspan, structured bindings and element types other than int are not modelled",
                     "g++ builds do not issue first<0>()/last<0>() (ambiguous braced return in the header under g++ only)"],
        exhaustive=False)

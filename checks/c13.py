"""C13 - base64 round-trips every byte string, matches RFC 4648, and is safe on any input.

 1. TLC: Base64.tla (L1: Encode, DecodePrefix, each defined twice) - laws, RFC 4648 vectors, round trip,
    on every string of a finite universe (each string one TLC state).
 2. TLC: Base64Impl.tla (L2: the code's two bit accumulators as a state machine) computes the L1 functions
    for every short input over boundary bytes / hostile characters; table index always inside the table.
 3. C->S: the real base64encode/base64decode (built with -fsanitize=address,bounds
    -fno-sanitize-recover=bounds) run on  (a) every byte string of length <= 2,  (b) seeded random strings,
    (c) hostile decode texts over 0..255, (d) long inputs (to 20 000 bytes: the int accumulators wrap);
    TLC evaluates L1 on every recorded case (Base64Check.tla).  The random / hostile / long families are run in
    several builds of the driver (g++ -O1, g++ -O2 -funsigned-char, clang++ -O2; g++ -O0 -fsigned-char in the thorough tier).
 A driver that dies, hangs (per-line CPU limit) or does not build against the tree ends in a VIOLATION, not in a
 machinery error, whenever the property's functions are at fault (vlib/tables.py).
"""
import os, random, re, json
from concurrent.futures import ThreadPoolExecutor
from vlib import core, tables
from vlib.core import MachineryError

ALPHA = [ord(c) for c in "ABCDEFGHIJKLMNOPQRSTUVWXYZabcdefghijklmnopqrstuvwxyz0123456789+/"]
HOSTILE = [61, 32, 10, 13, 9, 0, 45, 95, 46, 44, 64, 91, 96, 123, 42, 58, 127, 128, 129, 0xBF, 0xC0, 0xC1, 0xE9, 0xFE, 0xFF]
BOUNDARY32 = [0, 1, 2, 3, 4, 15, 16, 31, 32, 47, 48, 62, 63, 64, 65, 95, 96, 126, 127, 128, 129, 159, 160, 191, 192, 193,
              223, 224, 251, 252, 254, 255]
# _GLIBCXX_ASSERTIONS: std::string::operator[] and friends abort on an index outside [0, size()] - an observer for "never indexes
# outside ... the input" that also works where the bytes around a short (small-string) argument are the string object's own fields
FLAGS = ["-fsanitize=bounds", "-fno-sanitize-recover=bounds", "-D_GLIBCXX_ASSERTIONS"]
PER_LINE = 64
# build flavours (configuration axes: compiler, optimisation level, signedness of plain char); all with ASan + bounds
FLAVOURS = {"asan": tables.Flavour("asan"),
            "O2u": tables.Flavour("O2u", flags=["-O2", "-funsigned-char"]),
            "clangO2": tables.Flavour("clangO2", cxx="clang++", flags=["-O2"]),
            "O0s": tables.Flavour("O0s", flags=["-O0", "-fsigned-char"])}
SECONDARY_FAMILIES = ("rnd-enc", "hostile-dec", "long-enc", "long-dec", "exh3q-enc", "upstream-enc", "upstream-dec", "es3-small", "ds3-small", "shrunk", "pad-dec", "gen-R", "gen-X")
SECONDARY_ONLY = ("exh3q-enc", "es3-small", "ds3-small")      # subsumed by the full sweeps in the default build
# round 3: stratified decoder alphabet - the ends of the three alphabet ranges, '+', '/', '=', their neighbours in the code table
# ('@' '[' '`' '{' ':' '*' ','), the URL-safe '-' '_', NUL, DEL, 0x80, 0xFF, white space, and two bytes that are alphabet
# characters modulo 128 (0xC1 = 'A' + 128, 0xFA = 'z' + 128)
STRAT28 = [65, 90, 97, 122, 48, 57, 43, 47, 61, 64, 91, 96, 123, 58, 45, 95, 0, 127, 128, 255, 32, 10, 9, 13, 0xC1, 0xFA, 42, 44]
BOUNDARY8 = [0, 1, 63, 127, 128, 192, 254, 255]
BOUNDARY16 = [0, 1, 62, 63, 64, 127, 128, 129, 191, 192, 193, 223, 251, 252, 254, 255]


def src():
    return os.path.join(core.HARNESS, "base64", "driver.cpp")


def rbytes(rnd, n):
    t = rnd.random()
    if t < 0.15:
        return [rnd.choice(BOUNDARY32) for _ in range(n)]
    if t < 0.25:
        return [rnd.randrange(128, 256) for _ in range(n)]
    return [rnd.randrange(256) for _ in range(n)]


def py_encode_text(rnd, n):
    """n random alphabet characters (not an oracle: just text made of alphabet characters)"""
    return [rnd.choice(ALPHA) for _ in range(n)]


def hostile_text(rnd):
    t = rnd.random()
    if t < 0.45:      # alphabet run, one hostile character, then anything
        run = py_encode_text(rnd, rnd.choice([0, 1, 2, 3, 4, 5, 6, 7, 8, 9, 12, 13, 16, 21, rnd.randrange(0, 40)]))
        h = rnd.choice(HOSTILE) if rnd.random() < 0.8 else rnd.choice([c for c in range(256) if c not in ALPHA])
        tail_n = rnd.choice([0, 1, 2, 3, 4, 8])
        tail = py_encode_text(rnd, tail_n) if rnd.random() < 0.6 else [rnd.randrange(256) for _ in range(tail_n)]
        return run + [h] + tail
    if t < 0.60:      # arbitrary bytes
        return [rnd.randrange(256) for _ in range(rnd.randrange(0, 24))]
    if t < 0.75:      # only alphabet characters, every length residue (truncated groups), long runs
        return py_encode_text(rnd, rnd.choice([1, 2, 3, 4, 5, 6, 7, 8, 9, 10, 11, 17, 33, 64, 99, 100, 101, rnd.randrange(0, 200)]))
    if t < 0.90:      # padding in odd places
        run = py_encode_text(rnd, rnd.randrange(0, 12))
        return run + [61] * rnd.randrange(1, 4) + py_encode_text(rnd, rnd.randrange(0, 5)) + [61] * rnd.randrange(0, 3)
    # high bytes that look like alphabet characters modulo 128 / 256 - sign extension bait
    run = py_encode_text(rnd, rnd.randrange(0, 8))
    return run + [rnd.choice(ALPHA) + 128] + py_encode_text(rnd, rnd.randrange(0, 6))


def pack(op, cases, per=PER_LINE, **more):
    return [dict({"op": op, "c": cases[i:i + per]}, **more) for i in range(0, len(cases), per)]


def sweeps(op, pos, others, per=32):
    """sweep lines: every case is a string of length len(others[0]) + 1 whose element at position pos (1-based) runs over 0..255
    in the harness; others = the remaining elements in order"""
    return pack(op, [list(o[:pos - 1]) + [0] + list(o[pos - 1:]) for o in others], per=per, pos=pos)


def split(lines, n):
    k = max(1, (len(lines) + n - 1) // n)
    return [lines[i:i + k] for i in range(0, len(lines), k)]


def scripts(ctx):
    q = ctx.quick
    rnd = random.Random(ctx.seed * 7919 + 13)
    out = {}
    # (a) exhaustive: every byte string of length <= 2, for encode/round trip and as decode text
    ex = [[]] + [[a] for a in range(256)] + [[a, b] for a in range(256) for b in range(256)]
    out["exh-enc"] = pack("E", ex)
    out["exh-dec"] = pack("D", ex)
    # every string of length 3 (one complete 24-bit group) over 16 boundary bytes; 32 in the thorough tier
    out["exh3q-enc"] = pack("E", [[a, b, c] for a in BOUNDARY16 for b in BOUNDARY16 for c in BOUNDARY16])
    if not q:
        ex3 = [[a, b, c] for a in BOUNDARY32 for b in BOUNDARY32 for c in BOUNDARY32]
        out["exh3-enc"] = pack("E", ex3)
        # decode: every text of length 3 and 4 over 8 alphabet + 8 hostile characters
        dch = [65, 66, 47, 43, 122, 57, 48, 97, 61, 32, 0, 10, 128, 0xC1, 0xFF, 45]
        ex3d = [[a, b, c] for a in dch for b in dch for c in dch] + \
               [[a, b, c, d] for a in dch for b in dch for c in dch for d in dch]
        out["exh34-dec"] = pack("D", ex3d)
    # ---- round 3: sweeps (one case = 256 strings, see harness/base64/driver.cpp)
    # encoder + round trip: EVERY byte string of length 3 in the thorough tier (256^3 = 16 777 216 strings: all (a, b) x the
    # third byte swept); quick: third byte swept for 32 x 32 boundary bytes, first / second byte swept for 8 x 8
    allpairs = [(a, b) for a in range(256) for b in range(256)]
    if q:
        out["es3"] = sweeps("ES", 3, [(a, b) for a in BOUNDARY32 for b in BOUNDARY32]) + \
                     sweeps("ES", 1, [(a, b) for a in BOUNDARY8 for b in BOUNDARY8]) + sweeps("ES", 2, [(a, b) for a in BOUNDARY8 for b in BOUNDARY8])
    else:
        out["es3"] = sweeps("ES", 3, allpairs) + sweeps("ES", 1, [()]) + sweeps("ES", 1, [(b,) for b in range(256)])
    out["es3-small"] = sweeps("ES", 3, [(a, b) for a in BOUNDARY16 for b in BOUNDARY16])
    # decoder: EVERY text of length 3 over all 256 character values in the thorough tier; quick: the third character swept
    # for 28 x 28 stratified characters, the first / second for 12 x 12
    if q:
        out["ds3"] = sweeps("DS", 3, [(a, b) for a in STRAT28 for b in STRAT28]) + \
                     sweeps("DS", 1, [(a, b) for a in STRAT28[:12] for b in STRAT28[:12]]) + sweeps("DS", 2, [(a, b) for a in STRAT28[:12] for b in STRAT28[:12]])
    else:
        out["ds3"] = sweeps("DS", 3, allpairs) + sweeps("DS", 1, [()]) + sweeps("DS", 1, [(b,) for b in range(256)])
    out["ds3-small"] = sweeps("DS", 3, [(a, b) for a in STRAT28[:12] for b in STRAT28[:12]]) + sweeps("DS", 2, [(65, 66, 67, c) for c in STRAT28[:12]])
    # decoder texts of length 4 and 5 over the stratified alphabet: all 16^4 + 8^5 (thorough: 28^4 + 12^5), and with one
    # position swept over all 256 values: length 4 over 4 (thorough 8) characters, length 5 over 3 (thorough 5)
    a4, a5 = (STRAT28[:16], STRAT28[:8]) if q else (STRAT28, STRAT28[:12])
    out["strat45-dec"] = pack("D", [[a, b, c, d] for a in a4 for b in a4 for c in a4 for d in a4] +
                              [[a, b, c, d, e] for a in a5 for b in a5 for c in a5 for d in a5 for e in a5])
    fix = [65, 47, 61, 128, 122, 43, 0, 95]            # 'A' '/' '=' 0x80 'z' '+' NUL '_'
    s4, s5 = (fix[:4], fix[:3]) if q else (fix, fix[:5])
    ds45 = []
    for pos in (1, 2, 3, 4):
        ds45 += sweeps("DS", pos, [(a, b, c) for a in s4 for b in s4 for c in s4])
    for pos in (1, 2, 3, 4, 5):
        ds45 += sweeps("DS", pos, [(a, b, c, d) for a in s5 for b in s5 for c in s5 for d in s5])
    out["ds45"] = ds45
    # (b) seeded random byte strings, length 0..64 (a few longer: the int accumulator wraps)
    nrand = 20000 if q else 300000
    rc = []
    for _ in range(nrand):
        n = rnd.randrange(0, 65) if rnd.random() < 0.97 else rnd.randrange(65, 400)
        rc.append(rbytes(rnd, n))
    out["rnd-enc"] = pack("E", rc)
    # (c) hostile decode texts
    nh = 20000 if q else 300000
    out["hostile-dec"] = pack("D", [hostile_text(rnd) for _ in range(nh)])
    # (u) the upstream test's own vectors (test/test_xbase64.cpp: the prefixes of "foobar"), both directions
    fb = [list(b"foobar"[:k]) for k in range(7)]
    out["upstream-enc"] = pack("E", fb)
    out["upstream-dec"] = pack("D", [list(x) for x in (b"", b"Zg==", b"Zm8=", b"Zm9v", b"Zm9vYg==", b"Zm9vYmE=", b"Zm9vYmFy")])
    # (d) long inputs: every length residue, lengths around powers of two, up to 20 000 bytes; the int accumulators of
    #     both functions wrap from the 4th byte / 6th character on.  Long decode texts: a long alphabet run, optionally
    #     ended by a hostile character somewhere and continued
    lens = [401, 402, 403, 511, 512, 513, 1023, 1024, 1025, 1026, 4095, 4096, 4097, 20000] + \
           [rnd.randrange(400, 3000) for _ in range(40 if q else 600)] + [rnd.randrange(3000, 20001) for _ in range(4 if q else 40)]
    out["long-enc"] = pack("E", [rbytes(rnd, n) for n in lens], per=4)
    ld = []
    for n in lens:
        t = py_encode_text(rnd, n)
        if rnd.random() < 0.5:
            k = rnd.randrange(0, n)
            t[k] = rnd.choice(HOSTILE)
            if rnd.random() < 0.5:
                t[k + 1:] = [rnd.randrange(256) for _ in range(n - k - 1)]
        ld.append(t)
    out["long-dec"] = pack("D", ld, per=4)
    # round 3, arguments with history: strings whose capacity exceeds their size (a longer string shrunk / reserve + assign); the
    # slack behind the terminator is poisoned under ASan.  A slice of the random and hostile families and every length <= 1 string
    sh = [dict(l, arg=1) for l in out["rnd-enc"][:len(out["rnd-enc"]) // (8 if q else 4)] + out["hostile-dec"][:len(out["hostile-dec"]) // (8 if q else 4)]]
    sh += pack("E", [[]] + [[a] for a in range(256)], arg=1) + pack("D", [[]] + [[a] for a in range(256)], arg=1)
    sh += [dict(l, arg=1) for l in out["es3-small"][:2] + out["ds3-small"][:2] + out["long-enc"][:3] + out["long-dec"][:3]]
    out["shrunk"] = sh
    # round 3 (after the seeded change C13-decode-strips-padding-unbounded, which walked backwards over trailing '=' without a
    # lower bound): texts that are empty / nothing but padding / padding behind or before a short alphabet run, every length
    # 0..40, white space and NUL runs likewise; each once as an exact-size argument (small-string buffer up to 15 characters, exact
    # heap block above) and once as a heap buffer with spare capacity ("arg":1 - then even the empty text lives in a heap block,
    # whose left redzone is directly in front of data())
    pd = []
    for n in range(0, 41):
        pd.append([61] * n)
        for k in (1, 2, 3, 4, 5):
            run = py_encode_text(rnd, k)
            pd.append(run + [61] * n)
            pd.append([61] * n + run)
        pd.append([32] * n)
        pd.append([0] * n)
        pd.append([61] * n + [10])
    out["pad-dec"] = pack("D", pd) + pack("D", pd, arg=1) + pack("E", [[61] * n for n in range(0, 41)], arg=1)
    return out


# round 4: shape classes of Base64Gen.tla that TLC must have produced (a class that is never met is a machinery error)
GEN_SHAPES = ("empty", "all-padding", "whole-groups", "length-not-multiple-of-4", "padding-in-the-middle", "canonical-padded",
              "non-canonical-padding", "padding-then-other", "stops-at-blank", "stops-at-high")
L2_CLASSES = ("empty", "all-padding", "ends-in-padding", "all-alphabet", "other")


def gen_families(ctx, r):
    """Script families from the cases TLC enumerated (Base64Gen.tla: one "@E@" line per state) -> {family: lines}; fills the notes
    with the measured class counts."""
    cases = [json.loads(json.loads(l)[3:]) for l in r["out"].splitlines() if l.startswith('"@E@')]
    if len(cases) != r["distinct"]:
        raise MachineryError("Base64Gen: %d cases written for %d states, see %s" % (len(cases), r["distinct"], r["outfile"]))
    rs = [c for c in cases if c["op"] == "R"]
    xs = [c for c in cases if c["op"] == "X"]
    shapes, stops, xsh = {}, {}, {}
    for c in rs:
        shapes[c["cls"]] = shapes.get(c["cls"], 0) + 1
        if c["stop"] <= c["len"]:
            k = "%d/%d" % (c["stop"], c["len"])       # position of the first character outside the alphabet / length of the text
            stops[k] = stops.get(k, 0) + 1
    for c in xs:
        k = "%d,%d" % tuple(c["cls"])
        xsh[k] = xsh.get(k, 0) + 1
    missing = [k for k in GEN_SHAPES if not shapes.get(k)] + ["X %d,%d" % (i, j) for i in range(3) for j in range(3) if not xsh.get("%d,%d" % (i, j))]
    maxlen = max(c["len"] for c in rs)
    missing += ["stop %d/%d" % (i, n) for n in range(1, maxlen + 1) for i in range(1, n + 1) if not stops.get("%d/%d" % (i, n))]
    if missing:
        raise MachineryError("Base64Gen.tla did not produce the classes %s, see %s" % (missing, r["outfile"]))
    ctx.notes["gen_text_shapes"] = shapes
    ctx.notes["gen_stop_position_by_length"] = stops
    ctx.notes["gen_concat_shapes_lenmod3"] = xsh
    rc = sorted((c["t"] for c in rs), key=lambda t: (len(t), t))
    xc = sorted(([c["a"], c["b"]] for c in xs), key=lambda t: (len(t[0]) + len(t[1]), t))
    return {"gen-R": pack("R", rc) + pack("R", rc, arg=1), "gen-X": pack("X", xc) + pack("X", xc, arg=1)}


def l2_classes(ctx, r, what):
    """the decoder-argument classes TLC counted in a Base64Impl run (lines <<"@CLASS@", class, n>>)"""
    got = {m.group(1): int(m.group(2)) for m in re.finditer(r'<<"@CLASS@", "([a-z-]+)", (\d+)>>', r["out"])}
    missing = [k for k in L2_CLASSES if not got.get(k)]
    if missing:
        raise MachineryError("Base64Impl (%s): no decoder argument of class %s in the universe, see %s" % (what, missing, r["outfile"]))
    return got


def build(ctx, flavour="asan"):
    """-> path of the driver built in that flavour, or None after a VIOLATION (the property's functions cannot be called)"""
    fl = FLAVOURS[flavour or "asan"]
    return tables.build_driver(ctx, "C13", src(), os.path.join(ctx.work, "base64_driver_" + fl.name),
                               os.path.join(core.HARNESS, "base64", "api_probe.cpp"), flags=FLAGS, flavour=fl)


def describe(line):
    if line["op"] == "R":
        return "base64encode(base64decode(%s))%s" % (line["c"][0], " [argument strings with capacity > size]" if line.get("arg") else "")
    if line["op"] == "X":
        return "base64decode(base64encode(a) + base64encode(b)), base64encode(a + b) for a, b = %s%s" % (
            line["c"][0], " [argument strings with capacity > size]" if line.get("arg") else "")
    if line["op"] in ("ES", "DS"):
        return "%s(%s with element %d running over 0..255)%s" % ("base64encode+decode" if line["op"] == "ES" else "base64decode", line["c"][0], line["pos"],
                                                                 " [argument strings with capacity > size]" if line.get("arg") else "")
    return "%s(%s)%s" % ("base64encode+decode" if line["op"] == "E" else "base64decode", line["c"][0],
                         " [argument strings with capacity > size]" if line.get("arg") else "")


def replay(ctx, path):
    return tables.replay(ctx, path, "Base64Check", "Base64Check.cfg", lambda bld: build(ctx, bld), pid="C13")


def selftest(ctx):
    rnd = random.Random(5)
    lines = pack("E", [rbytes(rnd, rnd.randrange(0, 20)) for _ in range(12)], per=4) + pack("D", [hostile_text(rnd) for _ in range(8)], per=4)

    def corrupt(tl, j):
        tl["c"][j][1][-1] ^= 4          # one character of the recorded encode() output
    return tables.selftest_corrupt(ctx, "Base64Check", "Base64Check.cfg", build(ctx), lines, corrupt, (2, 3), pid="C13")


def run(ctx):
    q = ctx.quick
    W = tables.tlc_workers()
    flavours = ["asan", "O2u", "clangO2"] + ([] if q else ["O0s"])
    with ThreadPoolExecutor(5) as ex:      # the model-checking runs overlap with compiling the harness
        f1 = ex.submit(core.tlc_model_check, ctx, "Base64MC", "Base64_mc.cfg" if q else "Base64_mc_thorough.cfg",
                       "L1 laws: two definitions agree, RFC 4648 vectors, round trip, shape", workers=W)
        f2 = ex.submit(core.tlc_model_check, ctx, "Base64Impl", "Base64Impl_mc.cfg" if q else "Base64Impl_mc_thorough.cfg",
                       "L2 accumulators (exact 32-bit int) compute Encode/DecodePrefix; index in table; terminates", coverage=not q, workers=W)
        f3 = ex.submit(core.tlc_model_check, ctx, "Base64Impl", "Base64Impl_mc_wrap.cfg" if q else "Base64Impl_mc_wrap_thorough.cfg",
                       "L2 on inputs long enough for the int accumulator to wrap (to %d bytes / %d characters over 4 values)" % ((5, 7) if q else (8, 9)),
                       workers=W)
        f4 = ex.submit(core.tlc_model_check, ctx, "Base64Gen", "Base64Gen.cfg" if q else "Base64Gen_thorough.cfg",
                       "L1 composed calls: TLC enumerates and classifies decoder texts (R) and pairs of byte strings (X), checks "
                       "ReencodeLaws / ConcatLaws on each and writes it out as a script case", workers=W)
        drvs = {f: d for f, d in zip(flavours, ex.map(lambda f: build(ctx, f), flavours))}
        sc = scripts(ctx)
        r, r2, r2w, rg = f1.result(), f2.result(), f3.result(), f4.result()
    if any(d is None for d in drvs.values()):      # the functions cannot be called as the property states: reported by build()
        return core.finish(ctx, "exploration", rule="the conformance driver does not build against this tree; no case was run",
                           assumptions=[], exhaustive=False)
    # ---- 1. L1 laws
    if r["violated"]:
        raise MachineryError("Base64.tla violates its own laws (%s): oracle bug, see %s" % (r["violated"], r["outfile"]))
    if rg["violated"]:
        raise MachineryError("Base64.tla violates its laws of composed calls (%s): oracle bug, see %s" % (rg["violated"], rg["outfile"]))
    sc.update(gen_families(ctx, rg))
    # ---- 2. L2 accumulator machine computes L1
    ctx.notes["l2_decoder_argument_classes"] = {"boundary": l2_classes(ctx, r2, "boundary"), "wrap": l2_classes(ctx, r2w, "wrap")}
    for x in (r2, r2w):
        if x["violated"]:
            ctx.drift.append("Base64Impl.tla does not compute Base64.tla's functions (%s); see %s" % (x["violated"], x["outfile"]))
    if not q:
        ctx.notes["l2_action_coverage"] = r2.get("coverage", {})
        ctx.notes["vacuous_actions"] = sorted(k for k, v in r2.get("coverage", {}).items() if v[1] == 0 and k[0].isupper())
        # negative control: the pre-repair index expression T[std::size_t(char)] leaves the table
        r3 = core.tlc(ctx, "Base64Impl", "Base64Impl_signedchar.cfg", name="l2-signed-char-index", workers=W)
        ctx.notes["l2_signed_char_index_control"] = "IndexInTable violated as expected" if r3["violated"] else "NOT violated (control failed)"
        # negative control for ReadsInInput: a pre-pass that walks backwards over trailing padding with no lower bound
        r5 = core.tlc(ctx, "Base64Impl", "Base64Impl_strippad.cfg", name="l2-strip-padding-read-control", workers=W)
        ctx.notes["l2_read_index_control"] = "ReadsInInput violated as expected" if r5["violated"] == "ReadsInInput" else "NOT violated (control failed)"
        # observation (not part of the property): by the letter of C++14 the unmasked int accumulator is shifted left while
        # negative / beyond unsigned int for inputs of >= 5 bytes (7 characters); g++ and clang++ define that as wrap-around
        r4 = core.tlc(ctx, "Base64Impl", "Base64Impl_shiftub.cfg", name="l2-shift-ub-observation", workers=W)
        ctx.notes["l2_shift_ub_observation"] = ("NoShiftUB violated (as on the unchanged tree): the accumulator is left-shifted while negative / "
                                                "overflowing on long inputs; results are unaffected (Refines holds on the exact 32-bit model)"
                                                if r4["violated"] else "NoShiftUB holds")

    jobs = []
    # quick tier: one TLC launch per table is the dominant cost, so the families of fewer than 100 script lines share two tables
    # per build, and the secondary builds run all their families in two tables (small and TLC-enumerated families first)
    small = [n for n, l in sc.items() if n not in SECONDARY_ONLY and len(l) < 100] if q else []
    for name, lines in sc.items():
        if name in SECONDARY_ONLY or name in small:
            continue
        nsplit = (4 if name in ("es3", "ds3") else 2) if q else (64 if name == "es3" else 24 if name == "ds3" else 8 if len(lines) > 2000 else 4)
        for i, ch in enumerate(split(lines, nsplit)):
            jobs.append(tables.Job("%s-%d" % (name, i), drvs["asan"], ch, bld="asan"))
    if small:
        for i, ch in enumerate(split([l for n in small for l in sc[n]], 2)):
            jobs.append(tables.Job("small-%d" % i, drvs["asan"], ch, bld="asan"))
    for f in flavours[1:]:
        if q:
            order = sorted(SECONDARY_FAMILIES, key=lambda n: len(sc[n]))
            for i, ch in enumerate(split([l for n in order for l in sc[n]], 2)):
                jobs.append(tables.Job("secondary-%s-%d" % (f, i), drvs[f], ch, bld=f))
            continue
        for name in SECONDARY_FAMILIES:
            lines = sc[name] if len(sc[name]) < 400 else sc[name][:len(sc[name]) // 4]
            for i, ch in enumerate(split(lines, 2)):
                jobs.append(tables.Job("%s-%s-%d" % (name, f, i), drvs[f], ch, bld=f))
    ncases = sum(len(l["c"]) * (256 if l["op"] in ("ES", "DS") else 1) for j in jobs for l in j.lines)
    ctx.log("C->S: %d cases (a sweep case counts as its 256 calls) in %d tables, builds %s" % (ncases, len(jobs), flavours))
    ctx.notes["build_flavours"] = {f: " ".join([FLAVOURS[f].cxx or core.CXX] + FLAVOURS[f].flags) for f in flavours}
    ctx.sample({"script": [str(sc["rnd-enc"][0]["c"][:3]), str(sc["hostile-dec"][0]["c"][:4])]})
    ok = tables.validate(ctx, "Base64Check", "Base64Check.cfg", jobs, describe=describe)
    ctx.cov["distinct_nontrivial"] = ncases
    ctx.notes["cases_by_family"] = {k: sum(len(l["c"]) * (256 if l["op"] in ("ES", "DS") else 1) for l in v) for k, v in sc.items()}
    ctx.cov["evaluations"] = ncases
    ctx.log("TLC accepted %d of %d table cases (%d calls; a sweep case is 256 calls)" % (ok, sum(len(l["c"]) for j in jobs for l in j.lines), ncases))
    return core.finish(
        ctx, "exploration",
        rule="every byte string of length <= 2 over 0..255 (65 793) through encode, decode(encode) and as decode text; %s; "
             "decoder texts of length 4 and 5: all over %s stratified characters (range ends of the alphabet, '+' '/' '=', their neighbours in the code "
             "table, URL-safe '-' '_', NUL, DEL, 0x80, 0xFF, white space, alphabet characters + 128), and with each single position swept over 0..255 "
             "around fixed characters; seeded random byte strings (length 0..64, some to 400) and hostile decode texts (alphabet "
             "run + padding / whitespace / NUL / bytes >= 0x80 / truncated groups); long inputs (400..20 000 bytes, every length residue, "
             "lengths around 512/1024/4096) for both functions; a slice of all of these with argument strings whose capacity exceeds their size "
             "(slack poisoned under ASan); round 4: every decoder text up to length 5 over a reduced alphabet and every pair of byte strings up to "
             "length 3 over boundary bytes, ENUMERATED AND CLASSIFIED BY TLC (Base64Gen.tla; every shape class - empty, only padding, padding in the "
             "middle, non-canonical padding, length not a multiple of 4, a character outside the alphabet at every position of every length - "
             "is met), through the composed calls encode(decode(t)) and decode(encode(a) + encode(b)), encode(a + b), checked against L1 and the "
             "closed forms of ReencodeLaws / ConcatLaws; L2 (advisory): every index at which the argument is read lies inside it and exactly the "
             "consumed prefix is read, for every input of the L2 universe incl. the empty and all-padding texts; one case = one call (a sweep case = 256 calls) with its returned string compared by TLC with "
             "Base64.tla - for encoder cases by two routes (Encode, and L1's DecodePrefix applied to the recorded output plus length/padding "
             "laws); harness under ASan + -fsanitize=bounds (abort on any index outside the decode table); the random, hostile, "
             "long, capacity and small sweep families are repeated in the builds %s"
             % ("EVERY byte string of length 3 (16 777 216) through encode + decode(encode) and EVERY text of length 3 over all 256 character values through "
                "decode (byte sweeps, every value checked by TLC)" if not q else
                "length 3: the third byte swept over 0..255 for 32 x 32 boundary bytes and the first / second for 8 x 8 (encode + round trip), the third "
                "character swept for 28 x 28 stratified characters and the first / second for 12 x 12 (decode)",
                "16 (length 4) / 8 (length 5)" if q else "28 (length 4) / 12 (length 5)", ", ".join(flavours[1:])),
        assumptions=["a read BEHIND an argument string is an ASan report for every length (heap block of exact size; for the small-string "
                     "buffer the bytes behind the terminator are poisoned by hand); a read BEFORE it is detected for arguments of >= 16 "
                     "bytes only (for shorter ones the preceding bytes are the string object's own fields)",
                     "the int accumulators are left-shifted while negative / overflowing for inputs of >= 5 bytes (7 characters): undefined "
                     "by the letter of C++14, wrap-around for g++ and clang++ (and since C++20). The property speaks of results and of "
                     "table / input indexing only, so this is recorded as an observation; results are compared under every build flavour "
                     "listed, not under -fsanitize=shift",
                     "URL-safe alphabet: not provided by the header; '-' and '_' must end the run like any other character (in the stratified alphabet)",
                     "xbase64.hpp exposes exactly two functions, base64encode(const std::string&) and base64decode(const std::string&), no overloads, "
                     "no table helpers (grep over the header); both are driven through every family",
                     "compilers/platform: g++ 12 and clang++ 14 on x86-64 Linux (plain char signed by default; -funsigned-char and "
                     "-fsigned-char builds included)"],
        exhaustive=False)
